"""Reference models for C20, written without any BQSKit code.

Graphs: brute force over vertex subsets / permutations, cross-checked with
networkx where networkx has the notion.  Linear algebra: explicit index
arithmetic over mixed-radix basis states ("qudit 0 is the most significant
digit") and numpy Kronecker products.
"""
from __future__ import annotations

import itertools as it
import math
from typing import Iterable, Sequence

import networkx as nx
import numpy as np

INF = float('inf')


# ------------------------------------------------------------------ graphs
def all_pairs(n: int) -> list[tuple[int, int]]:
    return list(it.combinations(range(n), 2))


def edges_of_mask(n: int, mask: int) -> list[tuple[int, int]]:
    """Edge i of the lexicographic pair list is present iff bit i is set."""
    return [p for i, p in enumerate(all_pairs(n)) if (mask >> i) & 1]


def norm(e: Sequence[int]) -> tuple[int, int]:
    a, b = int(e[0]), int(e[1])
    return (a, b) if a <= b else (b, a)


def adj(n: int, edges: Iterable[Sequence[int]]) -> list[set[int]]:
    a: list[set[int]] = [set() for _ in range(n)]
    for u, v in edges:
        a[u].add(v)
        a[v].add(u)
    return a


def component_of(a: list[set[int]], s: int, allowed: set[int] | None = None) -> set[int]:
    seen = {s}
    stack = [s]
    while stack:
        u = stack.pop()
        for v in a[u]:
            if v not in seen and (allowed is None or v in allowed):
                seen.add(v)
                stack.append(v)
    return seen


def connected(n: int, a: list[set[int]], verts: Iterable[int] | None = None) -> bool:
    vs = set(range(n)) if verts is None else set(verts)
    if not vs:
        return True     # never used for a verdict
    s = min(vs)
    return component_of(a, s, vs) == vs


def bfs_dist(a: list[set[int]], s: int) -> list[float]:
    d = [INF] * len(a)
    d[s] = 0
    frontier = [s]
    while frontier:
        nxt = []
        for u in frontier:
            for v in a[u]:
                if d[v] == INF:
                    d[v] = d[u] + 1
                    nxt.append(v)
        frontier = nxt
    return d


def weighted_dist(n: int, w: dict[tuple[int, int], float]) -> list[list[float]]:
    """Bellman-Ford style relaxation to a fixed point (positive weights)."""
    D = [[INF] * n for _ in range(n)]
    for i in range(n):
        D[i][i] = 0.0
    for (u, v), x in w.items():
        D[u][v] = min(D[u][v], x)
        D[v][u] = min(D[v][u], x)
    changed = True
    while changed:
        changed = False
        for (u, v), x in w.items():
            for s in range(n):
                for a_, b_ in ((u, v), (v, u)):
                    if D[s][a_] + x < D[s][b_] - 1e-15:
                        D[s][b_] = D[s][a_] + x
                        changed = True
    return D


def connected_subsets(n: int, a: list[set[int]], k: int) -> set[frozenset]:
    return {
        frozenset(c) for c in it.combinations(range(n), k)
        if connected(n, a, c)
    }


def induced_edges(edges: Iterable[Sequence[int]], verts: Iterable[int]) -> set[tuple[int, int]]:
    vs = set(verts)
    return {norm(e) for e in edges if e[0] in vs and e[1] in vs}


def relabel_edges(edges: Iterable[Sequence[int]], ren: dict[int, int]) -> set[tuple[int, int]]:
    return {norm((ren[u], ren[v])) for u, v in edges}


def embeds(n1: int, e1: Sequence[Sequence[int]], n2: int, e2: Sequence[Sequence[int]]) -> bool:
    """Is graph 1 isomorphic to a (not necessarily induced) subgraph of 2?"""
    if n1 > n2:
        return False
    s2 = {norm(e) for e in e2}
    for p in it.permutations(range(n2), n1):
        if all(norm((p[u], p[v])) in s2 for u, v in e1):
            return True
    return False


def embeds_nx(n1: int, e1: Sequence[Sequence[int]], n2: int, e2: Sequence[Sequence[int]]) -> bool:
    g1 = nx.Graph()
    g1.add_nodes_from(range(n1))
    g1.add_edges_from(e1)
    g2 = nx.Graph()
    g2.add_nodes_from(range(n2))
    g2.add_edges_from(e2)
    return nx.algorithms.isomorphism.GraphMatcher(g2, g1).subgraph_is_monomorphic()


def nxg(n: int, edges: Iterable[Sequence[int]]) -> nx.Graph:
    g = nx.Graph()
    g.add_nodes_from(range(n))
    g.add_edges_from([tuple(e) for e in edges])
    return g


def is_path_graph(n: int, a: list[set[int]]) -> bool:
    if n < 2 or not connected(n, a):
        return False
    degs = sorted(len(x) for x in a)
    return degs == [1, 1] + [2] * (n - 2)


def topology(kind: str, *args: int) -> tuple[int, set[tuple[int, int]]]:
    """Textbook edge sets of the named topologies (networkx generators)."""
    if kind == 'all_to_all':
        g = nx.complete_graph(args[0])
    elif kind == 'linear':
        g = nx.path_graph(args[0])
    elif kind == 'ring':
        g = nx.cycle_graph(args[0])
    elif kind == 'star':
        g = nx.star_graph(args[0] - 1)      # centre 0, n-1 leaves
    elif kind == 'grid':
        r, c = args
        g0 = nx.grid_2d_graph(r, c)
        g = nx.relabel_nodes(g0, {(i, j): i * c + j for i, j in g0.nodes})
    else:
        raise ValueError(kind)
    return g.number_of_nodes(), {norm(e) for e in g.edges}


# ---------------------------------------------------------- linear algebra
def digits(x: int, radixes: Sequence[int]) -> list[int]:
    out = []
    for r in reversed(radixes):
        out.append(x % r)
        x //= r
    return out[::-1]


def number(ds: Sequence[int], radixes: Sequence[int]) -> int:
    x = 0
    for d, r in zip(ds, radixes):
        x = x * r + d
    return x


def embed(U: np.ndarray, loc: Sequence[int], radixes: Sequence[int]) -> np.ndarray:
    """The operator that applies U to qudits loc[0], loc[1], ... (in that
    order, loc[0] being U's most significant factor) and the identity to
    the rest.  Explicit loop over basis states."""
    dim = int(np.prod(radixes))
    n = len(radixes)
    sub = [radixes[q] for q in loc]
    rest = [q for q in range(n) if q not in loc]
    M = np.zeros((dim, dim), dtype=np.complex128)
    for x in range(dim):
        dx = digits(x, radixes)
        cx = number([dx[q] for q in loc], sub)
        for cy in range(U.shape[0]):
            amp = U[cy, cx]
            if amp == 0:
                continue
            dy = list(dx)
            for q, d in zip(loc, digits(cy, sub)):
                dy[q] = d
            assert all(dy[q] == dx[q] for q in rest)
            M[number(dy, radixes), x] += amp
    return M


def partial_trace_env(T: np.ndarray, loc: Sequence[int], radixes: Sequence[int]) -> np.ndarray:
    """E[a, b] = sum_k T[(k, a), (k, b)]: trace over every qudit not in loc,
    rows/columns indexed by the qudits of loc in the order given."""
    n = len(radixes)
    dim = int(np.prod(radixes))
    sub = [radixes[q] for q in loc]
    sd = int(np.prod(sub)) if sub else 1
    rest = [q for q in range(n) if q not in loc]
    E = np.zeros((sd, sd), dtype=np.complex128)
    for y in range(dim):
        dy = digits(y, radixes)
        for x in range(dim):
            dx = digits(x, radixes)
            if any(dy[q] != dx[q] for q in rest):
                continue
            E[number([dy[q] for q in loc], sub), number([dx[q] for q in loc], sub)] += T[y, x]
    return E


def qudit_permutation_matrix(perm: Sequence[int], radix: int) -> np.ndarray:
    """P|x_0 .. x_{n-1}> = |y> with y_i = x_{perm[i]}."""
    n = len(perm)
    rs = [radix] * n
    dim = radix ** n
    P = np.zeros((dim, dim))
    for x in range(dim):
        dx = digits(x, rs)
        P[number([dx[perm[i]] for i in range(n)], rs), x] = 1
    return P


def read_qudit_permutation(P: np.ndarray, n: int, radix: int) -> list[int] | None:
    """If P is the matrix of a permutation of n radix-`radix` qudits return
    perm with y_i = x_{perm[i]}, else None.  Decided on every basis state."""
    rs = [radix] * n
    dim = radix ** n
    if P.shape != (dim, dim):
        return None
    A = np.asarray(P)
    if not np.all((A == 0) | (A == 1)):
        return None
    if not (np.all(A.sum(0) == 1) and np.all(A.sum(1) == 1)):
        return None
    img = [int(np.argmax(A[:, x].real)) for x in range(dim)]
    perm: list[int] = [-1] * n
    for j in range(n):
        ds = [0] * n
        ds[j] = 1
        dy = digits(img[number(ds, rs)], rs)
        if sorted(dy) != sorted(ds):
            return None
        perm[dy.index(1)] = j
    if sorted(perm) != list(range(n)):
        return None
    for x in range(dim):
        dx = digits(x, rs)
        if img[x] != number([dx[perm[i]] for i in range(n)], rs):
            return None
    return perm


def catalogue(radixes: Sequence[int], seed: int) -> list[tuple[str, np.ndarray]]:
    """Structured and generic unitaries on prod(radixes) dimensions."""
    d = int(np.prod(radixes))
    out: list[tuple[str, np.ndarray]] = []
    out.append(('identity', np.eye(d, dtype=np.complex128)))
    shift = np.roll(np.eye(d), 1, axis=0).astype(np.complex128)
    out.append(('shift', shift))
    w = np.exp(2j * math.pi / d)
    out.append(('clock', np.diag([w ** (k * k + 0.5 * k) for k in range(d)])))
    F = np.array([[w ** (j * k) for k in range(d)] for j in range(d)]) / math.sqrt(d)
    out.append(('dft', F))
    rng = np.random.RandomState(1000 + 17 * seed + d)
    A = rng.randn(d, d) + 1j * rng.randn(d, d)
    Q, R = np.linalg.qr(A)
    Q = Q * (np.diag(R) / np.abs(np.diag(R)))
    out.append(('generic', Q))
    return out


def generic_state(d: int, seed: int) -> np.ndarray:
    rng = np.random.RandomState(2000 + 31 * seed + d)
    v = rng.randn(d) + 1j * rng.randn(d)
    return v / np.linalg.norm(v)
