"""Gate specs (JSON) -> BQSKit gates, gate catalogue and parameter grid (C06/C19).

A *spec* is a JSON list:

    ["lib", "U3Gate", *ctor_args]
    ["const", [radixes], tag]            ConstantUnitaryGate(generic unitary)
    ["ctrl", inner, num_controls, [control_radixes], [[levels], ...]]
    ["embed", inner, [radixes], [[level_map], ...]]
    ["circ", [radixes], [[spec, [loc], [params]], ...]]    CircuitGate
    ["frozen", inner, {"idx": value}]
    ["dagger", inner] / ["tagged", inner, tag] / ["power", inner, k]
    ["py", "ClassName", *ctor_args]      classes of vf.c19_gates

A circuit *case* is {"radixes": [...], "ops": [[spec, [loc], [params]], ...],
"seed": s}.  Generic constants depend on (seed, tag, radixes) only.
"""
from __future__ import annotations

import itertools
import json
import math
import zlib
from typing import Any, Sequence

import numpy as np

import vf.common  # noqa: F401  (repo selection)
import bqskit.ir.gates as G
from bqskit.ir.circuit import Circuit


# ---------------------------------------------------------------- constants
def _rng(seed: int, *key: Any) -> np.random.Generator:
    k = zlib.crc32(repr(key).encode())
    return np.random.default_rng([int(seed) & 0xFFFFFFFF, k])


def generic_unitary(radixes: Sequence[int], seed: int, tag: Any = 0) -> Any:
    """A dense unitary without any symmetry, fixed by (seed, tag, radixes)."""
    d = int(np.prod(radixes))
    r = _rng(seed, 'utry', tag, tuple(radixes))
    A = r.normal(size=(d, d)) + 1j * r.normal(size=(d, d))
    Q, R = np.linalg.qr(A)
    ph = np.diag(R) / np.abs(np.diag(R))
    return Q * ph


def generic_state(dim: int, seed: int, tag: Any = 0) -> Any:
    r = _rng(seed, 'state', tag, dim)
    v = r.normal(size=dim) + 1j * r.normal(size=dim)
    return v / np.linalg.norm(v)


def generic_angle(seed: int, tag: Any = 0) -> float:
    return float(_rng(seed, 'angle', tag).uniform(-3.0, 3.0))


def grid(seed: int) -> list[float]:
    """The C06 parameter grid: {0, pi/2, pi, -2.1, 7.9, one seeded generic}."""
    return [0.0, math.pi / 2, math.pi, -2.1, 7.9, generic_angle(seed, 'grid')]


def generic_params(k: int, seed: int, tag: Any = 0) -> list[float]:
    """k pairwise distinct generic angles."""
    r = _rng(seed, 'params', tag, k)
    return [float(x) for x in r.uniform(-3.0, 3.0, size=k)]


# ------------------------------------------------------------------ builder
_GATE_CACHE: dict[tuple, Any] = {}


def build_gate(spec: Sequence[Any], seed: int) -> Any:
    """Build (and memoise: gates are immutable) the gate described by spec."""
    key = (json.dumps(spec, sort_keys=True), int(seed))
    g = _GATE_CACHE.get(key)
    if g is None:
        g = _build_gate(spec, seed)
        if len(_GATE_CACHE) < 20000:
            _GATE_CACHE[key] = g
    return g


def _build_gate(spec: Sequence[Any], seed: int) -> Any:
    kind = spec[0]
    if kind == 'lib':
        return getattr(G, spec[1])(*spec[2:])
    if kind == 'const':
        rad = [int(r) for r in spec[1]]
        return G.ConstantUnitaryGate(generic_unitary(rad, seed, spec[2]), rad)
    if kind == 'ctrl':
        return G.ControlledGate(
            build_gate(spec[1], seed), int(spec[2]),
            [int(r) for r in spec[3]], [list(lv) for lv in spec[4]],
        )
    if kind == 'embed':
        return G.EmbeddedGate(
            build_gate(spec[1], seed), [int(r) for r in spec[2]],
            [list(m) for m in spec[3]],
        )
    if kind == 'circ':
        return G.CircuitGate(build_circuit(
            {'radixes': spec[1], 'ops': spec[2], 'seed': seed},
        ))
    if kind == 'frozen':
        return G.FrozenParameterGate(
            build_gate(spec[1], seed),
            {int(k): float(v) for k, v in spec[2].items()},
        )
    if kind == 'dagger':
        return G.DaggerGate(build_gate(spec[1], seed))
    if kind == 'tagged':
        return G.TaggedGate(build_gate(spec[1], seed), spec[2])
    if kind == 'power':
        return G.PowerGate(build_gate(spec[1], seed), int(spec[2]))
    if kind == 'py':
        import vf.c19_gates as PG
        args = [
            build_gate(a, seed) if isinstance(a, list) and a
            and isinstance(a[0], str) else a for a in spec[2:]
        ]
        return getattr(PG, spec[1])(*args)
    raise ValueError(f'unknown gate spec {spec!r}')


def build_circuit(case: dict) -> Circuit:
    seed = int(case.get('seed', 0))
    rad = [int(r) for r in case['radixes']]
    c = Circuit(len(rad), rad)
    for spec, loc, params in case['ops']:
        g = build_gate(spec, seed)
        c.append_gate(g, [int(q) for q in loc], [float(p) for p in params])
    return c


def spec_name(spec: Sequence[Any]) -> str:
    """Short causal name of a spec (for signatures): kind and gate class."""
    k = spec[0]
    if k in ('lib', 'py'):
        return str(spec[1])
    if k == 'const':
        return 'ConstantUnitaryGate'
    if k == 'circ':
        return 'CircuitGate'
    names = {'ctrl': 'ControlledGate', 'embed': 'EmbeddedGate',
             'frozen': 'FrozenParameterGate', 'dagger': 'DaggerGate',
             'tagged': 'TaggedGate', 'power': 'PowerGate'}
    return f'{names[k]}<{spec_name(spec[1])}>'


# ---------------------------------------------------------------- catalogue
_ONE_PARAM = {                       # a 1-qudit parameterised gate per radix
    2: [['lib', 'U3Gate'], ['lib', 'RYGate']],
    3: [['lib', 'RSU3Gate', 2], ['embed', ['lib', 'RXGate'], [3], [[0, 2]]]],
    4: [['embed', ['lib', 'U3Gate'], [4], [[1, 3]]],
        ['embed', ['lib', 'RZGate'], [4], [[0, 2]]]],
}

_LIB1 = {
    2: ['HGate', 'XGate', 'YGate', 'ZGate', 'SGate', 'SdgGate', 'TGate',
        'TdgGate', 'SXGate', 'SXdgGate', 'SqrtTGate', 'IdentityGate',
        'RXGate', 'RYGate', 'RZGate', 'U1Gate', 'U2Gate', 'U3Gate',
        'U1qGate', 'PhasedXZGate'],
    3: ['ClockGate', 'U8Gate'],
}
_LIB2 = ['CXGate', 'CYGate', 'CZGate', 'CHGate', 'CSGate', 'CTGate',
         'SwapGate', 'ISwapGate', 'SqrtISwapGate', 'SqrtCNOTGate', 'ECRGate',
         'SycamoreGate', 'BGate', 'XXGate', 'YYGate', 'ZZGate',
         'CRXGate', 'CRYGate', 'CRZGate', 'CPGate', 'CUGate', 'RXXGate',
         'RYYGate', 'RZZGate', 'FSIMGate', 'DiagonalGate',
         'ArbitraryCPhaseGate']
_LIB3 = ['CCXGate', 'ToffoliGate', 'IToffoliGate', 'RCCXGate', 'MargolusGate',
         'CCPGate']


def _top(r: int) -> list[int]:
    """Control levels used for a control qudit of radix r."""
    return [r - 1] if r == 2 else [1, r - 1]


def _nested(sig: tuple[int, ...]) -> list:
    """A CircuitGate over `sig` whose body uses a permuted inner location."""
    n = len(sig)
    if n == 1:
        return ['circ', list(sig), [
            [_ONE_PARAM[sig[0]][0], [0], _defaults(_ONE_PARAM[sig[0]][0])],
            [['const', list(sig), 'n1'], [0], []],
        ]]
    inner_loc = list(range(n - 1, -1, -1))            # fully reversed
    body = [
        [_ONE_PARAM[sig[-1]][0], [n - 1], _defaults(_ONE_PARAM[sig[-1]][0])],
        [['const', [sig[q] for q in inner_loc], 'n'], inner_loc, []],
        [_ONE_PARAM[sig[0]][-1], [0], _defaults(_ONE_PARAM[sig[0]][-1])],
    ]
    return ['circ', list(sig), body]


_NP_CACHE: dict[str, int] = {}


def num_params_of(spec: Sequence[Any]) -> int:
    key = repr(spec)
    if key not in _NP_CACHE:
        _NP_CACHE[key] = int(build_gate(spec, 0).num_params)
    return _NP_CACHE[key]


def _defaults(spec: Sequence[Any]) -> list[float]:
    """Inner stored parameters of nested bodies (never used by the outer op:
    an Operation always passes its own parameters)."""
    return [0.25 * (i + 1) for i in range(num_params_of(spec))]


def catalogue(sig: Sequence[int], level: str = 'full') -> list:
    """Gate specs whose radixes are exactly `sig`.

    level 'full' : every library gate that exists for the signature plus the
                   composed/nested/constant constructions (single-op scans);
    level 'core' : one generic constant, one parameterised composed gate, one
                   nested CircuitGate (multi-op sequences);
    level 'one'  : the generic constant and one parameterised gate.
    """
    sig = tuple(int(r) for r in sig)
    n = len(sig)
    out: list = [['const', list(sig), 'g']]
    if n == 1:
        param = [_ONE_PARAM[sig[0]][0]]
    else:
        ctrl_rad = list(sig[:-1])
        param = [[
            'ctrl', _ONE_PARAM[sig[-1]][0], n - 1, ctrl_rad,
            [_top(r) for r in ctrl_rad],
        ]]
    if level == 'one':
        return out + param
    nested = [_nested(sig)] if n <= 3 else []
    if level == 'core':
        return out + param + nested
    # ---- full
    out += param + nested
    if n == 1:
        r = sig[0]
        out += [s for s in _ONE_PARAM[r][1:]]
        out += [['lib', name] for name in _LIB1.get(r, [])]
        if r > 2:
            out += [['lib', 'ClockGate', r], ['lib', 'ShiftGate', r],
                    ['lib', 'HGate', r], ['lib', 'PDGate', r - 1, r]]
        if r == 3:
            out += [['lib', 'RSU3Gate', i] for i in (1, 4, 7)]
            out += [['frozen', ['lib', 'U8Gate'], {'2': 0.4, '5': -1.1}]]
        if r == 2:
            out += [
                ['frozen', ['lib', 'U3Gate'], {'1': 0.3}],
                ['dagger', ['lib', 'U3Gate']],
                ['tagged', ['lib', 'U2Gate'], 'tag'],
                ['lib', 'PauliGate', 1],
                ['lib', 'MPRYGate', 1], ['lib', 'MPRZGate', 1],
            ]
    elif n == 2:
        a, b = sig
        if sig == (2, 2):
            out += [['lib', name] for name in _LIB2]
            out += [['lib', 'PauliGate', 2], ['lib', 'PauliZGate', 2],
                    ['lib', 'MPRYGate', 2], ['lib', 'MPRZGate', 2, 0],
                    ['dagger', ['lib', 'CUGate']],
                    ['frozen', ['lib', 'FSIMGate'], {'0': 1.2}],
                    ['ctrl', ['lib', 'U3Gate'], 1, [2], [[0]]]]
        else:
            # embedded two-qubit gates in the highest/lowest levels
            out += [['embed', ['lib', 'CRYGate'], [a, b],
                     [[0, a - 1], [b - 2, b - 1]]]]
            out += [['ctrl', _ONE_PARAM[b][-1], 1, [a], [[a - 1]]]]
        if a == b and a > 2:
            out += [['lib', 'SwapGate', a], ['lib', 'CSUMGate', a]]
            if a == 3:
                out += [['lib', 'CPIGate'], ['lib', 'SubSwapGate', 3, '0,1;2,0']]
        # constant target under a multi-level control
        tgt = {2: ['lib', 'YGate'], 3: ['lib', 'ShiftGate', 3],
               4: ['lib', 'ClockGate', 4]}[b]
        out += [['ctrl', tgt, 1, [a], [_top(a)]]]
    elif n == 3:
        if sig == (2, 2, 2):
            out += [['lib', name] for name in _LIB3]
            out += [['lib', 'PauliGate', 3], ['lib', 'MPRYGate', 3, 1],
                    ['lib', 'MPRZGate', 3]]
        # a controlled two-qudit parameterised gate (one control)
        a, b, c = sig
        if (b, c) == (2, 2):
            out += [['ctrl', ['lib', 'FSIMGate'], 1, [a], [[a - 1]]]]
        else:
            out += [['ctrl', ['embed', ['lib', 'RZZGate'], [b, c],
                              [[0, b - 1], [0, c - 1]]], 1, [a], [[a - 1]]]]
    elif n == 4:
        if sig == (2, 2, 2, 2):
            out += [['lib', 'RC3XGate'], ['lib', 'MPRYGate', 4, 2]]
    return out


def locations(radixes: Sequence[int], max_arity: int = 3) -> list[tuple]:
    """Every ordered tuple of distinct qudits of arity 1..max_arity."""
    n = len(radixes)
    out = []
    for k in range(1, min(n, max_arity) + 1):
        out += list(itertools.permutations(range(n), k))
    return out


def radix_tuples(width: int, max_dim: int | None = None) -> list[tuple]:
    out = []
    for t in itertools.product((2, 3, 4), repeat=width):
        if max_dim is None or int(np.prod(t)) <= max_dim:
            out.append(t)
    out.sort(key=lambda t: (int(np.prod(t)), t))
    return out


def nontrivial_location(loc: Sequence[int]) -> bool:
    """Non-adjacent or non-ascending multi-qudit location."""
    if len(loc) < 2:
        return False
    return any(b - a != 1 for a, b in zip(loc, loc[1:]))
