"""C09 helpers: coupling-graph enumeration and the exact mapping oracle.

Everything here is written against numpy / plain Python only (no BQSKit
simulation, no CouplingGraph algorithms): graphs are edge lists, connectivity
is a BFS, unitaries are contracted gate by gate with tensordot.
"""
from __future__ import annotations

import itertools
from typing import Any

import numpy as np


# ------------------------------------------------------------------ graphs
def connected(nodes: Any, edges: Any) -> bool:
    """Do `nodes` induce a connected subgraph of `edges`?"""
    nodes = list(nodes)
    if not nodes:
        return False
    ns = set(nodes)
    adj: dict = {v: set() for v in ns}
    for a, b in edges:
        if a in ns and b in ns:
            adj[a].add(b)
            adj[b].add(a)
    seen = {nodes[0]}
    todo = [nodes[0]]
    while todo:
        v = todo.pop()
        for u in adj[v]:
            if u not in seen:
                seen.add(u)
                todo.append(u)
    return len(seen) == len(ns)


def labelled_connected_graphs(m: int) -> list:
    """Every connected labelled graph on m vertices, fewest edges first."""
    pairs = list(itertools.combinations(range(m), 2))
    res = []
    for k in range(m - 1, len(pairs) + 1):
        for es in itertools.combinations(pairs, k):
            if connected(range(m), es):
                res.append([list(e) for e in es])
    return res


def unlabelled_connected_graphs(m: int) -> list:
    """One representative per isomorphism class (networkx graph atlas)."""
    import networkx as nx
    res = []
    for g in nx.graph_atlas_g():
        if g.number_of_nodes() == m and nx.is_connected(g):
            res.append(sorted([min(e), max(e)] for e in g.edges()))
    return res


def line(m: int) -> list:
    return [[i, i + 1] for i in range(m - 1)]


def ring(m: int) -> list:
    return line(m) + [[0, m - 1]]


def star(m: int) -> list:
    return [[0, i] for i in range(1, m)]


# ------------------------------------------------------------ linear algebra
def apply_gate(u: np.ndarray, g: np.ndarray, loc: Any, n: int) -> np.ndarray:
    """Left-multiply the n-qubit operator `u` by gate `g` on `loc`
    (big-endian: qudit 0 is the most significant)."""
    dim = 2 ** n
    k = len(loc)
    t = u.reshape([2] * n + [dim])
    gt = np.asarray(g, dtype=complex).reshape([2] * (2 * k))
    t = np.tensordot(gt, t, axes=(list(range(k, 2 * k)), list(loc)))
    t = np.moveaxis(t, list(range(k)), list(loc))
    return t.reshape(dim, dim)


def unitary_of_ops(n: int, ops: list) -> np.ndarray:
    """ops: [(matrix, location)], applied in order."""
    u = np.eye(2 ** n, dtype=complex)
    for g, loc in ops:
        u = apply_gate(u, g, loc, n)
    return u


def induced(uout: np.ndarray, m: int, init: list, final: list) -> np.ndarray:
    """The map on the logical register: logical basis state x enters on the
    physical qudits init[l] (all others |0>), amplitudes are read at
    final[l] with all other qudits in |0>."""
    w = len(init)
    t = uout.reshape([2] * (2 * m))          # out axes 0..m-1, in axes m..2m-1
    idx: list = [0] * (2 * m)
    for q in final:
        idx[q] = slice(None)
    for q in init:
        idx[m + q] = slice(None)
    sub = t[tuple(idx)]
    # remaining axes are ordered by physical index; reorder to logical order
    out_phys = sorted(final)
    in_phys = sorted(init)
    perm = [out_phys.index(q) for q in final] + \
        [w + in_phys.index(q) for q in init]
    sub = np.transpose(sub, perm)
    return sub.reshape(2 ** w, 2 ** w)


def phase_distance(a: np.ndarray, b: np.ndarray) -> float:
    """max-abs difference after removing the best global phase."""
    tr = np.vdot(a, b)                        # sum conj(a) * b
    ph = tr / abs(tr) if abs(tr) > 1e-12 else 1.0
    return float(np.abs(a * ph - b).max())


def unitarity_defect(mtx: np.ndarray) -> float:
    return float(np.abs(mtx.conj().T @ mtx - np.eye(mtx.shape[0])).max())


def hs_cost(a: np.ndarray, b: np.ndarray) -> float:
    return float(1 - abs(np.trace(a.conj().T @ b)) / a.shape[0])
