"""Per-circuit oracles of property C06 (judged against vf.c06_ref).

`check_circuit(circuit, ...)` returns a list of (signature, what) findings;
the empty list means the property held on this circuit.  Nothing here knows
how the circuit was enumerated.
"""
from __future__ import annotations

import itertools
from typing import Any, Callable, Sequence

import numpy as np

import vf.common  # noqa: F401
from bqskit.qis.state.state import StateVector
from vf.c06_gates import generic_state
from vf.c06_ref import ordered_ops
from vf.c06_ref import reference_grad
from vf.c06_ref import reference_statevector
from vf.c06_ref import reference_unitary

TOL = 1e-10          # products of <= a dozen unitaries of dim <= 64: ~1e-14
H = 1e-6
GTOL = 1e-5


def _err(a: Any, b: Any) -> float:
    a = np.asarray(a)
    b = np.asarray(b)
    if a.shape != b.shape:
        return float('inf')
    if a.size == 0:
        return 0.0
    return float(np.max(np.abs(a - b)))


class Findings(list):
    def __init__(self, feature: str) -> None:
        super().__init__()
        self.feature = feature
        self.obs = 'ok'

    def add(self, kind: str, what: str) -> None:
        self.append((f'{kind}:{self.feature}', what))


def _call(f: Findings, name: str, fn: Callable, *a: Any) -> Any:
    """Run code under test; an exception on a valid input is a finding."""
    try:
        return True, fn(*a)
    except Exception as e:  # noqa
        f.add(f'{name}-raised-{type(e).__name__}',
              f'{name} raised {type(e).__name__}: {str(e)[:200]}')
        return False, None


def scrambled(p: Sequence[float]) -> list[float]:
    """Another parameter vector of the same length, different everywhere."""
    return [float(-0.61 * x + 1.234 + 0.071 * i) for i, x in enumerate(p)]


def check_circuit(
    circuit: Any, feature: str, seed: int = 0, *,
    assigned: list | None = None, do_states: str = 'all',
    do_grad: bool = True, do_params: bool = True, do_freeze: bool = True,
    rebuild: Callable | None = None, lite: bool = False,
) -> Findings:
    """All C06 simulation/parameter oracles on one circuit.

    assigned : optional [(location, [params])] per constructed operation,
               with pairwise distinct parameter values across the circuit
               (enables the "lives in the operation it is said to" check
               against the harness's own knowledge).
    rebuild  : callable returning a fresh equal circuit (for mutating checks);
               defaults to circuit.copy().
    lite     : mutate-and-compare loops (set_param, freeze_param) visit the
               first, middle and last flat index only, and the gradient is
               compared with central differences at the stored point only.
    """
    f = Findings(feature)
    rad = tuple(int(r) for r in circuit.radixes)
    dim = int(np.prod(rad))
    fresh = rebuild if rebuild is not None else circuit.copy
    memo: dict = {}

    def visit(P: int) -> list[int]:
        return sorted({P // 2, P - 1}) if lite else list(range(P))

    # ------------------------------------------------ flat parameter vector
    ok, flat = _call(f, 'params', lambda: [float(x) for x in circuit.params])
    if not ok:
        return f
    ops = ordered_ops(circuit, 'iter')
    own = [float(x) for op in ops for x in op.params]
    P = len(own)
    if flat != own:
        f.add('params-ne-concatenated-operation-params',
              f'circuit.params={flat} but operations in iteration order '
              f'hold {own}')
        return f
    if int(circuit.num_params) != P:
        f.add('num_params-ne-len-params',
              f'num_params={circuit.num_params}, len(params)={P}')
    # what kind of case this was (observed, for the evidence)
    f.obs = 'ok-constant-circuit' if P == 0 else 'ok-parameterised'
    if assigned is not None and \
            [tuple(op.location) for op in ops] != \
            [tuple(loc) for loc, _ in assigned]:
        f.obs += '-iteration-order-differs-from-append-order'

    # --------------------------------------------------------- get_unitary
    ref = reference_unitary(circuit, memo=memo)                      # stored, iter order
    ref_grid = reference_unitary(circuit, order='grid', memo=memo)
    if _err(ref, ref_grid) > TOL:
        f.add('iteration-order-not-a-simulation-order',
              'product in iteration order differs from product in grid '
              f'(cycle-major) order by {_err(ref, ref_grid):.3g}')
    ok, U = _call(f, 'get_unitary', lambda: np.asarray(circuit.get_unitary()))
    if ok and _err(U, ref) > TOL:
        f.add('get_unitary-stored-ne-ordered-product',
              f'get_unitary() differs from the reference product by '
              f'{_err(U, ref):.3g}')
    if P:
        ok = False
        if not lite:
            ok, U = _call(f, 'get_unitary(params)',
                          lambda: np.asarray(circuit.get_unitary(flat)))
        if ok and _err(U, ref) > TOL:
            f.add('get_unitary-explicit-same-params-ne-stored',
                  f'get_unitary(params) with the stored values differs by '
                  f'{_err(U, ref):.3g}')
        # explicit parameters different from the stored ones
        q = scrambled(flat)
        ref_q = reference_unitary(circuit, q, memo=memo)
        ok, U = _call(f, 'get_unitary(params)',
                      lambda: np.asarray(circuit.get_unitary(q)))
        if ok and _err(U, ref_q) > TOL:
            f.add('get_unitary-explicit-ne-ordered-product',
                  f'get_unitary(q) for q != stored differs from the '
                  f'reference at q by {_err(U, ref_q):.3g}')
        # storing them first gives the same
        c2 = fresh()
        ok, _ = _call(f, 'set_params', lambda: c2.set_params(q))
        if ok:
            flat2 = [float(x) for x in c2.params]
            if flat2 != q:
                f.add('set_params-then-params-differs',
                      f'set_params({q}) then params gives {flat2}')
            ok, U2 = _call(f, 'get_unitary',
                           lambda: np.asarray(c2.get_unitary()))
            if ok and _err(U2, ref_q) > TOL:
                f.add('set_params-then-get_unitary-ne-explicit',
                      'storing q then get_unitary() differs from the '
                      f'reference at q by {_err(U2, ref_q):.3g}')
            # explicit original values on the scrambled circuit
            ok, U3 = _call(f, 'get_unitary(params)',
                           lambda: np.asarray(c2.get_unitary(flat)))
            if ok and _err(U3, ref) > TOL:
                f.add('get_unitary-explicit-depends-on-stored',
                      'get_unitary(p) changed after storing other values: '
                      f'{_err(U3, ref):.3g}')

    # ----------------------------------------------------- get_statevector
    if do_states != 'none':
        if do_states == 'all':
            basis = list(range(dim))
        else:
            basis = sorted({dim - 1, 1 % dim})
        for b in basis:
            e = np.zeros(dim, dtype=np.complex128)
            e[b] = 1.0
            ok, v = _call(
                f, 'get_statevector',
                lambda: np.asarray(
                    circuit.get_statevector(StateVector(e, rad)).numpy,
                ),
            )
            if ok and _err(v, ref[:, b]) > TOL:
                f.add('get_statevector-basis-ne-reference-column',
                      f'basis state {b}: differs from column {b} of the '
                      f'reference by {_err(v, ref[:, b]):.3g}')
                break
            if not ok:
                break
        g = generic_state(dim, seed, 'c06')
        ok, v = _call(
            f, 'get_statevector',
            lambda: np.asarray(
                circuit.get_statevector(StateVector(g, rad)).numpy,
            ),
        )
        want = reference_statevector(circuit, g)
        if ok and _err(v, want) > TOL:
            f.add('get_statevector-generic-ne-reference',
                  f'generic state: differs by {_err(v, want):.3g}')
        if ok and _err(want, ref @ g) > TOL:   # self-test of the reference
            raise vf.common.HarnessError('reference state != reference U.v')
        if P:
            q = scrambled(flat)
            ok, v = _call(
                f, 'get_statevector(params)',
                lambda: np.asarray(
                    circuit.get_statevector(StateVector(g, rad), q).numpy,
                ),
            )
            want = reference_statevector(circuit, g, q)
            if ok and _err(v, want) > TOL:
                f.add('get_statevector-explicit-ne-reference',
                      f'generic state, explicit q: differs by '
                      f'{_err(v, want):.3g}')
        if not lite and (all(r == 2 for r in rad)
                         or all(r == 3 for r in rad)):
            # raw vectors are StateLike when the radixes can be inferred
            ok, v = _call(
                f, 'get_statevector(raw)',
                lambda: np.asarray(circuit.get_statevector(g).numpy),
            )
            if ok and _err(v, ref @ g) > TOL:
                f.add('get_statevector-raw-vector-ne-reference',
                      f'raw ndarray input differs by {_err(v, ref @ g):.3g}')

    # ------------------------------------------------------------ gradients
    grad_stored = None
    differentiable = False
    if do_grad:
        ok, differentiable = _call(f, 'is_differentiable',
                                   circuit.is_differentiable)
        differentiable = bool(ok and differentiable)
    if do_grad and not differentiable:
        f.obs += '-not-differentiable'
    if do_grad and differentiable:
        ok, ug = _call(f, 'get_unitary_and_grad',
                       lambda: circuit.get_unitary_and_grad())
        ok2, g1 = _call(f, 'get_grad', lambda: circuit.get_grad())
        if ok and ok2:
            U, g2 = np.asarray(ug[0]), np.asarray(ug[1])
            g1 = np.asarray(g1)
            if _err(U, ref) > TOL:
                f.add('get_unitary_and_grad-unitary-ne-ordered-product',
                      f'unitary part differs by {_err(U, ref):.3g}')
            if P == 0:
                if g1.size or g2.size:
                    f.add('grad-nonempty-without-parameters',
                          f'grad shapes {g1.shape} {g2.shape} for 0 params')
            else:
                if g1.shape != (P, dim, dim) or g2.shape != (P, dim, dim):
                    f.add('grad-wrong-shape',
                          f'get_grad {g1.shape}, get_unitary_and_grad '
                          f'{g2.shape}, expected {(P, dim, dim)}')
                else:
                    if _err(g1, g2) > TOL:
                        f.add('get_grad-ne-get_unitary_and_grad',
                              f'differ by {_err(g1, g2):.3g}')
                    rg = reference_grad(circuit, flat, H)
                    for i in range(P):
                        tol = GTOL * (1.0 + float(np.max(np.abs(rg[i]))))
                        if _err(g1[i], rg[i]) > tol:
                            f.add('grad-stored-ne-central-differences',
                                  f'd/dp[{i}]: differs from central '
                                  f'differences of the reference by '
                                  f'{_err(g1[i], rg[i]):.3g}')
                            break
                    grad_stored = g1
                    # explicit, different parameters
                    q = scrambled(flat)
                    ok, ugq = _call(
                        f, 'get_unitary_and_grad(params)',
                        lambda: circuit.get_unitary_and_grad(q),
                    )
                    ok2, gq1 = _call(f, 'get_grad(params)',
                                     lambda: circuit.get_grad(q))
                    if ok and ok2:
                        Uq, gq = np.asarray(ugq[0]), np.asarray(ugq[1])
                        gq1 = np.asarray(gq1)
                        ref_q = reference_unitary(circuit, q, memo=memo)
                        if _err(Uq, ref_q) > TOL:
                            f.add('get_unitary_and_grad-explicit-unitary-ne-'
                                  'ordered-product',
                                  f'differs by {_err(Uq, ref_q):.3g}')
                        if _err(gq, gq1) > TOL:
                            f.add('get_grad-ne-get_unitary_and_grad',
                                  f'explicit q: differ by '
                                  f'{_err(gq, gq1):.3g}')
                        if lite:
                            # explicit q == stored q (stored path is tied to
                            # central differences above)
                            cq = fresh()
                            cq.set_params(q)
                            okq, gs = _call(f, 'get_grad',
                                            lambda: np.asarray(cq.get_grad()))
                            if okq and _err(gq, gs) > 1e-9:
                                f.add('grad-explicit-ne-grad-stored',
                                      'get_grad(q) differs from get_grad() '
                                      'after set_params(q) by '
                                      f'{_err(gq, gs):.3g}')
                        else:
                            rgq = reference_grad(circuit, q, H)
                            for i in range(P):
                                tol = GTOL * (
                                    1.0 + float(np.max(np.abs(rgq[i])))
                                )
                                if gq.shape != rgq.shape \
                                        or _err(gq[i], rgq[i]) > tol:
                                    f.add(
                                        'grad-explicit-ne-central-differences',
                                        f'd/dq[{i}]: differs from central '
                                        f'differences of the reference',
                                    )
                                    break

    # ----------------------------------------------- flat index arithmetic
    if do_params and P:
        # expected owner of each flat index, from iteration order
        owner: list[tuple[int, int]] = []
        for k, op in enumerate(ops):
            owner += [(k, j) for j in range(len(op.params))]
        # the cycle of each operation, from the public grid
        op_cycle = _cycles_of(circuit, ops)
        value_home = None
        if assigned is not None:
            value_home = {}
            for loc, ps in assigned:
                for j, v in enumerate(ps):
                    value_home[float(v)] = (tuple(loc), j)
        for i in range(P):
            ok, where = _call(f, 'get_param_location',
                              lambda: circuit.get_param_location(i))
            if not ok:
                break
            ok, val = _call(f, 'get_param', lambda: circuit.get_param(i))
            if not ok:
                break
            k, j = owner[i]
            cyc, qud, pj = (int(x) for x in where)
            bad = None
            if float(val) != flat[i]:
                bad = f'get_param({i})={val} but params[{i}]={flat[i]}'
                f.add('get_param-ne-params-entry', bad)
                break
            try:
                there = circuit[cyc, qud]
            except Exception as e:  # noqa
                f.add('get_param_location-points-at-nothing',
                      f'get_param_location({i})={where}: {e}')
                break
            if (pj != j or tuple(there.location) != tuple(ops[k].location)
                    or cyc != op_cycle[k]
                    or qud not in tuple(there.location)
                    or float(there.params[pj]) != flat[i]):
                f.add('get_param_location-wrong-operation-or-index',
                      f'get_param_location({i})={where} -> {there!r}; '
                      f'expected operation {ops[k]!r} in cycle '
                      f'{op_cycle[k]}, index {j}')
                break
            if value_home is not None:
                home = value_home.get(flat[i])
                if home is None or home != (tuple(there.location), pj):
                    f.add('param-index-not-in-the-operation-it-was-given-to',
                          f'params[{i}]={flat[i]} was given to {home}, found '
                          f'at {tuple(there.location)}[{pj}]')
                    break
        # set_param(i, v): changes exactly entry i, visible everywhere
        for i in visit(P):
            c2 = fresh()
            v = 0.4321 + 0.11 * i
            ok, _ = _call(f, 'set_param', lambda: c2.set_param(i, v))
            if not ok:
                break
            want = list(flat)
            want[i] = v
            got = [float(x) for x in c2.params]
            if got != want:
                f.add('set_param-changes-other-than-index',
                      f'set_param({i}, {v}) on {flat} gives {got}')
                break
            try:
                cyc, qud, pj = c2.get_param_location(i)
                if float(c2[cyc, qud].params[pj]) != v:
                    f.add('set_param-not-read-back-through-location',
                          f'set_param({i}) not visible at '
                          f'get_param_location({i})')
                    break
            except Exception:  # noqa  (already judged above)
                pass
            if i in ((P - 1,) if lite else (0, P - 1, P // 2)):
                ok, U = _call(f, 'get_unitary',
                              lambda: np.asarray(c2.get_unitary()))
                ref_w = reference_unitary(circuit, want, memo=memo)
                if ok and _err(U, ref_w) > TOL:
                    f.add('set_param-then-get_unitary-ne-explicit',
                          f'after set_param({i}) get_unitary() differs from '
                          f'the reference at the updated vector by '
                          f'{_err(U, ref_w):.3g}')
                    break

    # ---------------------------------------------------------- freeze_param
    if do_freeze and P:
        for i in visit(P):
            c2 = fresh()
            ok, _ = _call(f, 'freeze_param', lambda: c2.freeze_param(i))
            if not ok:
                break
            want = flat[:i] + flat[i + 1:]
            ok, got = _call(f, 'params',
                            lambda: [float(x) for x in c2.params])
            if not ok:
                break
            if got != want or int(c2.num_params) != P - 1:
                f.add('freeze_param-params-not-old-minus-index',
                      f'freeze_param({i}) on {flat} gives {got} '
                      f'(num_params {c2.num_params})')
                break
            ok, U = _call(f, 'get_unitary',
                          lambda: np.asarray(c2.get_unitary()))
            if ok and _err(U, ref) > TOL:
                f.add('freeze_param-changes-unitary',
                      f'freeze_param({i}) changed get_unitary() by '
                      f'{_err(U, ref):.3g}')
                break
            r2 = reference_unitary(c2)
            if _err(r2, ref) > TOL:
                f.add('freeze_param-changes-ordered-product',
                      f'freeze_param({i}) changed the reference product by '
                      f'{_err(r2, ref):.3g}')
                break
            if P > 1:
                q = scrambled(want)
                full = q[:i] + [flat[i]] + q[i:]
                ok, U = _call(f, 'get_unitary(params)',
                              lambda: np.asarray(c2.get_unitary(q)))
                ref_f = reference_unitary(circuit, full, memo=memo)
                if ok and _err(U, ref_f) > TOL:
                    f.add('freeze_param-explicit-params-misaligned',
                          f'after freeze_param({i}), get_unitary(q) differs '
                          f'from the original circuit at q with entry {i} '
                          f'fixed by {_err(U, ref_f):.3g}')
                    break
            if grad_stored is not None:
                ok, g = _call(f, 'get_grad', lambda: np.asarray(c2.get_grad()))
                if ok:
                    wantg = np.delete(grad_stored, i, axis=0)
                    if P == 1:
                        if g.size:
                            f.add('freeze_param-grad-not-old-minus-row',
                                  'gradient non-empty after freezing the '
                                  'only parameter')
                            break
                    elif _err(g, wantg) > 1e-9:
                        f.add('freeze_param-grad-not-old-minus-row',
                              f'after freeze_param({i}) the gradient is not '
                              f'the old one without row {i}: '
                              f'{_err(g, wantg):.3g}')
                        break
    return f


def _cycles_of(circuit: Any, ops: Sequence[Any]) -> list[int]:
    """Cycle index of every operation of `ops` (iteration order), found by
    scanning the public grid; operations are matched by identity of
    (location, gate, params) in per-qudit order."""
    found: list[tuple[int, Any]] = []
    for c in range(circuit.num_cycles):
        seen: set[int] = set()
        for q in range(circuit.num_qudits):
            if q in seen or circuit.is_point_idle((c, q)):
                continue
            op = circuit[c, q]
            seen.update(op.location)
            found.append((c, op))
    out = []
    used = [False] * len(found)
    for op in ops:
        for n, (c, o) in enumerate(found):
            if not used[n] and o is op:
                used[n] = True
                out.append(c)
                break
        else:
            for n, (c, o) in enumerate(found):
                if not used[n] and o == op:
                    used[n] = True
                    out.append(c)
                    break
            else:
                out.append(-1)
    return out


# ------------------------------------------------------------------ regions
def grid_ops(circuit: Any) -> list[tuple[int, tuple[int, ...]]]:
    """[(cycle, location)] of every operation, read from the public grid."""
    out = []
    for c in range(circuit.num_cycles):
        seen: set[int] = set()
        for q in range(circuit.num_qudits):
            if q in seen or circuit.is_point_idle((c, q)):
                continue
            op = circuit[c, q]
            seen.update(op.location)
            out.append((c, tuple(int(x) for x in op.location)))
    return out


def all_regions(width: int, cycles: int) -> list[dict[int, tuple[int, int]]]:
    """Every non-empty map qudit -> inclusive cycle interval inside the grid."""
    ivs: list = [None] + [
        (a, b) for a in range(cycles) for b in range(a, cycles)
    ]
    out = []
    for choice in itertools.product(ivs, repeat=width):
        reg = {q: iv for q, iv in enumerate(choice) if iv is not None}
        if reg:
            out.append(reg)
    return out


def check_regions(circuit: Any, feature: str,
                  qudit_orders: bool = True) -> tuple[Findings, int]:
    """operations(qudits_or_region=..., exclude=..., reverse=...) for every
    qudit subset (every order) and every region of the grid."""
    f = Findings(feature)
    n = circuit.num_qudits
    gops = grid_ops(circuit)
    runs = 0
    queries: list[tuple[str, Any]] = []
    for k in range(1, n + 1):
        combos = itertools.permutations(range(n), k) if qudit_orders \
            else itertools.combinations(range(n), k)
        queries += [('qudits', list(c)) for c in combos]
    queries += [('region', r) for r in all_regions(n, circuit.num_cycles)]
    for kind, arg in queries:
        if kind == 'qudits':
            def inside(c: int, q: int) -> bool:
                return q in arg
        else:
            def inside(c: int, q: int) -> bool:
                return q in arg and arg[q][0] <= c <= arg[q][1]
        for exclude in (False, True):
            if exclude:
                want = sorted(
                    (c, loc) for c, loc in gops
                    if all(inside(c, q) for q in loc)
                )
            else:
                want = sorted(
                    (c, loc) for c, loc in gops
                    if any(inside(c, q) for q in loc)
                )
            for reverse in (False, True):
                runs += 1
                try:
                    got_l = [
                        (int(c), tuple(int(x) for x in op.location))
                        for c, op in circuit.operations_with_cycles(
                            qudits_or_region=arg, exclude=exclude,
                            reverse=reverse,
                        )
                    ]
                    got2 = [
                        tuple(int(x) for x in op.location)
                        for op in circuit.operations(
                            qudits_or_region=arg, exclude=exclude,
                            reverse=reverse,
                        )
                    ]
                except Exception as e:  # noqa
                    f.add(f'operations-{kind}-raised-{type(e).__name__}',
                          f'operations({kind}={arg}, exclude={exclude}, '
                          f'reverse={reverse}) raised {e!r}')
                    continue
                tag = f'{kind}-exclude{int(exclude)}-reverse{int(reverse)}'
                if sorted(got_l) != want:
                    missing = [x for x in want if x not in got_l]
                    extra = [x for x in got_l if x not in want]
                    dup = len(got_l) != len(set(got_l))
                    kindm = ('duplicates' if dup and not missing
                             and not [x for x in extra if x not in want]
                             else 'misses-operations' if missing and not extra
                             else 'extra-operations' if extra and not missing
                             else 'wrong-operations')
                    f.add(f'operations-{tag}-{kindm}',
                          f'operations_with_cycles({kind}={arg}, exclude='
                          f'{exclude}, reverse={reverse}) gave {got_l}, the '
                          f'grid says {want}')
                elif [loc for _, loc in got_l] != got2:
                    f.add(f'operations-{tag}-ne-operations_with_cycles',
                          f'operations() gave {got2}, operations_with_cycles '
                          f'{got_l}')
    return f, runs
