"""C08 helpers: tagged circuits from JSON specs, an independent flattening of
partitioned circuits, and the judge for one (circuit, partitioner, block
size) case.

Operation spec (JSON lists):
    ['g', q0, q1, ...]   tagged gate at that *ordered* location
                         (1 qudit: RX, 2: CRY, 3: Controlled(RY, 2 controls))
    ['b', q0, q1, ...]   barrier
    ['m', q0, ...]       measurement placeholder
    ['r', q]             reset
The i-th operation of a spec carries the parameter TAG0 + i * TAGSTEP, so
every gate is identifiable after any regrouping.
"""
from __future__ import annotations

import warnings
from typing import Any

import numpy as np

import vf.common  # noqa: F401
from bqskit.compiler.basepass import BasePass
from bqskit.ir.circuit import Circuit
from bqskit.ir.gates import BarrierPlaceholder
from bqskit.ir.gates import CircuitGate
from bqskit.ir.gates import ControlledGate
from bqskit.ir.gates import CRYGate
from bqskit.ir.gates import MeasurementPlaceholder
from bqskit.ir.gates import Reset
from bqskit.ir.gates import RXGate
from bqskit.ir.gates import RYGate

TAG0 = 0.37
TAGSTEP = 0.0625          # exactly representable: tags compare exactly

RETAG = 0.03125           # exactly representable shift of every tag

PSEUDO = (BarrierPlaceholder, MeasurementPlaceholder, Reset)

_G3 = None


def g3() -> Any:
    global _G3
    if _G3 is None:
        _G3 = ControlledGate(RYGate(), 2)
    return _G3


_G4 = None


def g4() -> Any:
    global _G4
    if _G4 is None:
        _G4 = ControlledGate(RYGate(), 3)
    return _G4


def tag(i: int) -> float:
    return TAG0 + i * TAGSTEP


def build(n: int, ops: list) -> Circuit:
    """Build the tagged circuit of a spec."""
    c = Circuit(n)
    for i, op in enumerate(ops):
        k, loc = op[0], [int(q) for q in op[1:]]
        if k == 'g':
            if len(loc) == 1:
                c.append_gate(RXGate(), loc, [tag(i)])
            elif len(loc) == 2:
                c.append_gate(CRYGate(), loc, [tag(i)])
            elif len(loc) == 3:
                c.append_gate(g3(), loc, [tag(i)])
            elif len(loc) == 4:
                c.append_gate(g4(), loc, [tag(i)])
            else:
                raise ValueError(op)
        elif k == 'b':
            c.append_gate(BarrierPlaceholder(len(loc)), loc)
        elif k == 'm':
            regs = [('c', n)]
            c.append_gate(
                MeasurementPlaceholder(regs, {q: ('c', q) for q in loc}), loc,
            )
        elif k == 'r':
            c.append_gate(Reset(), loc)
        else:
            raise ValueError(op)
    return c


def kind_of(gate: Any) -> str:
    if isinstance(gate, BarrierPlaceholder):
        return 'b'
    if isinstance(gate, MeasurementPlaceholder):
        return 'm'
    if isinstance(gate, Reset):
        return 'r'
    return 'g'


def entry(op: Any, loc: tuple, params: Any, depth: int) -> tuple:
    """(kind, gate name, global location, params, nesting depth)."""
    return (
        kind_of(op.gate), op.gate.name, tuple(int(q) for q in loc),
        tuple(float(p) for p in params), depth,
    )


def flatten(circuit: Circuit) -> list[tuple]:
    """Independent unfolding: walk the operations in program order and expand
    every CircuitGate recursively, taking the parameters that *execute* (the
    outer operation's) and mapping locations through the block location."""
    out: list[tuple] = []

    def walk(circ: Circuit, locmap: tuple, params: Any, depth: int) -> None:
        # `params`: None -> read each op's own params, otherwise the flat
        # parameter vector of the enclosing block (split in circuit order)
        off = 0
        for op in circ:
            np_ = op.num_params
            if params is None:
                p = list(op.params)
            else:
                p = list(params[off:off + np_])
            off += np_
            loc = tuple(locmap[q] for q in op.location)
            if isinstance(op.gate, CircuitGate):
                walk(op.gate._circuit, loc, p, depth + 1)
            else:
                out.append(entry(op, loc, p, depth))
        if params is not None and off != len(params):
            raise ValueError('block parameter count mismatch')

    walk(circuit, tuple(range(circuit.num_qudits)), None, 0)
    return out


def timelines(n: int, flat: list[tuple]) -> list[list[tuple]]:
    """Per-qudit sequences of (kind, name, location, params)."""
    tl: list[list[tuple]] = [[] for _ in range(n)]
    for e in flat:
        for q in e[2]:
            tl[q].append(e[:4])
    return tl


def top_level(circuit: Circuit) -> list[tuple]:
    """(is_block, width, max inner gate width, number of inner ops)."""
    res = []
    for op in circuit:
        if isinstance(op.gate, CircuitGate):
            inner = flatten(Circuit.from_operation(op))
            res.append((
                True, op.num_qudits,
                max((len(e[2]) for e in inner), default=0), len(inner),
            ))
        else:
            res.append((False, op.num_qudits, op.num_qudits, 1))
    return res


class Retag(BasePass):
    """Harness stage between two partitioners: give every parameter of the
    (already blocked) circuit a new value through `Circuit.set_params`, as
    instantiation does.  The block *operations* now carry the parameters;
    the circuits stored inside their CircuitGates keep the old ones."""

    async def run(self, circuit: Circuit, data: Any) -> None:
        circuit.set_params([float(p) + RETAG for p in circuit.params])


def retagged(flat: list) -> list:
    """The reference program after a Retag stage."""
    return [
        (e[0], e[1], e[2], tuple(p + RETAG for p in e[3]), e[4]) for e in flat
    ]


def make_pass(pname: str, bs: int) -> list:
    """The workflow for a partitioner name."""
    if pname == 'retag':
        return [Retag()]
    from bqskit.passes import ClusteringPartitioner
    from bqskit.passes import ExtendBlockSizePass
    from bqskit.passes import GreedyPartitioner
    from bqskit.passes import GroupSingleQuditGatePass
    from bqskit.passes import QuickPartitioner
    from bqskit.passes import ScanPartitioner
    from bqskit.passes.partitioning.gtqcp import GTQCPartitioner
    from bqskit.passes.partitioning.tdag import TDAGPartitioner
    with warnings.catch_warnings():
        warnings.simplefilter('ignore')
        if pname == 'quick':
            return [QuickPartitioner(bs)]
        if pname == 'scan':
            return [ScanPartitioner(bs)]
        if pname == 'greedy':
            return [GreedyPartitioner(bs)]
        if pname == 'cluster':
            return [ClusteringPartitioner(bs, 3)]
        if pname == 'gtqcp':
            return [GTQCPartitioner(bs)]
        if pname == 'tdag':
            return [TDAGPartitioner(bs)]
        if pname == 'single':
            return [GroupSingleQuditGatePass()]
        if pname == 'extend':
            return [ExtendBlockSizePass(bs)]
        if pname == 'quick+extend':
            # blocks of fewer than bs qudits are widened to bs
            return [QuickPartitioner(bs), ExtendBlockSizePass(bs)]
        if pname == 'single+extend':
            return [GroupSingleQuditGatePass(), ExtendBlockSizePass(bs)]
        if '>' in pname:          # already-blocked input: a > b
            a, b = pname.split('>')
            return make_pass(a, bs) + make_pass(b, bs)
    raise ValueError(pname)


PARTITIONERS = [
    'quick', 'scan', 'greedy', 'cluster', 'gtqcp', 'tdag', 'single',
    'quick+extend',
]


def describe(ops: list) -> str:
    return ' '.join(o[0] + ''.join(str(q) for q in o[1:]) for o in ops)


def unitary_of(n: int, flat: list[tuple]) -> np.ndarray | None:
    """numpy reference unitary of a flattened gate list (None if it contains
    a measurement or reset)."""
    dim = 2 ** n
    u = np.eye(dim, dtype=complex)
    for kind, name, loc, params in (e[:4] for e in flat):
        if kind == 'b':
            continue
        if kind != 'g':
            return None
        t = params[0]
        c, s = np.cos(t / 2), np.sin(t / 2)
        if len(loc) == 1:
            g = np.array([[c, -1j * s], [-1j * s, c]])
        else:
            ry = np.array([[c, -s], [s, c]])
            g = np.eye(2 ** len(loc), dtype=complex)
            g[-2:, -2:] = ry
        # embed g on loc (big-endian: qudit 0 is the most significant)
        t_ = u.reshape([2] * n + [dim])
        g_ = g.reshape([2] * (2 * len(loc)))
        k = len(loc)
        t_ = np.tensordot(g_, t_, axes=(list(range(k, 2 * k)), list(loc)))
        t_ = np.moveaxis(t_, list(range(k)), list(loc))
        u = t_.reshape(dim, dim)
    return u
