"""./check <ID> [--tier quick|thorough] [--replay FILE]"""
from __future__ import annotations

import argparse
import importlib
import json
import os
import sys
import traceback

from vf.common import Ctx
from vf.common import HarnessError

LEVELS = {
    'C01': 'exploration', 'C02': 'exploration', 'C03': 'exploration',
    'C04': 'model_checking', 'C05': 'model_checking', 'C06': 'exploration',
    'C07': 'model_checking', 'C08': 'exploration', 'C09': 'exploration',
    'C10': 'exploration', 'C11': 'exploration', 'C12': 'model_checking',
    'C13': 'model_checking', 'C14': 'fault_enumeration',
    'C15': 'model_checking', 'C16': 'exploration',
    'C17': 'translation_validation', 'C18': 'exploration',
    'C19': 'exploration', 'C20': 'exploration',
}


def main() -> int:
    ap = argparse.ArgumentParser()
    ap.add_argument('pid')
    ap.add_argument('--tier', default=os.environ.get('VERIF_TIER', 'quick'),
                    choices=['quick', 'thorough'])
    ap.add_argument('--replay', default=None)
    ap.add_argument('--seed', type=int,
                    default=int(os.environ.get('VERIF_SEED', '0') or 0))
    args = ap.parse_args()
    pid = args.pid.upper()
    if pid not in LEVELS:
        print(f'unknown property {pid}', file=sys.stderr)
        return 2
    try:
        mod = importlib.import_module(f'vf.checks.{pid.lower()}')
    except ModuleNotFoundError as e:
        print(f'no check module for {pid}: {e}', file=sys.stderr)
        return 2
    from vf.common import quiet_unraisable
    quiet_unraisable()
    ctx = Ctx(pid, args.tier, args.seed, getattr(mod, 'LEVEL', LEVELS[pid]))
    try:
        if args.replay:
            body = json.loads(open(args.replay).read())
            ok = mod.replay(ctx, body['replay'])
            print('REPLAY', 'property holds on this case' if ok
                  else 'violation reproduced')
            return 0 if ok else 1
        mod.run(ctx)
        return ctx.finish()
    except HarnessError as e:
        print(f'HARNESS ERROR in {pid}: {e}', file=sys.stderr)
        return 2
    except Exception:
        traceback.print_exc()
        print(f'HARNESS ERROR in {pid}', file=sys.stderr)
        return 2


if __name__ == '__main__':
    rc = main()
    # Skip interpreter teardown: executions that were aborted mid-flight leave
    # suspended coroutines and parked threads behind whose finalisers only
    # produce "Exception ignored in ..." noise while builtins are torn down.
    from vf.common import close_pools
    close_pools()
    sys.stdout.flush()
    sys.stderr.flush()
    os._exit(rc)
