"""C10 helpers: JSON circuit specs, an independent simulator, unitary catalogue.

Nothing here decides anything; see vf/c10_catalogue.py (the table) and
vf/checks/c10.py (the explorer / judge).
"""
from __future__ import annotations

import math
from typing import Any

import numpy as np

import vf.common  # noqa: F401  (repo selection)
from bqskit.ir.circuit import Circuit
from bqskit.ir import gates as G
from bqskit.ir.gates import CircuitGate

PI = math.pi

# Spacer: appended while building, popped afterwards, so that the circuit
# is *not* in compressed form (CompressPass domain).
SPACER = 'SPACER'


def generic(seed: int, k: int) -> float:
    """The k-th 'generic' angle for this seed: in (0.37, 2.67), never a
    multiple of pi/4 to 1e-3, rounded so that it survives JSON."""
    x = 0.37 + ((seed * 0.6180339887 + k * 0.7548776662 + 0.1234) % 1.0) * 2.3
    for m in range(0, 8):
        if abs(x - m * PI / 4) < 2e-3:
            x += 0.0111
    return round(x, 6)


def grid(seed: int, k: int = 0) -> list[float]:
    return [0.0, PI / 2, PI, generic(seed, k)]


# ------------------------------------------------------------------ gates
def gate(name: str) -> Any:
    g = _GATES.get(name)
    if g is None:
        raise KeyError(f'unknown gate name {name}')
    return g


_GATES: dict[str, Any] = {
    'CNOT': G.CNOTGate(), 'CZ': G.CZGate(), 'CH': G.CHGate(),
    'CY': G.CYGate(), 'SWAP': G.SwapGate(), 'ISWAP': G.ISwapGate(),
    'SQRTCNOT': G.SqrtCNOTGate(), 'H': G.HGate(), 'X': G.XGate(),
    'Y': G.YGate(), 'Z': G.ZGate(), 'T': G.TGate(), 'TDG': G.TdgGate(),
    'S': G.SGate(), 'SDG': G.SdgGate(), 'SX': G.SqrtXGate(),
    'RX': G.RXGate(), 'RY': G.RYGate(), 'RZ': G.RZGate(),
    'U1': G.U1Gate(), 'U2': G.U2Gate(), 'U3': G.U3Gate(),
    'U8': G.U8Gate(), 'VU1': G.VariableUnitaryGate(1),
    'VU1_3': G.VariableUnitaryGate(1, [3]),
    'VU2': G.VariableUnitaryGate(2),
    'CSUM3': G.CSUMGate(3), 'X3': G.ShiftGate(3), 'H3': G.HGate(3),
    'Z3': G.ClockGate(3),
    'CCX': G.CCXGate(), 'RZZ': G.RZZGate(), 'CRZ': G.CRZGate(),
    'CP': G.CPGate(), 'PAULI2': G.PauliGate(2), 'B': G.BGate(),
    'ID1': G.IdentityGate(1),
    SPACER: G.SqrtTGate(),
}
for _n in (2, 3, 4):
    for _t in range(_n):
        _GATES[f'MPRZ{_n}_{_t}'] = G.MPRZGate(_n, _t)
        _GATES[f'MPRY{_n}_{_t}'] = G.MPRYGate(_n, _t)


def gate_name(g: Any) -> str:
    for k, v in _GATES.items():
        if v == g and k != SPACER:
            return k
    return str(g)


# --------------------------------------------------------------- unitaries
def _kron(*ms: np.ndarray) -> np.ndarray:
    r = np.eye(1, dtype=complex)
    for m in ms:
        r = np.kron(r, m)
    return r


_X = np.array([[0, 1], [1, 0]], dtype=complex)
_Z = np.diag([1, -1]).astype(complex)
_H = np.array([[1, 1], [1, -1]], dtype=complex) / math.sqrt(2)
_I = np.eye(2, dtype=complex)


def haar(dim: int, rs: int) -> np.ndarray:
    """A generic unitary: QR of a seeded Ginibre matrix (numpy only)."""
    r = np.random.RandomState(rs)
    a = r.standard_normal((dim, dim)) + 1j * r.standard_normal((dim, dim))
    q, t = np.linalg.qr(a)
    d = np.diag(t)
    return q * (d / np.abs(d))


def perm_matrix(n: int, perm: list[int]) -> np.ndarray:
    """Qubit relabelling |b_0..b_{n-1}> -> |b_perm[0] .. b_perm[n-1]>."""
    dim = 2 ** n
    m = np.zeros((dim, dim), dtype=complex)
    for i in range(dim):
        bits = [(i >> (n - 1 - k)) & 1 for k in range(n)]
        nb = [bits[perm[k]] for k in range(n)]
        j = 0
        for b in nb:
            j = (j << 1) | b
        m[j, i] = 1
    return m


def unitary(us: list) -> np.ndarray:
    """uspec -> matrix.  uspec = [kind, n, *extra]  (qubits only, except
    'haar' whose second field is the dimension)."""
    kind, n = us[0], us[1]
    if kind == 'haar':
        return haar(n, us[2])
    dim = 2 ** n
    if kind == 'id':
        return np.eye(dim, dtype=complex)
    if kind == 'x_on':      # X on qubit us[2]
        return _kron(*[_X if q == us[2] else _I for q in range(n)])
    if kind == 'h_all':
        return _kron(*[_H] * n)
    if kind == 'qft':
        w = np.exp(2j * PI / dim)
        return np.array(
            [[w ** (i * j) for j in range(dim)] for i in range(dim)],
        ) / math.sqrt(dim)
    if kind == 'mcx':       # all-but-last control, last target
        m = np.eye(dim, dtype=complex)
        m[[dim - 2, dim - 1]] = m[[dim - 1, dim - 2]]
        return m
    if kind == 'mcz':
        m = np.eye(dim, dtype=complex)
        m[dim - 1, dim - 1] = -1
        return m
    if kind == 'cx_on':     # CNOT control us[2] target us[3]
        m = np.zeros((dim, dim), dtype=complex)
        c, t = us[2], us[3]
        for i in range(dim):
            j = i ^ (1 << (n - 1 - t)) if (i >> (n - 1 - c)) & 1 else i
            m[j, i] = 1
        return m
    if kind == 'perm':      # qubit permutation us[2]
        return perm_matrix(n, us[2])
    if kind == 'cyc':       # cyclic shift of basis states
        return np.roll(np.eye(dim, dtype=complex), 1, axis=0)
    if kind == 'diag':      # generic diagonal, phases from rs
        r = np.random.RandomState(us[2])
        return np.diag(np.exp(1j * r.uniform(-PI, PI, dim)))
    if kind == 'diag_pm':   # +-1 diagonal (degenerate spectrum)
        r = np.random.RandomState(us[2])
        return np.diag(r.choice([1.0, -1.0], dim)).astype(complex)
    if kind == 'diag_lin':  # exp(i a k)
        return np.diag(np.exp(1j * us[2] * np.arange(dim)))
    if kind == 'real':      # real orthogonal
        r = np.random.RandomState(us[2])
        q, t = np.linalg.qr(r.standard_normal((dim, dim)))
        return (q * np.sign(np.diag(t))).astype(complex)
    if kind == 'ctrl':      # block diag(I, haar)
        m = np.eye(dim, dtype=complex)
        m[dim // 2:, dim // 2:] = haar(dim // 2, us[2])
        return m
    if kind == 'local':     # tensor product of 1-qubit haars
        return _kron(*[haar(2, us[2] + 17 * q) for q in range(n)])
    if kind == 'phase_id':  # global phase times identity
        return np.exp(1j * us[2]) * np.eye(dim, dtype=complex)
    raise KeyError(f'unknown unitary kind {kind}')


def unitary_catalogue(n: int, seed: int, size: str) -> list[list]:
    """The structured unitary catalogue on n qubits, simplest first."""
    cat: list[list] = [['id', n]]
    cat += [['x_on', n, q] for q in ([0, n - 1] if n > 1 else [0])]
    cat += [['h_all', n], ['mcz', n], ['diag_lin', n, generic(seed, 3)]]
    if n >= 2:
        cat += [['mcx', n], ['cx_on', n, 0, 1], ['cx_on', n, n - 1, 0]]
        cat += [['perm', n, list(range(1, n)) + [0]]]
    cat += [['qft', n], ['haar', 2 ** n, 1000 + seed]]
    if size != 'small':
        cat += [
            ['cyc', n], ['diag', n, 2000 + seed], ['diag_pm', n, 5],
            ['real', n, 3000 + seed], ['ctrl', n, 4000 + seed],
            ['local', n, 5000 + seed], ['phase_id', n, generic(seed, 4)],
            ['haar', 2 ** n, 1001 + seed],
        ]
        if n >= 3:
            cat += [['cx_on', n, 1, 2], ['perm', n, [1, 0] + list(range(2, n))],
                    ['x_on', n, 1]]
    return cat


# ------------------------------------------------------------ circuit specs
def build_circuit(spec: dict) -> Circuit:
    """spec = {'radixes': [...], 'ops': [op, ...]}

    op = [gate_name, location, params]
       | ['@block', location, [ops on local indices]]
       | ['@vu', location, uspec]   VariableUnitaryGate holding that matrix
       | ['@cu', location, uspec]   ConstantUnitaryGate
    """
    radixes = list(spec['radixes'])
    c = Circuit(len(radixes), radixes)
    spacer = False
    for op in spec['ops']:
        name, loc = op[0], list(op[1])
        if name == '@block':
            sub = build_circuit({
                'radixes': [radixes[q] for q in loc], 'ops': op[2],
            })
            c.append_gate(CircuitGate(sub), loc, sub.params)
        elif name == '@vu':
            u = unitary(op[2])
            g = G.VariableUnitaryGate(len(loc), [radixes[q] for q in loc])
            c.append_gate(
                g, loc, list(np.real(u).flatten()) + list(np.imag(u).flatten()),
            )
        elif name == '@cu':
            u = unitary(op[2])
            g = G.ConstantUnitaryGate(u, [radixes[q] for q in loc])
            c.append_gate(g, loc)
        else:
            if name == SPACER:
                spacer = True
            c.append_gate(gate(name), loc, list(op[2]) if len(op) > 2 else [])
    while spacer and gate(SPACER) in c.gate_set:
        c.pop(c.point(gate(SPACER)))
    if spec.get('retag'):
        # re-parameterise through the flat vector, as instantiation does:
        # block *operations* now carry other values than the circuits stored
        # inside their CircuitGates
        c.set_params([float(x) + 0.37 for x in c.params])
    return c


def ops_of(c: Circuit) -> list:
    """Program order read from the grid through the public read API."""
    out = []
    n = c.num_qudits
    for cyc in range(c.num_cycles):
        for q in range(n):
            if c.is_point_idle((cyc, q)):
                continue
            op = c[cyc, q]
            if op.location[0] == q:
                out.append(op)
    return out


def describe(c: Circuit) -> list:
    """A JSON-able, order-preserving description (for evidence / messages)."""
    return [
        [gate_name(op.gate), list(op.location),
         [round(float(p), 6) for p in op.params][:6]]
        for op in ops_of(c)
    ]


def sim(c: Circuit) -> np.ndarray:
    """Independent simulator: tensor contraction of the gate matrices in grid
    order (numpy only; does not use Circuit.get_unitary / UnitaryBuilder)."""
    radixes = list(c.radixes)
    n = len(radixes)
    dim = int(np.prod(radixes)) if n else 1
    t = np.eye(dim, dtype=complex).reshape(radixes + radixes)
    for op in ops_of(c):
        if isinstance(op.gate, CircuitGate):
            sub = op.gate._circuit.copy()
            sub.set_params(op.params)
            m = sim(sub)
        else:
            m = np.asarray(op.get_unitary().numpy, dtype=complex)
        loc = list(op.location)
        k = len(loc)
        rl = [radixes[q] for q in loc]
        mt = m.reshape(rl + rl)
        # contract gate input axes (k..2k-1) with the row axes `loc` of t
        t = np.tensordot(mt, t, axes=(list(range(k, 2 * k)), loc))
        # result axes: gate outputs (k) then the remaining axes of t in order
        t = np.moveaxis(t, list(range(k)), loc)
    return t.reshape(dim, dim)


def hs_cost(u: np.ndarray, v: np.ndarray) -> float:
    return float(1.0 - abs(np.trace(u.conj().T @ v)) / u.shape[0])


def entry_dev(u: np.ndarray, v: np.ndarray) -> float:
    """max |u - e^{i phi} v| with the phase that maximises the overlap."""
    tr = np.trace(v.conj().T @ u)
    ph = tr / abs(tr) if abs(tr) > 1e-12 else 1.0
    return float(np.max(np.abs(u - ph * v)))
