"""Oracles over observation records of E1 executions (one per property)."""
from __future__ import annotations

import collections
import re
from typing import Any

from vf import trees
from vf.explore import register_judge

_FRAME = re.compile(r'File "([^"]+)", line \d+, in (\w+)')
_EXC = re.compile(r'^(\w+(?:\.\w+)*(?:Error|Exception|Interrupt|Exit))\b',
                  re.M)


def tb_signature(text: str) -> str:
    """Causal signature of a traceback: innermost bqskit frame + exception."""
    frames = _FRAME.findall(text or '')
    where = '?'
    for f, fn in reversed(frames):
        if '/bqskit/' in f:
            where = f.rsplit('/', 1)[-1].replace('.py', '') + '.' + fn
            break
    excs = _EXC.findall(text or '')
    exc = excs[-1] if excs else '?'
    return f'{exc}@{where}'


def script_expectations(script: list) -> list:
    return [op for op in script if op[0] != 'continue_after_exc']


def _has(tree: Any, kinds: tuple) -> bool:
    if isinstance(tree, list):
        if tree and isinstance(tree[0], str) and tree[0] in kinds:
            return True
        return any(_has(x, kinds) for x in tree)
    return False


def run_counts(rec: dict) -> collections.Counter:
    return collections.Counter(
        str(x[1]) for x in rec['log'] if x[0] == 'run'
    )


def check_batches(rec: dict, v: list) -> None:
    for x in rec['log']:
        if x[0] == 'dup':
            v.append(('next-duplicate-result',
                      f'next() delivered slot {x[1]} twice'))
        if x[0] == 'batches':
            flat = [i for b in x[2] for i in b]
            if len(flat) != len(set(flat)):
                v.append(('next-duplicate-result',
                          f'next() batches overlap: {x[2]}'))
            if any(len(b) == 0 for b in x[2]):
                v.append(('next-empty-batch',
                          f'next() woke with an empty batch: {x[2]}'))


AWAIT_CANCELLED = 'Cannot await on a canceled task'


def awaits_cancelled(tree: Any) -> bool:
    if isinstance(tree, list):
        if len(tree) == 3 and tree[0] == 'cancel' and tree[2] is True:
            return True
        return any(awaits_cancelled(x) for x in tree)
    return False


def common_failures(spec: dict, rec: dict, v: list,
                    expected_tags: set) -> None:
    """Errors nobody raised: thread deaths, ERROR messages."""
    if any(awaits_cancelled(op) for sc in spec['clients'] for op in sc):
        expected_tags = set(expected_tags) | {AWAIT_CANCELLED}
    for name, tb in rec['thread_errors']:
        kind = name.split('.')[-1]
        v.append((f'thread-died:{kind}:{tb_signature(tb)}',
                  f'thread {name} died: {tb[-600:]}'))
    for lab, text in rec['errors_sent']:
        if any(f'boom-{t}' in text or t == AWAIT_CANCELLED and t in text
               for t in expected_tags):
            continue
        v.append((f'unraised-error:{tb_signature(text)}',
                  f'ERROR message on {lab} that no task body raised: '
                  f'{text[-700:]}'))


def blocked_clients(rec: dict) -> list:
    return [
        (n, kl) for n, kl in rec['alive'].items()
        if n.startswith('cli') and n.endswith('.main')
    ]


# ------------------------------------------------------------------- C07
def judge_c07(spec: dict, rec: dict, fault: Any) -> list:
    v: list = []
    common_failures(spec, rec, v, set())
    must: list = []
    for i, script in enumerate(spec['clients']):
        c = f'cli{i}'
        o = rec['clients'].get(c, {})
        evs = o.get('events', [])
        ops = script_expectations(script)
        for op, ev in zip(ops, evs):
            if op[0] == 'compile':
                must += trees.must_run(op[1], c)
                if ev[2] == 'exc':
                    v.append((
                        f'client-got-error:{tb_signature(ev[4])}',
                        f'{c} compile raised {ev[3]}: {ev[4][-600:]}',
                    ))
                elif ev[3] != trees.expected(op[1]):
                    v.append((
                        'wrong-value',
                        f'{c} got {ev[3]!r}, expected '
                        f'{trees.expected(op[1])!r}',
                    ))
            elif ev[2] == 'exc' and op[0] != 'close':
                v.append((f'client-got-error:{op[0]}:{tb_signature(ev[4])}',
                          f'{c} {op[0]} raised {ev[3]}: {ev[4][-400:]}'))
        if len(evs) < len(ops) and not any(e[2] == 'exc' for e in evs):
            where = rec['alive'].get(c + '.main')
            v.append((
                'client-hang',
                f'{c} never finished op {ops[len(evs)][0]} '
                f'(blocked in {where}); alive threads: {rec["alive"]}',
            ))
    if not any(s.startswith(('client-hang', 'client-got-error',
                             'thread-died', 'unraised'))
               for s, _ in v):
        cnt = run_counts(rec)
        for tag in must:
            n = cnt.get(str(tag), 0)
            if n != 1:
                v.append((
                    'body-ran-%s' % ('twice' if n > 1 else 'never'),
                    f'task body {tag} ran {n} times; log={rec["log"]}',
                ))
    check_batches(rec, v)
    for m in rec['monitor']:
        if m[0] == 'task-delivered-twice':
            v.append(m)
    if rec['cap']:
        pass   # counted as a cap by the driver
    return v


register_judge('c07', judge_c07)


# ----------------------------------------------------------- shared helpers
def idle_leftovers(rec: dict) -> list:
    """(node, table, entries) still held when the system is quiescent."""
    out = []
    for p, t in sorted(rec.get('workers', {}).items()):
        if t['tasks']:
            out.append((p, 'tasks', t['tasks']))
        if t['delayed']:
            out.append((p, 'delayed', t['delayed']))
        if t['mailboxes']:
            out.append((p, 'mailboxes', sorted(t['mailboxes'])))
        if t['ready']:
            out.append((p, 'ready', t['ready']))
    return out


def system_idle(rec: dict) -> bool:
    """Quiescent with every surviving thread parked in its main wait."""
    if not rec['quiescent'] or rec['cap']:
        return False
    for n, (kind, lab) in rec['alive'].items():
        if n.startswith('cli'):
            return False
        if kind not in ('select', 'qget', 'recv', 'accept'):
            return False
    return True


def client_ops(spec: dict, rec: dict) -> list:
    """[(client, op, event-or-None)]"""
    out = []
    for i, script in enumerate(spec['clients']):
        c = f'cli{i}'
        evs = rec['clients'].get(c, {}).get('events', [])
        ops = script_expectations(script)
        for j, op in enumerate(ops):
            out.append((c, op, evs[j] if j < len(evs) else None))
    return out


def hang_check(spec: dict, rec: dict, v: list) -> None:
    for i, script in enumerate(spec['clients']):
        c = f'cli{i}'
        o = rec['clients'].get(c, {})
        evs = o.get('events', [])
        ops = script_expectations(script)
        if c + '.main' in rec['alive']:
            where = rec['alive'][c + '.main']
            nxt = ops[len(evs)][0] if len(evs) < len(ops) else '?'
            v.append((f'client-hang:{nxt}',
                      f'{c} is blocked forever in {nxt} at {where}; '
                      f'alive threads: {rec["alive"]}'))


# ------------------------------------------------------------------- C12
def judge_c12(spec: dict, rec: dict, fault: Any) -> list:
    v: list = []
    common_failures(spec, rec, v, set())
    hang_check(spec, rec, v)
    cancelled_roots = spec.get('cancelled_slots', {})
    for c, op, ev in client_ops(spec, rec):
        if ev is None:
            continue
        if op[0] == 'compile' and awaits_cancelled(op[1]):
            # "awaiting it fails": the failure surfaces as the error of the
            # compilation (the worker loop raises, not the coroutine)
            if ev[2] == 'ok':
                v.append(('await-of-cancelled-future-did-not-fail',
                          f'{c} got {ev[3]!r} from a tree that awaits a '
                          'cancelled future'))
            elif AWAIT_CANCELLED not in ev[4]:
                v.append((f'client-got-error:{op[0]}:{tb_signature(ev[4])}',
                          f'{c} {op[0]} raised {ev[3]}: {ev[4][-500:]}'))
            continue
        if ev[2] == 'exc' and op[0] != 'close':
            if op[0] == 'result' and [c, op[1]] in spec.get(
                    'result_may_fail', []):
                continue
            v.append((f'client-got-error:{op[0]}:{tb_signature(ev[4])}',
                      f'{c} {op[0]} raised {ev[3]}: {ev[4][-500:]}'))
            continue
        if op[0] == 'compile':
            exp = trees.expected(op[1])
            if ev[3] != exp:
                sig = 'wrong-value'
                if isinstance(ev[3], list) and ev[3][:2] == ['c', 'value']:
                    sig = 'cancelled-future-delivered-value'
                v.append((sig, f'{c} got {ev[3]!r}, expected {exp!r}'))
        if op[0] == 'result':
            slot = op[1]
            tree = next(o[2] for o in spec['clients'][int(c[3:])]
                        if o[0] == 'submit' and o[1] == slot)
            if [c, slot] in spec.get('cancelled', []):
                v.append(('cancelled-task-delivered-result',
                          f'{c} received a result for cancelled task '
                          f'{slot}: {ev[3]!r}'))
            elif ev[3] != trees.expected(tree):
                v.append(('wrong-value',
                          f'{c} result({slot}) = {ev[3]!r}, expected '
                          f'{trees.expected(tree)!r}'))
    for x in rec['log']:
        if x[0] == 'cancelled-value':
            v.append(('cancelled-future-delivered-value',
                      f'awaiting cancelled future at {x[1]} returned {x[2]!r}'))
    # (iii) no descendant body starts on a worker after it handled the cancel
    if not spec.get('line'):
        handled: dict = collections.defaultdict(set)
        for x in rec['log']:
            if x[0] == 'cancel-handled':
                handled[x[2]].add(tuple(x[1]))
            elif x[0] == 'run' and len(x) > 3 and x[3] is not None:
                addr, crumbs = x[3]
                anc = set(crumbs) | {addr}
                hit = anc & handled.get(x[2], set())
                if hit:
                    v.append((
                        'descendant-started-after-cancel',
                        f'body {x[1]} (task {addr}) started on worker '
                        f'{x[2]} after that worker had handled CANCEL of '
                        f'its ancestor {sorted(hit)}',
                    ))
    # (v) work that was not cancelled ran exactly once
    if not any(s.startswith(('client-hang', 'client-got-error',
                             'thread-died', 'unraised')) for s, _ in v):
        cnt = run_counts(rec)
        for c, op, ev in client_ops(spec, rec):
            tree = None
            if op[0] == 'compile' and ev is not None:
                tree = op[1]
            if op[0] == 'result' and ev is not None and ev[2] == 'ok':
                tree = next(o[2] for o in spec['clients'][int(c[3:])]
                            if o[0] == 'submit' and o[1] == op[1])
            if tree is None:
                continue
            for tag in trees.must_run(tree, c if op[0] == 'compile' else c + ':' + op[1]):
                n = cnt.get(str(tag), 0)
                if n != 1:
                    v.append((
                        'body-ran-%s' % ('twice' if n > 1 else 'never'),
                        f'non-cancelled body {tag} ran {n} times',
                    ))
        for tag, n in cnt.items():
            if n > 1:
                v.append(('body-ran-twice', f'body {tag} ran {n} times'))
    check_batches(rec, v)
    # (iv) nothing left anywhere once the system is idle
    if system_idle(rec) and not any(
            s.startswith(('client-hang', 'thread-died')) for s, _ in v):
        cancelled_addrs = {tuple(x[1]) for x in rec['log']
                           if x[0] == 'cancel-handled'}
        for p, table, entries in idle_leftovers(rec):
            t = rec['workers'][p]
            kind = 'other'
            if table == 'tasks':
                for a in entries:
                    crumbs = set(map(tuple, t['task_names'][a][1])) | {a}
                    if crumbs & cancelled_addrs:
                        kind = 'descendant-of-cancelled'
            elif table == 'delayed':
                for a, cr in zip(t['delayed'], t['delayed_crumbs']):
                    if (set(map(tuple, cr)) | {a}) & cancelled_addrs:
                        kind = 'descendant-of-cancelled'
            v.append((
                f'idle-worker-holds-{table}:{kind}',
                f'worker {p} still holds {table} {entries} when the system '
                f'is idle (cancelled addresses: {sorted(cancelled_addrs)})',
            ))
        for n, t in rec.get('nodes', {}).items():
            if 'mailboxes' in t and t['mailboxes'] and not spec.get(
                    'unfetched'):
                v.append((f'idle-server-holds-mailboxes',
                          f'{n} still holds mailboxes {t["mailboxes"]}'))
            if 'clients' in t and spec.get('all_disconnect'):
                if t['n_clients'] or t['tasks'] or t['mailbox_to_task']:
                    v.append((
                        'idle-server-holds-client-state',
                        f'{n} after every client disconnected: '
                        f'clients={t["n_clients"]} tasks={t["tasks"]} '
                        f'mailbox_to_task={t["mailbox_to_task"]}'))
    return v


register_judge('c12', judge_c12)


# ------------------------------------------------------------------- C13b
def judge_c13(spec: dict, rec: dict, fault: Any) -> list:
    v: list = []
    tags: set = set()
    for script in spec['clients']:
        for op in script:
            if op[0] in ('compile', 'submit'):
                tags |= set(trees.all_raise_tags(op[-1]))
    common_failures(spec, rec, v, tags)
    hang_check(spec, rec, v)
    for c, op, ev in client_ops(spec, rec):
        if ev is None:
            continue
        tree = None
        if op[0] == 'compile':
            tree = op[1]
        elif op[0] == 'result':
            tree = next(o[2] for o in spec['clients'][int(c[3:])]
                        if o[0] == 'submit' and o[1] == op[1])
        if tree is None:
            if ev[2] == 'exc' and op[0] not in ('close',):
                v.append((f'client-got-error:{op[0]}:{tb_signature(ev[4])}',
                          f'{c} {op[0]} raised {ev[3]}: {ev[4][-400:]}'))
            continue
        rt = trees.all_raise_tags(tree)
        if rt:
            if ev[2] == 'ok':
                v.append(('raising-tree-returned-value',
                          f'{c} got value {ev[3]!r} from a tree whose body '
                          f'{rt} raises'))
            elif not any(f'boom-{t}' in ev[4] for t in rt):
                v.append((
                    f'error-lost-original-message:{tb_signature(ev[4])}',
                    f'{c} got {ev[3]}: {ev[4][-500:]} -- none of boom-{rt}',
                ))
        else:
            if ev[2] == 'exc':
                v.append((
                    f'error-reached-wrong-client:{tb_signature(ev[4])}',
                    f'{c} (whose tree raises nothing) got {ev[3]}: '
                    f'{ev[4][-500:]}'))
            elif ev[3] != trees.expected(tree):
                v.append(('wrong-value', f'{c} got {ev[3]!r}'))
    return v


register_judge('c13', judge_c13)


# ------------------------------------------------------------------- C14
def judge_c14(spec: dict, rec: dict, fault: Any) -> list:
    v: list = []
    if fault is not None and not rec['fault_fired']:
        return v
    victim = fault[1] if fault else None
    # A thread of a surviving node dying of an unhandled exception is not in
    # itself something the property forbids; only its consequences are
    # (a client left waiting, a survivor that keeps running).  The tracebacks
    # are attached to those verdicts as the cause.
    died = '; '.join(f'{n} died of {tb_signature(tb)}'
                     for n, tb in rec['thread_errors'])
    hang_check(spec, rec, v)
    for c, op, ev in client_ops(spec, rec):
        if ev is None or ev[2] != 'ok':
            continue
        tree = None
        if op[0] == 'compile':
            tree = op[1]
        elif op[0] == 'result':
            tree = next(o[2] for o in spec['clients'][int(c[3:])]
                        if o[0] == 'submit' and o[1] == op[1])
        if tree is not None and ev[3] != trees.expected(tree):
            v.append(('incomplete-result-returned',
                      f'{c} {op[0]} returned {ev[3]!r} after the crash of '
                      f'{victim}; complete output is '
                      f'{trees.expected(tree)!r}'))
    # the rest of the runtime shuts down rather than limping on
    if fault is not None and rec['quiescent'] and not rec['cap']:
        for n, (kind, lab) in sorted(rec['alive'].items()):
            if n.startswith('cli'):
                continue
            proc = n.split('.')[0]
            v.append((
                f'survivor-still-running:{_role(proc)}:{n.split(".")[-1]}'
                f':{kind}',
                f'after the crash of {victim}, thread {n} of a surviving '
                f'node is still alive, blocked in {kind} {lab}; alive: '
                f'{rec["alive"]}'))
            break
    if rec['cap']:
        v.append(('no-quiescence-after-crash',
                  f'the system was still running after {rec["steps"]} steps'))
    if died:
        cause = tb_signature(rec['thread_errors'][0][1])
        v = [(s + ':after:' + cause, w + ' [' + died + ']') for s, w in v]
    return v


def _role(proc: str) -> str:
    return {'s': 'server', 'm': 'manager', 'w': 'worker',
            'c': 'client'}.get(proc[0], proc)


register_judge('c14', judge_c14)


# ------------------------------------------------------------------- C15
def c15_monitor(world: Any, rec: dict) -> None:
    """Evaluated after every scheduler step: counters stay in bounds."""
    for n, s in world.nodes.items():
        if not world.S.proc_alive(n):
            continue
        tw = getattr(s, 'total_workers', None)
        if tw is None:
            continue
        ni = getattr(s, 'num_idle_workers', 0)
        if not (0 <= ni <= tw):
            rec['monitor'].append((
                'node-idle-count-out-of-bounds',
                f'{n}.num_idle_workers={ni} not in [0,{tw}]'))
        for e in s.employees:
            if e.num_tasks < 0:
                rec['monitor'].append((
                    'employee-num-tasks-negative',
                    f'{n}: employee {e.id} num_tasks={e.num_tasks}'))
            if not (0 <= e.num_idle_workers <= e.total_workers):
                rec['monitor'].append((
                    'employee-idle-count-out-of-bounds',
                    f'{n}: employee {e.id} num_idle_workers='
                    f'{e.num_idle_workers} not in [0,{e.total_workers}]'))


def judge_c15(spec: dict, rec: dict, fault: Any) -> list:
    v: list = []
    seen = set()
    for m in rec['monitor']:
        if m[0] not in seen:
            seen.add(m[0])
            v.append(m)
    for name, tb in rec['thread_errors']:
        if 'assert 0 <= self.num_idle_workers' in tb \
                or 'Read receipt not found' in tb:
            v.append((f'scheduler-assertion:{tb_signature(tb)}',
                      f'{name}: {tb[-500:]}'))
    for lab, text in rec['errors_sent']:
        if 'num_idle_workers' in text or 'Read receipt' in text:
            v.append((f'scheduler-assertion:{tb_signature(text)}',
                      f'ERROR on {lab}: {text[-500:]}'))
    # every submitted task reaches exactly one worker (normal completion)
    completed = all(ev is not None and ev[2] == 'ok'
                    for c, op, ev in client_ops(spec, rec)
                    if op[0] in ('compile', 'result'))
    if completed and not spec.get('has_cancel'):
        for a, n in rec['sent_up'].items():
            d = rec['deliveries'].get(a, [])
            if len(d) != 1:
                v.append((
                    'task-not-delivered-exactly-once',
                    f'task {a} sent up once, delivered to workers {d}'))
    # at quiescence a flat server believes everybody idle, nothing pending
    if system_idle(rec) and 'srv' in rec.get('nodes', {}):
        srv = rec['nodes']['srv']
        flat = all(p.startswith('w') for p in rec['workers']) and \
            spec['topo'][0] == 'attached'
        truly_idle = not idle_leftovers(rec)
        if flat and truly_idle:
            lost = rec['discarded_by_cancel'] if 'discarded_by_cancel' in rec \
                else None
            cancelled = {tuple(x[1]) for x in rec['log']
                         if x[0] == 'cancel-handled'}
            reported = {(tuple(x[1]), x[2]) for x in rec['log']
                        if x[0] == 'completed' and x[3]}
            for (eid, ntasks, nidle, tw, _) in srv['employees']:
                if ntasks != 0:
                    # ground truth held by the simulated worker: tasks that
                    # were delivered to it and never reported a completion
                    delivered = [a for a, ws in rec['deliveries'].items()
                                 if f'w{eid}' in ws]
                    lost = [a for a in delivered if (a, eid) not in reported]
                    by_cancel = bool(cancelled) and spec.get('has_cancel')
                    if by_cancel and ntasks == len(lost):
                        v.append((
                            'num-tasks-drift-equals-tasks-discarded-by-cancel',
                            f'idle system: server believes worker {eid} has '
                            f'{ntasks} outstanding tasks = the {len(lost)} '
                            f'tasks {lost} it discarded because of '
                            f'cancellations {sorted(cancelled)} (cancelled '
                            'work never reports back)'))
                    elif spec.get('has_cancel'):
                        v.append((
                            'num-tasks-drift-unexplained',
                            f'idle system: server believes worker {eid} has '
                            f'{ntasks} outstanding tasks but it discarded '
                            f'{len(lost)}: {lost}'))
                    else:
                        v.append((
                            'num-tasks-nonzero-at-idle',
                            f'idle system: server believes worker {eid} has '
                            f'{ntasks} outstanding tasks'))
                if nidle != tw:
                    v.append((
                        'idle-count-wrong-at-idle',
                        f'idle system: server believes worker {eid} has '
                        f'{nidle}/{tw} idle'))
            if srv['num_idle_workers'] != srv['total_workers']:
                v.append((
                    'idle-count-wrong-at-idle',
                    f'idle system: server num_idle_workers='
                    f'{srv["num_idle_workers"]} of {srv["total_workers"]}'))
    return v


register_judge('c15', judge_c15)
