"""C18: the constructor grid.

The list of classes comes from introspection of `bqskit.ir.gates.__all__`;
the admissible construction arguments come from the per-class table below
(written from each class's signature and docstring).  A concrete exported
class that has neither a table entry nor a zero-argument constructor lands
in `SKIPPED` with a reason, which is copied into the evidence.

A *spec* is a JSON object from which `build()` reconstructs one gate:

    {"cls": "HGate", "args": [3]}
    {"cls": "ControlledGate", "args": [{"$gate": {...}}, 2, [2, 3], [[0, 1], 1]]}
    {"obj": "U1qPiGate"}                     (an exported instance)

Encodings inside args/kwargs: {"$gate": spec}, {"$utry": [name, radixes,
form]}, {"$circuit": name}, {"$tuple": [...]}, {"$dict": [[k, v], ...]}.
"""
from __future__ import annotations

import inspect
import itertools as it
import math
from typing import Any

import numpy as np

import vf.common  # noqa: F401
from vf import c20_ref as R

import bqskit.ir.gates as G
from bqskit.ir.circuit import Circuit
from bqskit.qis.unitary.unitarymatrix import UnitaryMatrix

PI = math.pi

# ------------------------------------------------------------ decoding
CIRCUITS = {
    'h-rz': (1, [2], [('HGate', [], [0], []), ('RZGate', [], [0], [0.3])]),
    'cx-ry-u3': (2, [2, 2], [
        ('CNOTGate', [], [0, 1], []), ('RYGate', [], [1], [0.2]),
        ('U3Gate', [], [0], [0.1, 0.2, 0.3]), ('CNOTGate', [], [1, 0], []),
    ]),
    'qutrit-qubit': (2, [3, 2], [
        ('ShiftGate', [3], [0], []), ('RZGate', [], [1], [0.4]),
        ('RSU3Gate', [1], [0], [0.7]),
    ]),
    'empty': (1, [2], []),
}


def _circuit(name: str) -> Circuit:
    n, radixes, ops = CIRCUITS[name]
    c = Circuit(n, radixes)
    for cls, args, loc, params in ops:
        c.append_gate(getattr(G, cls)(*args), loc, params)
    return c


def _utry(name: str, radixes: list, form: str, seed: int = 0) -> Any:
    m = dict(R.catalogue(list(radixes), seed))[name]
    if form == 'list':
        return [[complex(x) for x in row] for row in m]
    if form == 'ndarray':
        return np.array(m)
    return UnitaryMatrix(m, radixes)


def decode(x: Any) -> Any:
    if isinstance(x, dict):
        if '$gate' in x:
            return build(x['$gate'])
        if '$utry' in x:
            return _utry(*x['$utry'])
        if '$circuit' in x:
            return _circuit(x['$circuit'])
        if '$tuple' in x:
            return tuple(decode(v) for v in x['$tuple'])
        if '$dict' in x:
            return {decode(k): decode(v) for k, v in x['$dict']}
        return {k: decode(v) for k, v in x.items()}
    if isinstance(x, list):
        return [decode(v) for v in x]
    return x


def build(spec: dict) -> Any:
    if 'obj' in spec:
        return getattr(G, spec['obj'])
    cls = getattr(G, spec['cls'])
    return cls(*decode(spec.get('args', [])), **decode(spec.get('kwargs', {})))


def show(spec: dict) -> str:
    """Compact human-readable rendering of a spec."""
    def s(x: Any) -> str:
        if isinstance(x, dict):
            if '$gate' in x:
                return show(x['$gate'])
            if '$utry' in x:
                return f'<{x["$utry"][0]} {x["$utry"][1]} as {x["$utry"][2]}>'
            if '$circuit' in x:
                return f'<circuit {x["$circuit"]}>'
            if '$tuple' in x:
                return '(' + ', '.join(s(v) for v in x['$tuple']) + ')'
            if '$dict' in x:
                return '{' + ', '.join(f'{s(k)}: {s(v)}' for k, v in x['$dict']) + '}'
        if isinstance(x, list):
            return '[' + ', '.join(s(v) for v in x) + ']'
        return repr(x)
    if 'obj' in spec:
        return spec['obj']
    parts = [s(a) for a in spec.get('args', [])]
    parts += [f'{k}={s(v)}' for k, v in spec.get('kwargs', {}).items()]
    return f'{spec["cls"]}({", ".join(parts)})'


def g(cls: str, *args: Any, **kw: Any) -> dict:
    d: dict = {'cls': cls, 'args': list(args)}
    if kw:
        d['kwargs'] = kw
    return d


# ------------------------------------------------- admissible arguments
def _radix_range(thorough: bool) -> list[int]:
    return [2, 3, 4, 5] if thorough else [2, 3, 4]


def base_table(thorough: bool) -> dict[str, list[dict]]:
    """class name -> list of specs (admissible constructions)."""
    rr = _radix_range(thorough)
    T: dict[str, list[dict]] = {}
    for cls in ('ClockGate', 'CSUMGate', 'HGate', 'ShiftGate', 'SwapGate'):
        T[cls] = [g(cls)] + [g(cls, r) for r in rr] + [g(cls, radix=3)]
    T['PDGate'] = [g('PDGate', i, r) for r in rr for i in range(r)] + [g('PDGate', 1)]
    T['IdentityGate'] = [
        g('IdentityGate'), g('IdentityGate', 1), g('IdentityGate', 2), g('IdentityGate', 3),
        g('IdentityGate', 1, [3]), g('IdentityGate', 2, [2, 3]), g('IdentityGate', 2, [3, 3]),
        g('IdentityGate', 2, [2, 2]), g('IdentityGate', 1, [4]),
    ]
    T['PermutationGate'] = [
        g('PermutationGate', n, list(loc))
        for n in (1, 2, 3) for k in range(n + 1) for loc in it.permutations(range(n), k)
    ]
    T['SubSwapGate'] = [
        g('SubSwapGate', r, f'{a // r},{a % r};{b // r},{b % r}')
        for r in ([2, 3, 4] if thorough else [2, 3])
        for a in range(r * r) for b in range(r * r) if a != b
    ]
    T['ConstantUnitaryGate'] = [
        g('ConstantUnitaryGate', {'$utry': [nm, list(rs), form]}, *([list(rs)] if form != 'UnitaryMatrix' else []))
        for rs in ([2], [3], [2, 2], [2, 3], [4])
        for nm in ('identity', 'shift', 'clock', 'dft', 'generic')
        for form in ('list', 'ndarray', 'UnitaryMatrix')
    ]
    T['ArbitraryCPhaseGate'] = [g('ArbitraryCPhaseGate')] + [
        g('ArbitraryCPhaseGate', {'$tuple': rs})
        for rs in ([2, 2], [2, 3], [3, 2], [3, 3], [2, 2, 2], [2, 4], [4, 2], [3, 4])
    ] + [g('ArbitraryCPhaseGate', [2, 2]), g('ArbitraryCPhaseGate', [3, 3])]
    T['DiagonalGate'] = [g('DiagonalGate')] + [g('DiagonalGate', n) for n in (1, 2, 3)]
    for cls in ('MPRYGate', 'MPRZGate'):
        T[cls] = [g(cls, n) for n in (1, 2, 3)] + [g(cls, n, t) for n in (1, 2, 3) for t in range(n)]
    T['PauliGate'] = [g('PauliGate', n) for n in ((1, 2, 3) if thorough else (1, 2))]
    T['PauliZGate'] = [g('PauliZGate', n) for n in (1, 2, 3)]
    T['RSU3Gate'] = [g('RSU3Gate', i) for i in range(8)]
    T['VariableUnitaryGate'] = [
        g('VariableUnitaryGate', 1), g('VariableUnitaryGate', 2), g('VariableUnitaryGate', 1, [3]),
        g('VariableUnitaryGate', 2, [2, 3]), g('VariableUnitaryGate', 1, [4]),
    ]
    T['CircuitGate'] = [g('CircuitGate', {'$circuit': nm}) for nm in CIRCUITS] + [
        g('CircuitGate', {'$circuit': 'h-rz'}, True),
    ]
    T['BarrierPlaceholder'] = [
        g('BarrierPlaceholder', 1), g('BarrierPlaceholder', 2), g('BarrierPlaceholder', 2, [2, 3]),
    ]
    return T


NOT_UNITARY = {
    'MeasurementPlaceholder': 'placeholder for a measurement: get_unitary raises RuntimeError by design (read in measure.py); the gate contract does not apply',
    'Reset': 'non-unitary reset: get_unitary raises RuntimeError by design (read in reset.py); the gate contract does not apply',
}

# inner gates for the composed classes, in order of preference; a candidate
# that fails its own base check in this run is dropped from the menu (a
# composition cannot be judged through a broken part)
INNER_MENU = [
    g('XGate'), g('ShiftGate', 3), g('CNOTGate'), g('CSUMGate', 3), g('TGate'),
    g('RZGate'), g('RYGate'), g('U3Gate'), g('RXXGate'), g('CRYGate'),
    g('RSU3Gate', 3), g('U8Gate'), g('PauliGate', 1), g('FSIMGate'),
    g('ArbitraryCPhaseGate', {'$tuple': [3, 3]}), g('VariableUnitaryGate', 1, [3]),
    # three-qudit and mixed-radix inner gates: index arithmetic over several
    # qudits with different radixes is only exercised by these
    g('CCXGate'), g('CCPGate'),
    g('ArbitraryCPhaseGate', {'$tuple': [2, 3]}), g('ArbitraryCPhaseGate', {'$tuple': [2, 2, 3]}),
    g('ConstantUnitaryGate', {'$utry': ['generic', [3, 2, 2], 'UnitaryMatrix']}),
]
SECOND_LEVEL_INNER = [
    g('ControlledGate', {'$gate': g('RZGate')}, 1, 3),
    g('EmbeddedGate', {'$gate': g('RZGate')}, 3, [0, 2]),
    g('EmbeddedGate', {'$gate': g('U3Gate')}, 4, [3, 1]),
    g('FrozenParameterGate', {'$gate': g('U3Gate')}, {'$dict': [[1, 0.5]]}),
    g('PowerGate', {'$gate': g('RYGate')}, 2),
    g('DaggerGate', {'$gate': g('U3Gate')}),
    g('ControlledGate', {'$gate': g('U3Gate')}, 1, 2, 0),
]


def _subsets(r: int) -> list[list[int]]:
    return [list(s) for k in range(1, r + 1) for s in it.combinations(range(r), k)]


def _injections(small: int, big: int) -> list[list[int]]:
    return [list(p) for p in it.permutations(range(big), small)]


def composed_specs(inner: dict, info: dict, thorough: bool, second_level: bool = False) -> list[dict]:
    """All one-level compositions over `inner`; `info` holds its measured
    num_params, radixes."""
    I = {'$gate': inner}
    nparams, radixes = info['num_params'], tuple(info['radixes'])
    out: list[dict] = []
    # -- Dagger / Power
    out.append(g('DaggerGate', I))
    for p in (-2, -1, 0, 1, 2, 3):
        out.append(g('PowerGate', I, p))
    out.append(g('PowerGate', I))
    if second_level:
        out.append(g('ControlledGate', I))
        out.append(g('ControlledGate', I, 1, 3, [[0, 2]]))
        out.append(g('TaggedGate', I, 'a'))
        return out
    # -- Controlled: every control-level assignment
    cr = _radix_range(thorough)
    out.append(g('ControlledGate', I))
    for r in cr:
        out.append(g('ControlledGate', I, 1, r))
        for lv in _subsets(r):
            out.append(g('ControlledGate', I, 1, r, [lv]))
            out.append(g('ControlledGate', I, 1, [r], [lv]))
        for l in range(r):
            out.append(g('ControlledGate', I, 1, r, l))
    two = [2, 3] if not thorough else [2, 3, 4]
    if int(np.prod(radixes)) <= 9:
        for r1 in two:
            for r2 in two:
                if r1 * r2 * int(np.prod(radixes)) > 64:
                    continue
                out.append(g('ControlledGate', I, 2, [r1, r2]))
                for l1 in _subsets(r1):
                    for l2 in _subsets(r2):
                        out.append(g('ControlledGate', I, 2, [r1, r2], [l1, l2]))
        out.append(g('ControlledGate', I, 2))
        out.append(g('ControlledGate', I, 2, 3, 1))
        out.append(g('ControlledGate', I, 2, 2, [0, [0, 1]]))
    # -- Embedded: every injective level map
    if len(radixes) == 1:
        r0 = radixes[0]
        for big in range(r0, (5 if thorough else 4) + 1):
            out.append(g('EmbeddedGate', I, big))
            for lm in _injections(r0, big):
                out.append(g('EmbeddedGate', I, big, lm))
                out.append(g('EmbeddedGate', I, [big], [lm]))
    elif len(radixes) == 2 and max(radixes) <= 3:
        for bigs in it.product(range(2, 4 + (1 if thorough else 0)), repeat=2):
            if any(b < r for b, r in zip(bigs, radixes)) or bigs[0] * bigs[1] > 16:
                continue
            out.append(g('EmbeddedGate', I, list(bigs)))
            for m0 in _injections(radixes[0], bigs[0]):
                for m1 in _injections(radixes[1], bigs[1]):
                    out.append(g('EmbeddedGate', I, list(bigs), [m0, m1]))
        if radixes[0] == radixes[1]:
            out.append(g('EmbeddedGate', I, 3, list(range(radixes[0] - 1)) + [2]))
    elif len(radixes) == 3 and int(np.prod(radixes)) <= 12:
        # every target radix tuple over 2..4 (5) (uniform and mixed, e.g.
        # [2,2,3], [2,3,4], [3,4,2]) x three level-map shapes
        for bigs in it.product(range(2, 5 + (1 if thorough else 0)), repeat=3):
            if any(b < r for b, r in zip(bigs, radixes)) or int(np.prod(bigs)) > 64:
                continue
            low = [list(range(r)) for r in radixes]
            top = [list(range(b - r, b))[::-1] for b, r in zip(bigs, radixes)]
            out.append(g('EmbeddedGate', I, list(bigs)))
            if top != low:
                out.append(g('EmbeddedGate', I, list(bigs), top))
                out.append(g('EmbeddedGate', I, list(bigs), [low[0], top[1], low[2]]))
                out.append(g('EmbeddedGate', I, list(bigs), [top[0], low[1], top[2]]))
        if len(set(radixes)) == 1:
            out.append(g('EmbeddedGate', I, 3))
            out.append(g('EmbeddedGate', I, 4, list(range(1, radixes[0] + 1))))
    # -- Frozen: every subset of the parameters
    vals = [0.7, PI / 2, 100.3, -2.1, 0.0, 1e-9, 3.3, -0.4]
    if 0 < nparams <= 8:
        idxs = list(range(nparams))
        subsets = [s for k in range(0, nparams + 1) for s in it.combinations(idxs, k)]
        if len(subsets) > 40:
            subsets = [s for s in subsets if len(s) <= 1 or len(s) >= nparams - 1]
        for s in subsets:
            out.append(g('FrozenParameterGate', I, {'$dict': [[i, vals[i % 8]] for i in s]}))
            if len(s) >= 2:
                out.append(g('FrozenParameterGate', I, {'$dict': [[i, vals[i % 8]] for i in reversed(s)]}))
            if s:
                out.append(g('FrozenParameterGate', I, {'$dict': [[i, 0.0] for i in s]}))
    elif nparams == 0:
        out.append(g('FrozenParameterGate', I, {'$dict': []}))
    # -- Tagged
    for tag in ('a', 7, None, {'$tuple': ['x', 1]}, {'$dict': [['k', 1], ['j', 2]]}, {'$dict': [['j', 2], ['k', 1]]}):
        out.append(g('TaggedGate', I, tag))
    # -- VariableLocation (documented for qubits only)
    if all(r == 2 for r in radixes):
        if len(radixes) == 1:
            locsets = [[[0], [1]], [[1], [0]], [[0], [1], [2]], [[0]], [[2], [0], [1]]]
        elif len(radixes) == 2:
            locsets = [
                [[0, 1]], [[0, 1], [1, 0]], [[0, 1], [1, 2]], [[1, 2], [2, 0]],
                [[0, 1], [1, 2], [0, 2]], [[2, 0], [1, 0], [0, 1]], [[0, 1], [2, 3]],
            ]
        elif len(radixes) == 3:
            locsets = [
                [[0, 1, 2]], [[0, 1, 2], [1, 2, 3]], [[0, 1, 2], [2, 0, 1]], [[1, 2, 0], [0, 2, 1]],
            ]
        else:
            locsets = []
        for ls in locsets:
            out.append(g('VariableLocationGate', I, ls))
        if len(radixes) == 1:
            out.append(g('VariableLocationGate', I, [[0], [1]], [2, 2]))
    return out


# ------------------------------------------------------- introspection
def classify() -> tuple[dict[str, str], dict[str, str], dict[str, str], list[str]]:
    """-> (concrete classes name->canonical, aliases, skipped name->reason,
    exported instances)."""
    concrete: dict[str, str] = {}
    aliases: dict[str, str] = {}
    skipped: dict[str, str] = {}
    instances: list[str] = []
    seen: dict[Any, str] = {}
    for name in G.__all__:
        obj = getattr(G, name)
        if not inspect.isclass(obj):
            instances.append(name)
            continue
        if obj in seen:
            aliases[name] = seen[obj]
            continue
        seen[obj] = name
        if inspect.isabstract(obj) or name in ('ComposedGate', 'QuditGate', 'GeneralGate'):
            skipped[name] = 'abstract base class (listed under "Gate Base Classes"), nothing to construct'
            continue
        if name in NOT_UNITARY:
            skipped[name] = NOT_UNITARY[name]
            continue
        concrete[name] = name
    return concrete, aliases, skipped, instances


COMPOSED = (
    'ControlledGate', 'PowerGate', 'DaggerGate', 'EmbeddedGate',
    'FrozenParameterGate', 'TaggedGate', 'VariableLocationGate',
)


def base_specs(thorough: bool) -> tuple[list[dict], dict[str, str], dict]:
    """Specs of all non-composed gates, the SKIPPED dict, and notes."""
    concrete, aliases, skipped, instances = classify()
    table = base_table(thorough)
    specs: list[dict] = []
    for name in concrete:
        if name in COMPOSED:
            continue
        if name in table:
            specs.extend(table[name])
            continue
        cls = getattr(G, name)
        try:
            sig = inspect.signature(cls)
            required = [
                p for p in sig.parameters.values()
                if p.default is inspect.Parameter.empty
                and p.kind in (p.POSITIONAL_ONLY, p.POSITIONAL_OR_KEYWORD, p.KEYWORD_ONLY)
            ]
        except (TypeError, ValueError):
            required = []
        if required:
            skipped[name] = ('no entry in the admissible-argument table for required arguments '
                             + str([p.name for p in required]))
            continue
        specs.append(g(name))
    for name in instances:
        specs.append({'obj': name})
    return specs, skipped, {'aliases': aliases, 'instances': instances}


def spec_class(spec: dict) -> str:
    if 'obj' in spec:
        return spec['obj']
    return spec['cls']
