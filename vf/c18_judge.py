"""C18: judging one gate construction against the gate contract.

`judge(item) -> (violations, stats)` with `item = {"spec": ..., "seed": s,
"tier": t, "light": bool}`; violations are `(signature, what)`.

Clauses (names appear in the signatures):
  unitary     get_unitary(p) is a unitary of dimension prod(radixes) carrying
              the gate's radixes
  grad        get_grad(p) has shape (num_params, dim, dim) and equals central
              differences of get_unitary (h = 1e-6, confirmed with a 5-point
              stencil at h = 1e-3 before alarming)
  uag         get_unitary_and_grad(p) equals both
  inverse     get_inverse().get_unitary(get_inverse_params(p)) @ U(p) = I
  calc        calc_params(T) reproduces T up to global phase
  optimize    optimize(env) attains the maximum of Re tr(env U(p)); a result
              that instead attains the maximum of |tr(env U(p))| is recorded
              as an observation, not a violation
  algebra     composed gate = numpy composition of its inner gate
  expr        hand-written get_unitary/get_grad = expression-backed default
  qiskit      standard named qubit gates = Qiskit's matrix (bits reversed)
  hash        constructions that compare == hash equally
"""
from __future__ import annotations

import math
import warnings
from typing import Any, Callable

import numpy as np

import vf.common  # noqa: F401
from vf import c20_ref as R
from vf import c18_grid as GR

from bqskit.ir.gate import Gate
from bqskit.qis.unitary.optimizable import LocallyOptimizableUnitary
from bqskit.qis.unitary.unitarymatrix import UnitaryMatrix

PI = math.pi
CALC_DOMAIN = {'PauliZGate': 'diagonal'}    # "arbitrary diagonal rotation"


class V:
    def __init__(self, cls: str, desc: str) -> None:
        self.cls, self.desc = cls, desc
        self.v: list[tuple[str, str]] = []
        self.stats: dict[str, Any] = {}
        self._seen: set[str] = set()

    def bad(self, clause: str, what: str) -> None:
        sig = f'{self.cls}:{clause}'
        if sig not in self._seen:
            self._seen.add(sig)
            self.v.append((sig, f'{self.desc}: {what}'))

    def n(self, key: str, k: int = 1) -> None:
        self.stats[key] = self.stats.get(key, 0) + k


def call(fn: Callable, *a: Any, **kw: Any) -> tuple:
    try:
        with warnings.catch_warnings():
            warnings.simplefilter('ignore')
            with np.errstate(all='ignore'):
                return ('ok', fn(*a, **kw))
    except Exception as e:
        return ('exc', type(e).__name__, str(e)[:160])


def fmt(p: Any) -> str:
    return '[' + ', '.join(f'{float(x):.6g}' for x in p) + ']'


# ------------------------------------------------------------ parameters
def grid_values(seed: int) -> list[float]:
    rng = np.random.RandomState(4000 + seed)
    g1 = float(rng.uniform(0.3, 2.8))
    g2 = -float(rng.uniform(0.3, 2.8))
    return [0.0, PI / 2, PI, 3 * PI / 2, -PI, 100.3, 1e-9, g1, g2]


def generic_vector(n: int, seed: int, k: int) -> list[float]:
    rng = np.random.RandomState(5000 + 13 * seed + 7 * k + n)
    return [float(x) for x in rng.uniform(-PI, PI, n)]


def points(n: int, seed: int, thorough: bool, light: bool) -> list[list[float]]:
    import itertools as it
    Vs = grid_values(seed)
    if n == 0:
        return [[]]
    if light:
        out = [[v] * n for v in (0.0, PI / 2, 100.3, Vs[7])]
        out += [generic_vector(n, seed, 0), generic_vector(n, seed, 1)]
        if n <= 4:
            base = generic_vector(n, seed, 0)
            for i in range(n):
                q = list(base)
                q[i] = PI / 2
                out.append(q)
        return out
    if n <= 2 or (n == 3 and thorough):
        return [list(p) for p in it.product(Vs, repeat=n)]
    out = [[v] * n for v in Vs]
    axis = Vs if 18 * n <= 200 else [PI / 2, 100.3, -PI]
    bases = [[0.0] * n, generic_vector(n, seed, 0)]
    if 2 * len(axis) * n > 230:
        bases = bases[1:]
    for base in bases:
        for i in range(n):
            for v in axis:
                q = list(base)
                q[i] = v
                out.append(q)
    out += [generic_vector(n, seed, 1), generic_vector(n, seed, 2)]
    out.append([30 * x for x in generic_vector(n, seed, 3)])
    return out[:256]


# -------------------------------------------------------------- clauses
def _np(U: Any) -> np.ndarray:
    return np.asarray(U.numpy if isinstance(U, UnitaryMatrix) else U)


def clause_point(g: Any, p: list[float], c: V, k: int, state: dict) -> np.ndarray | None:
    n = len(p)
    dim = state['dim']
    l1 = float(sum(abs(x) for x in p))
    at = f'at p={fmt(p)}'
    r = call(g.get_unitary, list(p))
    c.n('unitary')
    if r[0] != 'ok':
        c.bad(f'get_unitary-raises-{r[1]}', f'{at}: {r[2]}')
        return None
    U = r[1]
    if not isinstance(U, UnitaryMatrix):
        c.bad('get_unitary-not-a-UnitaryMatrix', f'{at}: {type(U).__name__}')
        return None
    M = _np(U)
    if M.shape != (dim, dim):
        c.bad('get_unitary-wrong-dimension', f'{at}: shape {M.shape}, prod(radixes)={dim}')
        return None
    if tuple(U.radixes) != state['radixes']:
        c.bad('get_unitary-wrong-radixes', f'{at}: unitary carries radixes {tuple(U.radixes)}, gate advertises {state["radixes"]}')
    if not np.all(np.isfinite(M)):
        c.bad('get_unitary-not-finite', at)
        return None
    utol = 1e-10 * (1 + l1)
    dev = max(np.abs(M @ M.conj().T - np.eye(dim)).max(), np.abs(M.conj().T @ M - np.eye(dim)).max())
    if dev > utol:
        c.bad('get_unitary-not-unitary', f'{at}: |UU^+ - I| = {dev:.2e}')
        return M

    # ---- gradient
    G = None
    grad_exc = None
    radix_ok = tuple(U.radixes) == state['radixes']
    r = call(g.get_grad, list(p))
    if r[0] == 'exc' and r[1] == 'NotImplementedError':
        c.n('grad_not_implemented')
        state['differentiable'] = False
    elif r[0] != 'ok':
        grad_exc = r[1:]
        c.bad(f'get_grad-raises-{r[1]}', f'{at}: {r[2]}')
    else:
        G = np.asarray(r[1])
        c.n('grad')
        if n == 0:
            if G.size != 0:
                c.bad('get_grad-nonempty-for-constant-gate', f'shape {G.shape}')
            G = None
        elif G.shape != (n, dim, dim):
            c.bad('get_grad-wrong-shape', f'{at}: {G.shape}, expected {(n, dim, dim)}')
            G = None
        else:
            coords = list(range(n)) if n <= 8 else sorted({(k + j * max(1, n // 8)) % n for j in range(8)})
            gmax = max(1.0, float(np.abs(G).max()))
            tol = 1e-7 * (1 + l1 / 10) * gmax
            for i in coords:
                d1 = _cdiff(g, p, i, 1e-6)
                if d1 is None:
                    continue
                c.n('grad_coordinates')
                e1 = float(np.abs(G[i] - d1).max())
                if e1 > tol:
                    d5 = _cdiff5(g, p, i, 1e-3)
                    if d5 is None or float(np.abs(d1 - d5).max()) > 10 * tol:
                        # the two numerical derivatives disagree with each
                        # other: get_unitary is not smooth at this point (e.g.
                        # a polar projection of a singular matrix) -- no verdict
                        c.n('grad_points_where_unitary_is_not_smooth')
                        continue
                    e5 = float(np.abs(G[i] - d5).max())
                    if e5 > tol:
                        c.bad('grad-differs-from-central-differences',
                              f'{at}: d/dp[{i}] differs by {min(e1, e5):.3g} (tolerance {tol:.1g})')
                        break
    # ---- unitary and grad together
    r = call(g.get_unitary_and_grad, list(p))
    if r[0] == 'exc' and r[1] == 'NotImplementedError' and G is None:
        pass
    elif r[0] != 'ok':
        if not (grad_exc is not None and grad_exc == r[1:]):     # same failure as get_grad: one cause
            c.bad(f'get_unitary_and_grad-raises-{r[1]}', f'{at}: {r[2]}')
    else:
        c.n('uag')
        try:
            U2, G2 = r[1]
        except Exception:
            c.bad('get_unitary_and_grad-not-a-pair', at)
            U2 = G2 = None
        if U2 is not None:
            M2 = _np(U2)
            if M2.shape != M.shape or np.abs(M2 - M).max() > 1e-10 * (1 + l1):
                if M2.shape == M.shape and (
                    not _continuous_at(g, p, M)
                    or np.abs(M2 - M).max() <= 1e-13 * _sensitivity(g, p, M)
                ):
                    # get_unitary itself jumps at this point (e.g. the polar
                    # projection of a numerically singular matrix): two
                    # evaluations of the same formula need not agree -- no verdict
                    c.n('uag_points_where_unitary_is_not_continuous')
                else:
                    c.bad('get_unitary_and_grad-unitary-differs-from-get_unitary',
                          f'{at}: max difference {np.abs(M2 - M).max() if M2.shape == M.shape else "shape"}')
            if isinstance(U2, UnitaryMatrix) and tuple(U2.radixes) != state['radixes'] and radix_ok:
                c.bad('get_unitary_and_grad-wrong-radixes',
                      f'{at}: unitary carries radixes {tuple(U2.radixes)}, gate advertises {state["radixes"]}')
            G2 = np.asarray(G2)
            if n == 0:
                if G2.size != 0:
                    c.bad('get_unitary_and_grad-nonempty-grad-for-constant-gate', f'{G2.shape}')
            elif G is not None:
                if G2.shape != G.shape or np.abs(G2 - G).max() > 1e-9 * (1 + l1) * max(1.0, float(np.abs(G).max())):
                    c.bad('get_unitary_and_grad-grad-differs-from-get_grad', at)
    # ---- inverse
    ri = call(g.get_inverse)
    if ri[0] != 'ok':
        c.bad(f'get_inverse-raises-{ri[1]}', ri[2])
    else:
        gi = ri[1]
        rp = call(g.get_inverse_params, list(p))
        if rp[0] != 'ok':
            c.bad(f'get_inverse_params-raises-{rp[1]}', f'{at}: {rp[2]}')
        else:
            rv = call(gi.get_unitary, list(rp[1]))
            c.n('inverse')
            if rv[0] != 'ok':
                c.bad(f'inverse-get_unitary-raises-{rv[1]}', f'{at}: {rv[2]}')
            else:
                W = _np(rv[1])
                if W.shape != M.shape or np.abs(W @ M - np.eye(dim)).max() > 1e-9 * (1 + l1):
                    c.bad('inverse-times-gate-is-not-identity',
                          f'{at}: inverse gate {getattr(gi, "name", gi)} at {fmt(rp[1])}')
    return M


def _continuous_at(g: Any, p: list[float], M: np.ndarray) -> bool:
    for i in range(min(len(p), 8)):
        for d in (1e-7, -1e-7):
            q = list(p)
            q[i] += d
            m = _U(g, q)
            if m is None or np.abs(m - M).max() > 1e-4:
                return False
    return True


def _sensitivity(g: Any, p: list[float], M: np.ndarray) -> float:
    """max_i |U(p + d e_i) - U(p)| / d: how strongly get_unitary amplifies a
    perturbation of its input at p.  Rounding noise of relative size 1e-16
    in the intermediate matrices is amplified by the same factor, so two
    algebraically equal evaluations may legitimately differ by that much."""
    worst = 1.0
    for i in range(min(len(p), 8)):
        q = list(p)
        q[i] += 1e-7
        m = _U(g, q)
        if m is not None:
            worst = max(worst, float(np.abs(m - M).max()) / 1e-7)
    return worst


def _U(g: Any, p: Any) -> np.ndarray | None:
    r = call(g.get_unitary, list(p))
    return _np(r[1]) if r[0] == 'ok' else None


def _cdiff(g: Any, p: list[float], i: int, h: float) -> np.ndarray | None:
    a, b = list(p), list(p)
    a[i] += h
    b[i] -= h
    ua, ub = _U(g, a), _U(g, b)
    if ua is None or ub is None:
        return None
    return (ua - ub) / ((p[i] + h) - (p[i] - h))


def _cdiff5(g: Any, p: list[float], i: int, h: float) -> np.ndarray | None:
    us = []
    for k in (2, 1, -1, -2):
        q = list(p)
        q[i] += k * h
        u = _U(g, q)
        if u is None:
            return None
        us.append(u)
    return (-us[0] + 8 * us[1] - 8 * us[2] + us[3]) / (12 * h)


def phase_dist(A: np.ndarray, B: np.ndarray) -> float:
    return 1 - abs(np.trace(A.conj().T @ B)) / A.shape[0]


def clause_calc(g: Any, c: V, state: dict, seed: int, pts: list) -> None:
    if not hasattr(g, 'calc_params'):
        return
    rs = state['radixes']
    dom = CALC_DOMAIN.get(state['cls'])
    targets = [(nm, m) for nm, m in R.catalogue(list(rs), seed)
               if dom != 'diagonal' or nm in ('identity', 'clock')]
    for j, p in enumerate(pts[:3] + pts[-2:]):
        m = _U(g, p)
        if m is not None:
            targets.append((f'own unitary at {fmt(p)}', m))
    for nm, T in targets:
        r = call(g.calc_params, UnitaryMatrix(T, rs))
        c.n('calc_params')
        if r[0] != 'ok':
            c.bad(f'calc_params-raises-{r[1]}', f'target {nm}: {r[2]}')
            continue
        q = [float(x) for x in r[1]]
        if len(q) != state['num_params']:
            c.bad('calc_params-wrong-length', f'target {nm}: {len(q)} values')
            continue
        if not all(math.isfinite(x) for x in q):
            c.bad('calc_params-returns-nonfinite', f'target {nm}: {q}')
            continue
        W = _U(g, q)
        if W is None:
            c.bad('calc_params-result-not-accepted-by-get_unitary', f'target {nm}')
        elif phase_dist(T, W) > 1e-8:
            c.bad('calc_params-does-not-reproduce-target',
                  f'target {nm}: 1-|tr(T^+ U(calc_params(T)))|/N = {phase_dist(T, W):.3g}')


def _envs(g: Any, state: dict, seed: int, pts: list) -> list[tuple[str, np.ndarray]]:
    d = state['dim']
    out = []
    for k in range(2):
        rng = np.random.RandomState(6000 + 11 * seed + k + d)
        out.append((f'generic#{k}', rng.randn(d, d) + 1j * rng.randn(d, d)))
    p0 = generic_vector(state['num_params'], seed, 4)
    m = _U(g, p0)
    if m is not None:
        out.append((f'U({fmt(p0)})^+', m.conj().T))
    out.append(('identity', np.eye(d, dtype=np.complex128)))
    out.append(('real shift matrix', np.roll(np.eye(d), 1, axis=0).astype(np.complex128)))
    return out


def _ascent(val: Callable, start: list[float], which: int, tol: float, ncoord: int) -> tuple[float, list[float]]:
    deltas = [s * x for x in (1e-3, 1e-2, 1e-1) for s in (1, -1)] + [4 * PI * k / 96 for k in range(1, 96)]
    cur = list(start)
    best = val(cur)[which]
    for _ in range(3):
        improved = False
        for i in range(min(len(cur), ncoord)):
            bi, bd = best, None
            for dlt in deltas:
                q = list(cur)
                q[i] += dlt
                v = val(q)[which]
                if v > bi:
                    bi, bd = v, dlt
            if bd is not None and bi > best + tol / 10:
                cur[i] += bd
                best = bi
                improved = True
        if not improved:
            break
    return best, cur


def clause_optimize(g: Any, c: V, state: dict, seed: int, pts: list) -> None:
    if not isinstance(g, LocallyOptimizableUnitary):
        return
    n = state['num_params']
    if n == 0:
        r = call(g.optimize, np.eye(state['dim'], dtype=np.complex128))
        c.n('optimize_constant')
        if r[0] != 'ok':
            c.bad(f'optimize-raises-{r[1]}', r[2])
        elif len(list(r[1])) != 0:
            c.bad('optimize-constant-gate-returns-parameters', str(r[1]))
        return
    for nm, env in _envs(g, state, seed, pts):
        scale = 1 + float(np.abs(env).sum())
        tol = 1e-6 * scale

        def val(q: list[float]) -> tuple[float, float]:
            m = _U(g, q)
            if m is None or not np.all(np.isfinite(m)):
                return (-np.inf, -np.inf)
            t = np.trace(env @ m)
            return (float(t.real), float(abs(t)))

        r = call(g.optimize, np.array(env))
        c.n('optimize')
        if r[0] != 'ok':
            c.bad(f'optimize-raises-{r[1]}', f'env {nm}: {r[2]}')
            continue
        ps = [float(x) for x in r[1]]
        if len(ps) != n:
            c.bad('optimize-wrong-length', f'env {nm}: {len(ps)} values for {n} parameters')
            continue
        if hasattr(g, 'calc_params') and CALC_DOMAIN.get(state['cls']) is None:
            # general gates optimise through calc_params(polar factor of env);
            # if calc_params cannot reproduce that unitary, this is its defect
            A, _, Bh = np.linalg.svd(env)
            T = Bh.conj().T @ A.conj().T
            rc = call(g.calc_params, UnitaryMatrix(T, state['radixes']))
            qc = [float(x) for x in rc[1]] if rc[0] == 'ok' else None
            W = _U(g, qc) if qc is not None and all(math.isfinite(x) for x in qc) else None
            if W is None or phase_dist(T, W) > 1e-8:
                c.n('optimize_not_judged_calc_params_fails_on_polar_factor')
                if qc is not None and not all(math.isfinite(x) for x in qc):
                    c.bad('calc_params-returns-nonfinite', f'target = polar factor of env {nm}: {qc}')
                else:
                    c.bad('calc_params-does-not-reproduce-target', f'target = polar factor of env {nm}')
                continue
        if not all(math.isfinite(x) for x in ps):
            probe = [val([0.0] * n)[0], val(generic_vector(n, seed, 5))[0], val(generic_vector(n, seed, 6))[0]]
            _, q = _ascent(val, [0.0] * n, 0, tol, 16)
            probe.append(val(q)[0])
            flat = max(probe) - min(probe) <= tol
            c.bad('optimize-returns-nonfinite' + ('-on-flat-objective' if flat else ''),
                  f'env {nm}: optimize -> {ps}' + ('; Re tr(env U(p)) is the same for every p, any finite p would do' if flat else ''))
            continue
        f0, a0 = val(ps)
        nuc = float(np.linalg.svd(env, compute_uv=False).sum())   # Re tr(env U) <= |tr(env U)| <= sum of singular values
        if f0 >= nuc - tol:
            c.n('optimize_attains_max_real_trace')
            continue
        if a0 >= nuc - tol:
            c.n('optimize_attains_max_abs_trace_only')
            continue
        fb, qf = _ascent(val, ps, 0, tol, 16)
        if nm.startswith('U('):
            # the optimum is known: U(p0) itself reaches tr = dim
            p0 = generic_vector(n, seed, 4)
            if val(p0)[0] > fb:
                fb, qf = val(p0)[0], p0
        if fb <= f0 + tol:
            c.n('optimize_attains_max_real_trace')
            continue
        ab, qa = _ascent(val, ps, 1, tol, 16)
        if nm.startswith('U('):
            p0 = generic_vector(n, seed, 4)
            if val(p0)[1] > ab:
                ab, qa = val(p0)[1], p0
        if ab <= a0 + tol:
            c.n('optimize_attains_max_abs_trace_only')
            continue
        c.bad('optimize-not-optimal',
              f'env {nm}: optimize -> {fmt(ps)} gives Re tr = {f0:.6g}, |tr| = {a0:.6g}; '
              f'p = {fmt(qf)} gives Re tr = {fb:.6g}; p = {fmt(qa)} gives |tr| = {ab:.6g}')


# ------------------------------------------------- composed-gate algebra
def _norm_controls(args: list) -> tuple[list[int], list[list[int]]]:
    nc = args[0] if len(args) > 0 else 1
    cr = args[1] if len(args) > 1 else 2
    cl = args[2] if len(args) > 2 else None
    radixes = [cr] * nc if isinstance(cr, int) else list(cr)
    if cl is None:
        levels = [[r - 1] for r in radixes]
    elif isinstance(cl, int):
        levels = [[cl] for _ in radixes]
    else:
        levels = [[x] if isinstance(x, int) else list(x) for x in cl]
    return radixes, levels


def reference(spec: dict, p: list[float], seed: int) -> tuple[np.ndarray, tuple[int, ...]] | None:
    """Numpy composition from the inner gate's unitary; None = not defined
    at this parameter point."""
    cls = spec['cls']
    args = GR.decode([a for a in spec['args'][1:]])
    inner = GR.build(spec['args'][0]['$gate'])
    ir = tuple(inner.radixes)
    idim = int(np.prod(ir))
    ni = inner.num_params

    def iu(q: list[float]) -> np.ndarray:
        return _np(inner.get_unitary(list(q)))

    if cls == 'DaggerGate':
        return iu(p).conj().T, ir
    if cls == 'TaggedGate':
        return iu(p), ir
    if cls == 'PowerGate':
        k = args[0] if args else 1
        base = iu(p) if k >= 0 else iu(p).conj().T
        out = np.eye(idim, dtype=np.complex128)
        for _ in range(abs(k)):
            out = out @ base
        return out, ir
    if cls == 'FrozenParameterGate':
        frozen = args[0]
        full: list[float] = []
        rest = list(p)
        for i in range(ni):
            full.append(frozen[i] if i in frozen else rest.pop(0))
        return iu(full), ir
    if cls == 'ControlledGate':
        cr, levels = _norm_controls(args)
        D = int(np.prod(cr))
        Ui = iu(p)
        out = np.zeros((D * idim, D * idim), dtype=np.complex128)
        for cidx in range(D):
            ds = R.digits(cidx, cr)
            active = all(d in lv for d, lv in zip(ds, levels))
            out[cidx * idim:(cidx + 1) * idim, cidx * idim:(cidx + 1) * idim] = Ui if active else np.eye(idim)
        return out, tuple(cr) + ir
    if cls == 'EmbeddedGate':
        big = args[0]
        bigs = [big] * len(ir) if isinstance(big, int) else list(big)
        lm = args[1] if len(args) > 1 else None
        if lm is None:
            maps = [list(range(r)) for r in ir]
        elif all(isinstance(x, int) for x in lm):
            maps = [list(lm)] * len(ir)
        else:
            maps = [list(x) for x in lm]
        D = int(np.prod(bigs))
        Ui = iu(p)
        out = np.eye(D, dtype=np.complex128)
        tgt = [R.number([m[d] for m, d in zip(maps, R.digits(i, ir))], bigs) for i in range(idim)]
        for i in range(idim):
            for j in range(idim):
                out[tgt[i], tgt[j]] = Ui[i, j]
        return out, tuple(bigs)
    if cls == 'VariableLocationGate':
        locs = [tuple(l) for l in args[0]]
        rad = list(args[1]) if len(args) > 1 and args[1] else None
        nq = len(rad) if rad else len({q for l in locs for q in l})
        logits = list(p[ni:])
        if len(logits) != len(locs):
            return None
        k = int(np.argmax(logits))
        others = [x for i, x in enumerate(logits) if i != k]
        if others and logits[k] - max(others) < 4.0:
            return None       # not saturated: the interpolation is not specified
        return R.embed(iu(p[:ni]), locs[k], [2] * nq), tuple([2] * nq)
    return None


def _vlg_selects_a_location(logits: list[float]) -> bool:
    """One location parameter exceeds all others by a clear margin."""
    if len(logits) <= 1:
        return True
    srt = sorted(logits, reverse=True)
    return srt[0] - srt[1] >= 0.2


def _vlg_saturated(spec: dict, state: dict, seed: int) -> list[list[float]]:
    """Parameter points at which exactly one location is selected."""
    inner = GR.build(spec['args'][0]['$gate'])
    ni = inner.num_params
    nl = state['num_params'] - ni
    use = []
    for k in range(nl):
        for b in (generic_vector(ni, seed, 0), [PI / 2] * ni):
            use.append(list(b) + [5.0 if j == k else 0.0 for j in range(nl)])
    return use


def clause_algebra(spec: dict, g: Any, c: V, state: dict, seed: int, pts: list) -> None:
    if spec.get('cls') not in GR.COMPOSED:
        return
    use = list(pts)
    if spec['cls'] == 'VariableLocationGate':
        use = _vlg_saturated(spec, state, seed)
    first = True
    for p in use:
        ref = call(reference, spec, p, seed)
        if ref[0] != 'ok':
            c.n('algebra_reference_unavailable')
            continue
        if ref[1] is None:
            continue
        want, wr = ref[1]
        if first:
            first = False
            if state['radixes'] != tuple(wr):
                c.bad('algebra-wrong-radixes', f'gate advertises {state["radixes"]}, composition gives {tuple(wr)}')
        m = _U(g, p)
        c.n('algebra')
        if m is None:
            continue
        l1 = float(sum(abs(x) for x in p))
        if m.shape != want.shape or np.abs(m - want).max() > 1e-9 * (1 + l1):
            c.bad('algebra-unitary-differs-from-composition-of-parts',
                  f'at p={fmt(p)}: max difference '
                  f'{np.abs(m - want).max() if m.shape == want.shape else "shape"}')
            return


# ---------------------------------------------------------- expr, qiskit
def clause_expr(g: Any, c: V, state: dict, pts: list) -> None:
    if not hasattr(g, '_expr'):
        return
    own_u = type(g).get_unitary is not Gate.get_unitary
    own_g = type(g).get_grad is not Gate.get_grad and state['num_params'] > 0
    if not (own_u or own_g):
        return
    for p in pts[:40]:
        l1 = float(sum(abs(x) for x in p))
        if own_u:
            a, b = call(g.get_unitary, list(p)), call(Gate.get_unitary, g, list(p))
            if a[0] == 'ok' and b[0] == 'ok':
                c.n('expr_unitary')
                if np.abs(_np(a[1]) - _np(b[1])).max() > 1e-10 * (1 + l1):
                    c.bad('expr-handwritten-unitary-differs-from-expression', f'at p={fmt(p)}')
                    own_u = False
        if own_g:
            a, b = call(g.get_grad, list(p)), call(Gate.get_grad, g, list(p))
            if a[0] == 'ok' and b[0] == 'ok':
                c.n('expr_grad')
                A, B = np.asarray(a[1]), np.asarray(b[1])
                if A.shape != B.shape or np.abs(A - B).max() > 1e-9 * (1 + l1):
                    c.bad('expr-handwritten-grad-differs-from-expression', f'at p={fmt(p)}')
                    own_g = False


_QK: dict | None = None


def _qiskit_map() -> dict:
    global _QK
    if _QK is None:
        from qiskit.circuit.library.standard_gates import get_standard_gate_name_mapping
        _QK = {k: type(v) for k, v in get_standard_gate_name_mapping().items()}
    return _QK


def clause_qiskit(spec: dict, g: Any, c: V, state: dict, pts: list) -> None:
    if spec.get('args') or spec.get('kwargs') or 'obj' in spec:
        return
    if any(r != 2 for r in state['radixes']):
        return
    r = call(lambda: g.qasm_name)
    if r[0] != 'ok' or not isinstance(r[1], str):
        return
    qcls = _qiskit_map().get(r[1])
    if qcls is None:
        c.n('qiskit_no_gate_of_that_name')
        return
    n = len(state['radixes'])
    P = R.qudit_permutation_matrix(list(reversed(range(n))), 2)
    for p in pts[:81]:
        rq = call(lambda: qcls(*p))
        if rq[0] != 'ok':
            c.n('qiskit_signature_mismatch')
            return
        q = rq[1]
        if q.num_qubits != n:
            c.n('qiskit_signature_mismatch')
            return
        Q = P @ np.asarray(q.to_matrix()) @ P
        m = _U(g, p)
        if m is None:
            continue
        c.n('qiskit')
        l1 = float(sum(abs(x) for x in p))
        if np.abs(m - Q).max() > 1e-10 * (1 + l1):
            ph = phase_dist(m, Q) < 1e-9
            c.bad('qiskit-matrix-differs' + ('-by-global-phase-only' if ph else ''),
                  f'qasm name {r[1]!r} at p={fmt(p)}: max |U - qiskit {qcls.__name__}| = {np.abs(m - Q).max():.3g}')
            return
    state['qiskit'] = qcls.__name__


# ---------------------------------------------------------------- judge
def judge(item: dict) -> tuple[list[tuple[str, str]], dict]:
    if item.get('kind') == 'eqhash':
        return judge_eqhash(item)
    spec = item['spec']
    seed = item.get('seed', 0)
    thorough = item.get('tier') == 'thorough'
    cls = GR.spec_class(spec)
    c = V(cls, GR.show(spec))
    r = call(GR.build, spec)
    c.n('gates')
    if r[0] != 'ok':
        c.bad(f'constructor-raises-{r[1]}', r[2])
        return c.v, c.stats
    g = r[1]
    state: dict = {'cls': cls}
    try:
        state['num_params'] = int(g.num_params)
        state['radixes'] = tuple(int(x) for x in g.radixes)
        state['dim'] = int(np.prod(state['radixes']))
        if int(g.dim) != state['dim'] or int(g.num_qudits) != len(state['radixes']):
            c.bad('advertised-dim-or-num_qudits-inconsistent-with-radixes',
                  f'dim={g.dim} num_qudits={g.num_qudits} radixes={g.radixes}')
    except Exception as e:
        c.bad(f'attributes-raise-{type(e).__name__}', str(e)[:160])
        return c.v, c.stats
    pts = points(state['num_params'], seed, thorough, bool(item.get('light')))
    if cls == 'VariableLocationGate':
        # The gate is the unitary closest to a convex combination of
        # placements; where the largest location parameters tie, that
        # combination is (numerically) singular and the projection is not
        # well defined (two evaluations of the same formula differ by
        # rounding/sigma_min).  Such points are outside what is judged.
        ni = state['num_params'] - len(GR.decode(spec['args'][1]))
        keep = [q for q in pts if _vlg_selects_a_location(q[ni:])]
        c.n('points_skipped_location_parameters_tie', len(pts) - len(keep))
        pts = _vlg_saturated(spec, state, seed) + keep
    c.n('points', len(pts))
    for k, p in enumerate(pts):
        clause_point(g, p, c, k, state)
    clause_calc(g, c, state, seed, pts)
    if not item.get('skip_optimize'):
        clause_optimize(g, c, state, seed, pts)
    clause_algebra(spec, g, c, state, seed, pts)
    clause_expr(g, c, state, pts)
    clause_qiskit(spec, g, c, state, pts)
    # same construction twice
    r2 = call(GR.build, spec)
    if r2[0] == 'ok':
        h = r2[1]
        c.n('hash_pairs')
        eq = call(lambda: g == h)
        if eq[0] != 'ok':
            c.bad(f'eq-raises-{eq[1]}', eq[2])
        elif eq[1] is True or eq[1] is np.True_:
            ha, hb = call(hash, g), call(hash, h)
            if ha[0] != 'ok' or hb[0] != 'ok':
                c.bad(f'hash-raises-{(ha if ha[0] != "ok" else hb)[1]}', 'gate is not hashable')
            elif ha[1] != hb[1]:
                c.bad('hash-differs-for-the-same-construction', 'built twice: == but different hash')
        else:
            c.bad('same-construction-built-twice-is-not-equal', f'== gives {eq[1]!r}')
    c.stats['info'] = {
        'num_params': state['num_params'], 'radixes': list(state['radixes']),
        'differentiable': state.get('differentiable', True), 'qiskit': state.get('qiskit'),
        'locally_optimizable': isinstance(g, LocallyOptimizableUnitary),
        'general': hasattr(g, 'calc_params'),
    }
    return c.v, c.stats


def judge_eqhash(item: dict) -> tuple[list[tuple[str, str]], dict]:
    """All pairs inside a group of constructions: == implies equal hash."""
    specs = item['specs']
    c = V('pairs', 'group ' + item.get('group', ''))
    gates = []
    for s in specs:
        r = call(GR.build, s)
        if r[0] == 'ok':
            gates.append((s, r[1]))
    seed = item.get('seed', 0)
    fp: list[Any] = []
    for _, a in gates:
        try:
            us = [_U(a, generic_vector(a.num_params, seed, k)) for k in (0, 1)]
            fp.append((type(a), tuple(a.radixes), a.num_params, us))
        except Exception:
            fp.append(None)
    for i in range(len(gates)):
        for j in range(i + 1, len(gates)):
            (sa, a), (sb, b) = gates[i], gates[j]
            eq = call(lambda: a == b)
            c.n('hash_pairs')
            pair = f'{GR.show(sa)} vs {GR.show(sb)}'
            if eq[0] != 'ok':
                V.bad(c, f'eq-raises-{eq[1]}', f'{pair}: {eq[2]}')
                continue
            same = bool(eq[1]) if not (eq[1] is NotImplemented) else False
            if same:
                c.n('equal_pairs')
                ha, hb = call(hash, a), call(hash, b)
                cls = GR.spec_class(sa)
                if ha[0] != 'ok' or hb[0] != 'ok':
                    c.cls = cls
                    c.bad(f'hash-raises-{(ha if ha[0] != "ok" else hb)[1]}', pair)
                elif ha[1] != hb[1]:
                    c.cls = cls
                    c.bad('equal-gates-hash-differently', f'{pair}: == is True, hashes {ha[1]} and {hb[1]}')
                # observation: equal although they are different gates
                fa, fb = fp[i], fp[j]
                if fa is None or fb is None:
                    continue
                if fa[1] != fb[1] or fa[2] != fb[2]:
                    c.n('observed_equal_but_different_radixes_or_params')
                elif fa[3][0] is not None and fb[3][0] is not None and np.abs(fa[3][0] - fb[3][0]).max() > 1e-8:
                    c.n('observed_equal_but_different_unitary')
            else:
                fa, fb = fp[i], fp[j]
                if fa is not None and fb is not None and fa[:3] == fb[:3]:
                    if all(x is not None and y is not None and np.abs(x - y).max() <= 1e-12
                           for x, y in zip(fa[3], fb[3])):
                        c.n('observed_same_class_same_unitary_not_equal')
    c.n('groups')
    return c.v, c.stats
