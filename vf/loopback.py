"""In-process runtime: a real `Worker` on a loop-back connection.

The worker's own SUBMIT / SUBMIT_BATCH messages are fed straight back to it
(one task started, the rest delayed, exactly what `recv_incoming` does), so a
whole workflow -- including every `get_runtime().submit/map/next/cancel` a
pass performs -- executes in this process, on the shipped `Worker`,
`RuntimeTask`, `CompilationTask` and `Workflow` code.  This is the
one-worker, zero-preemption schedule of the runtime; other schedules are the
business of vf/world.py.

`LoopbackCompiler` is duck-compatible with `bqskit.compiler.Compiler` for
`bqskit.compile(..., compiler=LoopbackCompiler())`.
"""
from __future__ import annotations

import logging
import pickle
import uuid
from typing import Any

import vf.common  # noqa: F401  (repo selection)
import bqskit.runtime.worker as W
from bqskit.compiler.compiler import Compiler
from bqskit.compiler.task import CompilationTask
from bqskit.runtime.address import RuntimeAddress
from bqskit.runtime.message import RuntimeMessage as M
from bqskit.runtime.task import RuntimeTask

_ORIG_FACTORY = logging.getLogRecordFactory()
_ORIG_THREAD = W.Thread


class LoopbackDeadlock(RuntimeError):
    pass


class TaskError(RuntimeError):
    """The workflow raised (the worker shipped an ERROR message)."""


class _LoopConn:
    def __init__(self) -> None:
        self.w: Any = None
        self.root_result: Any = None
        self.error: Any = None
        self.logs: list = []

    def send(self, mp: tuple) -> None:
        msg, payload = mp
        w = self.w
        if msg == M.SUBMIT:
            w.most_recent_read_submit = payload.unique_id
            w._add_task(payload)
        elif msg == M.SUBMIT_BATCH:
            tasks = list(payload)
            w.most_recent_read_submit = tasks[0].unique_id
            w._add_task(tasks.pop())
            w._delayed_tasks.extend(tasks)
        elif msg == M.RESULT:
            self.root_result = payload
            w._running = False
        elif msg == M.ERROR:
            self.error = payload
            w._running = False
        elif msg == M.CANCEL:
            w._handle_cancel(payload)
        elif msg == M.WAITING:
            if self.root_result is None and self.error is None:
                raise LoopbackDeadlock(
                    'worker went idle before the root task finished',
                )
        elif msg == M.LOG:
            self.logs.append(payload)
        # UPDATE / STARTED: nothing to do

    def recv(self) -> Any:
        raise EOFError


class _NoThread:
    daemon = False

    def __init__(self, *a: Any, **k: Any) -> None:
        pass

    def start(self) -> None:
        pass


def run_task(ctask: CompilationTask) -> Any:
    """Run a CompilationTask to completion on a fresh loop-back worker."""
    conn = _LoopConn()
    logging.setLogRecordFactory(_ORIG_FACTORY)
    W.Thread = _NoThread
    try:
        w = W.Worker(0, conn)
    finally:
        W.Thread = _ORIG_THREAD
    conn.w = w
    old_worker = W._worker
    W._worker = w
    try:
        rt = RuntimeTask(
            (CompilationTask.run, (ctask,), {}),
            RuntimeAddress(-1, 0, 0), 0, tuple(),
            ctask.logging_level, ctask.max_logging_depth,
        )
        w._add_task(rt)
        while w._running:
            w._try_step_next_ready_task()
    finally:
        W._worker = old_worker
        logging.setLogRecordFactory(_ORIG_FACTORY)
    if conn.error is not None:
        err = conn.error
        raise TaskError(err[1] if isinstance(err, tuple) else err)
    # the root result crosses a process boundary in the real runtime
    res = pickle.loads(pickle.dumps(conn.root_result.result))
    leftovers = {
        'tasks': len(w._tasks), 'delayed': len(w._delayed_tasks),
        'mailboxes': len(w._mailboxes),
    }
    run_task.last_leftovers = leftovers  # type: ignore[attr-defined]
    return res


def run_workflow(circuit: Any, workflow: Any, data: dict | None = None,
                 request_data: bool = True) -> Any:
    """Run `workflow` on `circuit`; returns (circuit, PassData)."""
    task = CompilationTask(circuit, workflow)
    task.request_data = request_data
    if data:
        task.data.update(data)
    return run_task(task)


class LoopbackCompiler(Compiler):
    """A `Compiler` whose tasks run on the in-process loop-back worker.

    Subclasses the real class only to satisfy `compile()`'s isinstance test;
    no server is started and no connection is opened.
    """

    def __init__(self) -> None:  # noqa: super().__init__ deliberately skipped
        self._results: dict = {}
        self.p = None
        self.conn = None

    def __del__(self) -> None:
        pass

    def compile(self, circuit: Any, workflow: Any, request_data: bool = False,
                logging_level: Any = None, max_logging_depth: int = -1,
                data: dict | None = None) -> Any:
        return run_workflow(circuit, workflow, data, request_data)

    def submit(self, circuit: Any, workflow: Any, request_data: bool = False,
               logging_level: Any = None, max_logging_depth: int = -1,
               data: dict | None = None) -> Any:
        tid = uuid.uuid4()
        self._results[tid] = run_workflow(
            circuit, workflow, data, request_data,
        )
        return tid

    def result(self, tid: Any) -> Any:
        return self._results.pop(tid)

    def close(self) -> None:
        pass

    def __enter__(self) -> 'LoopbackCompiler':
        return self

    def __exit__(self, *a: Any) -> None:
        pass
