"""Oracles for C01 / C02 / C03, written from the property statements in numpy.

Nothing here calls `Circuit.get_unitary`, `get_statevector`,
`MachineModel.is_compatible` or any cost function of the library: unitaries
are rebuilt from the per-operation gate matrices by explicit tensor
contraction, mappings are applied through explicit index tables, model
conformance is judged from the model *specification* (the plain width / edge
list / gate-name list the harness built the model from).

Conventions (BQSKit's): qudit 0 is the most significant digit of a basis
index; `initial_mapping[i] = j` / `final_mapping[i] = j` say that logical
qudit i starts / ends on physical qudit j.
"""
from __future__ import annotations

from typing import Any, Iterable, Sequence

import numpy as np

import vf.common  # noqa: F401  (repo selection)
from bqskit.ir.gates.barrier import BarrierPlaceholder
from bqskit.ir.gates.circuitgate import CircuitGate
from bqskit.ir.gates.measure import MeasurementPlaceholder
from bqskit.ir.gates.reset import Reset

PLACEHOLDERS = (MeasurementPlaceholder, BarrierPlaceholder, Reset)


# --------------------------------------------------------------- budgets
def budget(eps: float, ops_in: int, ops_out: int) -> float:
    """DESIGN 2.4 "Numerical oracles".

    Every accepted rewrite is within HS cost `eps` of its own target; in the
    distance scale d = sqrt(2 cost) distances of successive rewrites add, so
    k rewrites compose to at most k^2 eps.  k is bounded by the number of
    operations that existed (input + output) plus the four fixed
    whole-circuit stages.  Proportional to synthesis_epsilon, and >= 4 orders
    of magnitude below any semantic error (those give O(1)).
    """
    return float(eps) * float(ops_in + ops_out + 4) ** 2


SEMANTIC = 1e-3
"""A distance above this is a semantic error whatever the seed (a wrong
mapping / skipped pass / sign error gives O(1); an optimiser miss gives
1e-5..1e-7)."""


# ---------------------------------------------------- reading a circuit
def flat_ops(circuit: Any, offset: Sequence[int] | None = None) -> list:
    """[(gate, location, params)] in program order, CircuitGates expanded."""
    out: list = []
    for op in circuit:
        loc = tuple(int(q) for q in op.location)
        if offset is not None:
            loc = tuple(offset[q] for q in loc)
        g = op.gate
        if isinstance(g, CircuitGate):
            sub = g._circuit.copy()
            sub.set_params(op.params)
            out.extend(flat_ops(sub, loc))
        else:
            out.append((g, loc, [float(p) for p in op.params]))
    return out


def count_ops(ops: Iterable) -> int:
    return sum(1 for g, _, _ in ops if not isinstance(g, PLACEHOLDERS))


def unitary_of(ops: list, radixes: Sequence[int]) -> np.ndarray:
    """Ordered product of the operations as a dense matrix.

    The matrix is held as a tensor with one output axis and one input axis
    per qudit; each gate matrix is contracted onto the output axes of its
    location (numpy tensordot + moveaxis; no library simulation involved).
    Placeholders contribute nothing.
    """
    n = len(radixes)
    dim = int(np.prod(radixes))
    T = np.eye(dim, dtype=np.complex128).reshape(tuple(radixes) * 2)
    for g, loc, params in ops:
        if isinstance(g, PLACEHOLDERS):
            continue
        k = len(loc)
        gr = [radixes[q] for q in loc]
        G = np.asarray(g.get_unitary(params), dtype=np.complex128)
        G = G.reshape(tuple(gr) * 2)
        # contract G's input axes (k..2k-1) with T's output axes at loc
        T = np.tensordot(G, T, axes=(list(range(k, 2 * k)), list(loc)))
        # G's output axes are now in front: move them back to loc
        T = np.moveaxis(T, list(range(k)), list(loc))
    return T.reshape(dim, dim)


# ---------------------------------------------------------- mappings
def valid_mapping(p: Any, n: int, m: int) -> bool:
    try:
        p = [int(x) for x in p]
    except Exception:
        return False
    return len(p) == n and len(set(p)) == n and all(0 <= x < m for x in p)


def embed_table(mapping: Sequence[int], n: int, m: int, d: int) -> np.ndarray:
    """idx[x] = index of the m-qudit basis state that holds digit x_i of the
    n-qudit basis state x on qudit mapping[i] and |0> everywhere else."""
    idx = np.zeros(d ** n, dtype=np.int64)
    for x in range(d ** n):
        digits = [(x // d ** (n - 1 - i)) % d for i in range(n)]
        phys = 0
        for i, dig in enumerate(digits):
            phys += dig * d ** (m - 1 - mapping[i])
        idx[x] = phys
    return idx


def induced_matrix(
    V: np.ndarray, pi: Sequence[int], pf: Sequence[int], n: int, m: int,
    d: int,
) -> np.ndarray:
    """M[y, x] = <embed_pf(y)| V |embed_pi(x)>."""
    return V[np.ix_(embed_table(pf, n, m, d), embed_table(pi, n, m, d))]


def hs_cost(U: np.ndarray, M: np.ndarray) -> float:
    N = U.shape[0]
    return float(max(0.0, 1.0 - abs(np.trace(U.conj().T @ M)) / N))


def leak(M: np.ndarray) -> float:
    """Frobenius norm of M^dagger M - I (amplitude lost to the ancillas)."""
    N = M.shape[0]
    return float(np.linalg.norm(M.conj().T @ M - np.eye(N)))


def judge_unitary(
    U: np.ndarray, V: np.ndarray, pi: Sequence[int], pf: Sequence[int],
    n: int, m: int, d: int,
) -> dict:
    M = induced_matrix(V, pi, pf, n, m, d)
    return {'dist': hs_cost(U, M), 'leak': leak(M)}


def judge_state(
    psi: np.ndarray, V: np.ndarray, pf: Sequence[int], n: int, m: int, d: int,
) -> dict:
    """1 - |<psi| (C|0..0>) read at the final mapping>|, and the norm that
    stayed inside the logical subspace."""
    col = V[:, 0]
    phi = col[embed_table(pf, n, m, d)]
    return {
        'dist': float(max(0.0, 1.0 - abs(np.vdot(psi, phi)))),
        'leak': float(abs(1.0 - np.linalg.norm(phi) ** 2)),
    }


def judge_system(
    ins: np.ndarray, outs: np.ndarray, V: np.ndarray, pi: Sequence[int],
    pf: Sequence[int], n: int, m: int, d: int,
) -> dict:
    """`ins`, `outs`: dim x k, column j is the j-th listed pair.

    O = outs^dagger (M ins) must be one phase times the identity.  Returns
    1 - |tr O| / k (zero iff every pair is reached with one common phase),
    the largest off-diagonal modulus and, generously, the per-pair worst
    1 - |O_jj| (each listed input reaches its listed output up to a phase of
    its own) -- the statement only says "maps every listed input state to its
    listed output state", so the verdict uses the per-pair number; the
    common-phase number is recorded.
    """
    M = induced_matrix(V, pi, pf, n, m, d)
    O = outs.conj().T @ (M @ ins)
    k = O.shape[0]
    diag = np.abs(np.diag(O))
    off = O - np.diag(np.diag(O))
    return {
        'dist': float(max(0.0, 1.0 - diag.min())),
        'dist_common_phase': float(max(0.0, 1.0 - abs(np.trace(O)) / k)),
        'offdiag': float(np.abs(off).max()) if k > 1 else 0.0,
        'leak': float(abs(k - np.linalg.norm(M @ ins) ** 2)),
    }


# --------------------------------------------------------- measurements
def measurement_view(ops: list) -> dict:
    """What the placeholders of a flat op list say.

    Returns {'regs': sorted [(name,size)], 'meas': {qudit: [reg, idx]},
    'loc_ok': every placeholder sits exactly on the qudits it names,
    'trailing': no non-placeholder operation follows a placeholder on one of
    its qudits, 'count': number of placeholders}.
    """
    regs: dict = {}
    meas: dict = {}
    loc_ok = True
    trailing = True
    measured: set = set()
    count = 0
    dup = False
    for g, loc, _ in ops:
        if isinstance(g, MeasurementPlaceholder):
            count += 1
            for name, size in g.classical_regs:
                regs[str(name)] = int(size)
            keys = [int(q) for q in g.measurements.keys()]
            if sorted(keys) != sorted(loc):
                loc_ok = False
            for q, (name, idx) in g.measurements.items():
                if int(q) in meas:
                    dup = True
                meas[int(q)] = [str(name), int(idx)]
            measured.update(loc)
        elif not isinstance(g, PLACEHOLDERS):
            if measured.intersection(loc):
                trailing = False
    return {
        'regs': sorted([k, v] for k, v in regs.items()),
        'meas': {str(q): meas[q] for q in sorted(meas)},
        'loc_ok': loc_ok, 'trailing': trailing, 'count': count, 'dup': dup,
    }


def judge_measurements(in_ops: list, out_ops: list, pf: Sequence[int]) -> dict:
    """The output's placeholder(s) must measure exactly {pf[q]} for the
    measured logical q into the same classical bits."""
    a = measurement_view(in_ops)
    b = measurement_view(out_ops)
    want = {str(int(pf[int(q)])): c for q, c in a['meas'].items()}
    ok = (
        want == b['meas'] and b['loc_ok'] and not b['dup']
        and (a['regs'] == b['regs'] or not a['meas'])
        and b['trailing']
    )
    kind = ''
    if not ok:
        if b['count'] == 0 and a['count'] > 0:
            kind = 'dropped'
        elif want != b['meas']:
            if sorted(want.values()) == sorted(b['meas'].values()):
                kind = 'wrong-qudits'
            else:
                kind = 'wrong-bits'
        elif not b['loc_ok']:
            kind = 'location-differs-from-table'
        elif not b['trailing']:
            kind = 'not-trailing'
        elif b['dup']:
            kind = 'duplicated'
        else:
            kind = 'registers-differ'
    return {'ok': ok, 'kind': kind, 'want': want, 'got': b['meas']}


# ------------------------------------------------------- executability
def same_gate(g: Any, h: Any) -> bool:
    """Gate identity judged from public attributes (not Gate.__eq__)."""
    if type(g) is not type(h):
        return False
    if tuple(g.radixes) != tuple(h.radixes):
        return False
    if g.num_params != h.num_params:
        return False
    if g.num_params == 0:
        try:
            return bool(np.allclose(
                np.asarray(g.get_unitary()), np.asarray(h.get_unitary()),
                atol=1e-12,
            ))
        except Exception:
            return g == h
    if type(g).__module__.startswith('bqskit.ir.gates.composed'):
        return bool(g == h)
    return True


def judge_executable(
    ops: list, width: int, radixes: Sequence[int], model_n: int,
    model_radixes: Sequence[int], model_edges: Iterable, model_gates: list,
    placement: Sequence[int] | None = None, exact_width: bool = True,
) -> dict:
    """The three conditions of C02, from the model *specification*.

    `exact_width=True` is what the statement demands of compile() output
    (width and radixes equal the model's).  With a `placement` (or
    `exact_width=False`) the first condition is the one `is_compatible` is
    documented for: the circuit fits and every qudit has the radix of the
    machine qudit it is placed on.
    """
    edges = {frozenset((int(a), int(b))) for a, b in model_edges}
    if placement is None:
        placement = list(range(width))
    bad_gates: list = []
    bad_edges: list = []
    for g, loc, _ in ops:
        if isinstance(g, PLACEHOLDERS):
            continue
        if not any(same_gate(g, h) for h in model_gates):
            if g.name not in bad_gates:
                bad_gates.append(g.name)
        if len(loc) > 1:
            for i in range(len(loc)):
                for j in range(i + 1, len(loc)):
                    a, b = loc[i], loc[j]
                    if a >= len(placement) or b >= len(placement):
                        bad_edges.append([a, b])
                        continue
                    e = frozenset((placement[a], placement[b]))
                    if e not in edges and [a, b] not in bad_edges:
                        bad_edges.append([a, b])
    if exact_width:
        shape_ok = (
            width == model_n and tuple(radixes) == tuple(model_radixes)
        )
    else:
        shape_ok = width <= model_n and len(placement) >= width and all(
            0 <= placement[i] < model_n
            and radixes[i] == model_radixes[placement[i]]
            for i in range(width)
        )
    return {
        'shape_ok': bool(shape_ok), 'bad_gates': sorted(bad_gates),
        'bad_edges': bad_edges[:4],
        'ok': bool(shape_ok and not bad_gates and not bad_edges),
    }
