"""C09: run and judge a batch of placement/layout/routing cases inside one
task of the real in-process Worker.

A case is a dict
    {'flow': 'sabre'|'pam', 'w': logical width, 'ops': tagged op spec
     (vf.c08_model), 'm': machine size, 'edges': [[a, b], ...],
     'pre': None | block size (input pre-partitioned by QuickPartitioner),
     'placement': 'greedy'|'trivial'|'static', 'layout': n layout passes,
     'params': [decay_delta, extended_set_size, decay_reset_on_gate]}
"""
from __future__ import annotations

import functools
import re
import signal
import warnings
from typing import Any

import numpy as np

import vf.common  # noqa: F401
from bqskit.compiler.basepass import BasePass
from bqskit.compiler.machine import MachineModel
from bqskit.compiler.passdata import PassData
from bqskit.compiler.workflow import Workflow
from bqskit.ir.circuit import Circuit
from bqskit.ir.gates import BarrierPlaceholder
from bqskit.ir.gates import CircuitGate
from bqskit.ir.gates import SwapGate
from bqskit.passes.mapping.apply import ApplyPlacement
from bqskit.passes.mapping.pam import PermutationAwareMappingAlgorithm
from bqskit.passes.mapping.sabre import GeneralizedSabreAlgorithm
from vf import c08_model as M8
from vf import c09_model as M

TOL = 1e-9          # SABRE flow only adds swaps: exact
PAM_TOL = 1e-5      # Hilbert-Schmidt cost; blocks are re-synthesised at 1e-8

# ------------------------------------------------------------------ probes
PROBE: dict[str, int] = {}
_MODE = ['-']
_PLACEMENTS: list = []
_installed = [False]


def _reset_probe() -> None:
    for k in ('escape:layout-forward', 'escape:layout-backward',
              'escape:routing-forward', 'escape:pam-forward',
              'forward_passes', 'backward_passes', 'swaps_popped'):
        PROBE[k] = 0
    del _PLACEMENTS[:]


def install_probes() -> None:
    """Wrap (never edit) the library methods whose execution we want to see.

    `_uphill_swaps` is only called from the local-minimum escape
    (`len(leading_swaps) > 5 * n` -> pop the leading swaps -> uphill swaps);
    counting its calls counts how often that branch ran."""
    if _installed[0]:
        return
    _installed[0] = True
    import bqskit.utils.random as R
    if not hasattr(R.find_library, 'cache_info'):
        # seed_random_sources() shells out to ldconfig on every call
        R.find_library = functools.lru_cache(None)(R.find_library)

    G = GeneralizedSabreAlgorithm
    orig_up = G._uphill_swaps
    orig_fw = G.forward_pass
    orig_bw = G.backward_pass
    orig_pfw = PermutationAwareMappingAlgorithm.forward_pass
    orig_apply = ApplyPlacement.run

    def up(self: Any, *a: Any, **k: Any) -> Any:
        PROBE['escape:' + _MODE[0]] = PROBE.get('escape:' + _MODE[0], 0) + 1
        return orig_up(self, *a, **k)

    def fw(self: Any, circuit: Any, pi: Any, cg: Any,
           modify_circuit: bool = False) -> Any:
        _MODE[0] = 'routing-forward' if modify_circuit else 'layout-forward'
        PROBE['forward_passes'] += 1
        try:
            return orig_fw(self, circuit, pi, cg, modify_circuit)
        finally:
            _MODE[0] = '-'

    def bw(self: Any, *a: Any, **k: Any) -> Any:
        _MODE[0] = 'layout-backward'
        PROBE['backward_passes'] += 1
        try:
            return orig_bw(self, *a, **k)
        finally:
            _MODE[0] = '-'

    def pfw(self: Any, *a: Any, **k: Any) -> Any:
        _MODE[0] = 'pam-forward'
        PROBE['forward_passes'] += 1
        try:
            return orig_pfw(self, *a, **k)
        finally:
            _MODE[0] = '-'

    async def apply_run(self: Any, circuit: Any, data: Any) -> None:
        _PLACEMENTS.append(list(data.placement))
        await orig_apply(self, circuit, data)

    G._uphill_swaps = up                      # type: ignore
    G.forward_pass = fw                       # type: ignore
    G.backward_pass = bw                      # type: ignore
    PermutationAwareMappingAlgorithm.forward_pass = pfw  # type: ignore
    ApplyPlacement.run = apply_run            # type: ignore


# ---------------------------------------------------------------- workflow
def build_workflow(case: dict) -> tuple[list, MachineModel]:
    from bqskit.passes import GeneralizedSabreLayoutPass
    from bqskit.passes import GeneralizedSabreRoutingPass
    from bqskit.passes import GreedyPlacementPass
    from bqskit.passes import QuickPartitioner
    from bqskit.passes import SetModelPass
    from bqskit.passes import TrivialPlacementPass
    from bqskit.passes.mapping.placement.static import StaticPlacementPass
    m = case['m']
    model = MachineModel(m, [tuple(e) for e in case['edges']])
    wf: list = []
    if case.get('pre'):
        wf.append(QuickPartitioner(int(case['pre'])))
    wf.append(SetModelPass(model))
    if case['flow'] == 'pam':
        from bqskit.compiler.compile import \
            build_seqpam_mapping_optimization_workflow
        wf.append(build_seqpam_mapping_optimization_workflow(
            4, 1e-8, block_size=3,
        ))
        return wf, model
    wf.append({
        'greedy': GreedyPlacementPass, 'trivial': TrivialPlacementPass,
        'static': StaticPlacementPass,
    }[case['placement']]())
    dd, ess, rog = case['params']
    if case['layout'] > 0:
        wf.append(GeneralizedSabreLayoutPass(
            int(case['layout']), float(dd), 5, bool(rog), int(ess), 0.5,
        ))
    wf.append(GeneralizedSabreRoutingPass(
        float(dd), 5, bool(rog), int(ess), 0.5,
    ))
    wf.append(ApplyPlacement())
    return wf, model


REFUSALS = (
    'The trivial placement is not valid',          # TrivialPlacementPass
    'Cannot layout circuit on disconnected qudits',  # after a placement pass
    'Cannot route circuit on disconnected qudits',   # found no placement
)


def _slug(msg: str) -> str:
    msg = re.sub(r'[0-9]+', 'N', msg.strip().splitlines()[-1])
    msg = re.sub(r'[^A-Za-z]+', '-', msg).strip('-').lower()
    return msg[:60]


def leaves(circuit: Circuit) -> list[tuple]:
    """Leaf operations in program order: (gate, global location, params,
    nesting depth); CircuitGates expanded with the outer parameters."""
    out: list[tuple] = []

    def walk(circ: Circuit, locmap: tuple, params: Any, depth: int) -> None:
        off = 0
        for op in circ:
            k = op.num_params
            p = list(op.params) if params is None else list(
                params[off:off + k])
            off += k
            loc = tuple(locmap[q] for q in op.location)
            if isinstance(op.gate, CircuitGate):
                walk(op.gate._circuit, loc, p, depth + 1)
            else:
                out.append((op.gate, loc, p, depth))

    walk(circuit, tuple(range(circuit.num_qudits)), None, 0)
    return out


def describe(case: dict) -> str:
    g = 'edges=' + ','.join(f'{a}-{b}' for a, b in case['edges'])
    s = (f"{case['flow']} {M8.describe(case['ops'])} (width {case['w']}) on "
         f"{case['m']} qudits {g}")
    if case['flow'] == 'sabre':
        s += (f" placement={case['placement']} layout_passes={case['layout']}"
              f" decay_delta={case['params'][0]} extended_set="
              f"{case['params'][1]} reset_on_gate={case['params'][2]}")
    if case.get('pre'):
        s += f" pre-partitioned(block_size={case['pre']})"
    return s


def start_case(case: dict, seed: int) -> tuple:
    _reset_probe()
    w = case['w']
    circ = M8.build(w, case['ops'])
    with warnings.catch_warnings():
        warnings.simplefilter('ignore')
        wf, model = build_workflow(case)
    work = circ.copy()
    data = PassData(work)
    data.seed = seed
    coro = Workflow(wf).run(work, data)
    return coro, (circ, work, data)


def finish_case(case: dict, st: tuple, exc: BaseException | None) -> tuple:
    """-> (outcome label, [(signature, what)], flags)"""
    circ, out, data = st
    flow = case['flow']
    w, m, edges = case['w'], case['m'], case['edges']
    desc = describe(case)
    flags = dict(PROBE)
    flags['nontrivial'] = 0
    if exc is not None:
        msg = f'{type(exc).__name__}: {exc}'
        if flow == 'sabre' and any(r in msg for r in REFUSALS):
            # legitimate only when the chosen placement really is
            # disconnected in the machine
            pl = list(data.placement)
            if not M.connected(pl, edges):
                return 'refused:' + case['placement'] + \
                    '-placement-disconnected', [], flags
        who = flow if flow == 'pam' else _failing_pass(msg, case)
        return 'raised', [(
            f'{who}-raises-{type(exc).__name__}-{_slug(str(exc))}',
            f'{desc}: {msg.strip().splitlines()[-1][:200]}',
        )], flags

    fails: list[tuple[str, str]] = []
    init = [int(x) for x in data.initial_mapping]
    final = [int(x) for x in data.final_mapping]
    # (1) mappings injective into the machine
    for name, mp in (('initial', init), ('final', final)):
        if len(mp) != w or len(set(mp)) != w or \
                any(q < 0 or q >= m for q in mp):
            fails.append((
                f'{flow}-{name}-mapping-not-injective-into-machine',
                f'{desc}: {name}_mapping={mp}',
            ))
    if out.num_qudits != m:
        fails.append((
            f'{flow}-output-width-differs-from-machine',
            f'{desc}: output has {out.num_qudits} qudits',
        ))
    if fails:
        return 'fail', fails, flags
    # (2) the placement that was applied is a connected set
    if not _PLACEMENTS:
        fails.append((f'{flow}-placement-never-applied', desc))
    else:
        pl = _PLACEMENTS[-1]
        want = w if flow == 'sabre' else len(pl)
        if len(set(pl)) != len(pl) or len(pl) != want or \
                any(q < 0 or q >= m for q in pl) or not M.connected(pl, edges):
            who = case['placement'] if flow == 'sabre' else 'pam'
            fails.append((
                f'{who}-placement-not-a-connected-set',
                f'{desc}: placement={pl}',
            ))
        elif flow == 'sabre' and (set(init) != set(pl) or
                                  set(final) != set(pl)):
            fails.append((
                f'{flow}-mappings-leave-the-placement',
                f'{desc}: placement={pl} initial={init} final={final}',
            ))
    # (3) every multi-qudit operation of the output (a block counts as one
    # operation: routing a block only promises a connected span) acts on
    # qudits that induce a connected subgraph of the machine
    lv = leaves(out)
    for op in out:
        loc = tuple(op.location)
        if len(loc) >= 2 and not isinstance(op.gate, BarrierPlaceholder):
            if not M.connected(loc, edges):
                kind = 'swap' if isinstance(op.gate, SwapGate) else (
                    'block' if isinstance(op.gate, CircuitGate) else 'gate')
                fails.append((
                    f'{flow}-{kind}-on-uncoupled-qudits',
                    f'{desc}: {op.gate.name} at {loc}',
                ))
                break
    # (4) exact mapping oracle
    uin = M8.unitary_of(w, M8.flatten(circ))
    try:
        mats = [
            (np.asarray(g.get_unitary(p)), loc) for g, loc, p, _ in lv
            if not isinstance(g, BarrierPlaceholder)
        ]
    except Exception as e:  # noqa
        return 'fail', fails + [(
            f'{flow}-output-not-simulable',
            f'{desc}: {type(e).__name__}: {e}',
        )], flags
    uout = M.unitary_of_ops(m, mats)
    ind = M.induced(uout, m, init, final)
    leak = M.unitarity_defect(ind)
    if flow == 'sabre':
        dist = M.phase_distance(uin, ind)
        bad, tol = dist > TOL, TOL
    else:
        dist = M.hs_cost(uin, ind)
        bad, tol = dist > PAM_TOL, PAM_TOL
    if bad:
        # which of the recorded mappings would make it right?
        hint = _diagnose(uin, uout, m, w, init, final, tol, flow)
        fails.append((
            f'{flow}-unitary-differs-under-recorded-mappings{hint}',
            f'{desc}: initial={init} final={final} distance={dist:.3g} '
            f'(induced map unitarity defect {leak:.3g}: '
            f'{"state leaks outside the mapped qudits" if leak > 1e-6 else "no leak"})',
        ))
    # (5) structural walk (SABRE flow): only swaps are added, every input
    # operation appears once at the physical qudits that hold its logical
    # qudits, and the swaps carry initial_mapping to final_mapping
    nswaps = sum(1 for g, *_ in lv if isinstance(g, SwapGate))
    if flow == 'sabre':
        fails += _walk(case, circ, lv, init, final, desc)
    else:
        applied = 0
        if not bad:                 # only meaningful on a correct program
            f, applied = _pam_barriers(case, circ, out, m, init, desc)
            fails += f
        flags['pam_barrier_checks'] = applied
    flags['swaps'] = nswaps
    flags['nontrivial'] = int(
        nswaps > 0 or init != list(range(w)) or final != init,
    )
    flags['identity_mappings'] = int(init == list(range(w)) and final == init)
    return ('ok' if not fails else 'fail'), fails, flags


def _failing_pass(msg: str, case: dict) -> str:
    for key, name in (('placement', case['placement'] + '-placement'),
                      ('layout', 'sabre-layout'), ('rout', 'sabre-routing')):
        if key in msg.lower():
            return name
    return 'sabre'


def _diagnose(uin: np.ndarray, uout: np.ndarray, m: int, w: int, init: list,
              final: list, tol: float, flow: str) -> str:
    """Name the bookkeeping that is wrong, if a permutation of the recorded
    mappings makes the circuit right (causal signature)."""
    import itertools

    def ok(i: list, f: list) -> bool:
        ind = M.induced(uout, m, i, f)
        if flow == 'sabre':
            return M.phase_distance(uin, ind) <= tol
        return M.hs_cost(uin, ind) <= tol

    for f in itertools.permutations(sorted(final)):
        if list(f) != final and ok(init, list(f)):
            return ':final-mapping-wrong'
    for i in itertools.permutations(sorted(init)):
        if list(i) != init and ok(list(i), final):
            return ':initial-mapping-wrong'
    if len(init) > 4:
        # (w!)^2 candidates: the hint is a diagnosis aid, not part of the
        # verdict; on wide circuits say only that no single mapping explains it
        return ':circuit-or-both-mappings-wrong'
    for i in itertools.permutations(sorted(init)):
        for f in itertools.permutations(sorted(final)):
            if ok(list(i), list(f)):
                return ':both-mappings-wrong'
    return ':circuit-wrong'


def _walk(case: dict, circ: Circuit, lv: list, init: list, final: list,
          desc: str) -> list:
    w, m = case['w'], case['m']
    occ: list = [None] * m
    for l, p in enumerate(init):
        occ[p] = l
    tl: list[list[tuple]] = [[] for _ in range(w)]
    for gate, loc, params, depth in lv:
        if isinstance(gate, SwapGate):
            a, b = loc
            occ[a], occ[b] = occ[b], occ[a]
            continue
        lloc = tuple(occ[p] for p in loc)
        if any(x is None for x in lloc):
            kind = M8.kind_of(gate)
            if kind == 'b':
                return [(
                    'sabre-barrier-misplaced',
                    f'{desc}: barrier at physical {loc} covers a qudit that '
                    'holds no logical qudit at that time',
                )]
            return [(
                'sabre-operation-on-unmapped-qudit',
                f'{desc}: {gate.name} at physical {loc}',
            )]
        e = (M8.kind_of(gate), gate.name, lloc,
             tuple(float(x) for x in params))
        for q in lloc:
            tl[q].append(e)
    ref = M8.timelines(w, M8.flatten(circ))
    if tl != ref:
        only_barrier = all(
            [e for e in a if e[0] == 'g'] == [e for e in b if e[0] == 'g']
            for a, b in zip(tl, ref)
        )
        sig = 'sabre-barrier-misplaced' if only_barrier else \
            'sabre-non-swap-operations-differ-from-input'
        q = next(i for i in range(w) if tl[i] != ref[i])
        return [(sig, f'{desc}: logical qudit {q} sees '
                 f'{[(e[1], e[2]) for e in tl[q]]} instead of '
                 f'{[(e[1], e[2]) for e in ref[q]]}')]
    pos = [occ.index(l) for l in range(w)]
    if pos != final:
        return [(
            'sabre-final-mapping-disagrees-with-emitted-swaps',
            f'{desc}: swaps carry initial={init} to {pos}, '
            f'final_mapping={final}',
        )]
    return []


def _pam_barriers(case: dict, circ: Circuit, out: Circuit, m: int,
                  init: list, desc: str) -> tuple[list, int]:
    """Barrier position in the PAM flow (blocks are re-synthesised and may
    permute their qudits, so positions are recovered numerically): cut the
    output at the barrier; the part before it must implement the input's
    prefix with logical qudit l sitting on some physical qudit pos[l]; the
    barrier must then cover exactly {pos[l] : l in the input barrier}.
    Only applied when the input's prefix/suffix are exactly the barrier's
    causal past/future, so that the cut is forced."""
    import itertools
    ops = case['ops']
    w = case['w']
    bars = [i for i, o in enumerate(ops) if o[0] == 'b']
    outl = list(out)
    obars = [i for i, op in enumerate(outl)
             if isinstance(op.gate, BarrierPlaceholder)]
    if not bars or len(bars) != len(obars):
        return [], 0
    # barriers must be totally ordered (each shares a qudit with the next)
    for x, y in zip(bars, bars[1:]):
        if not set(ops[x][1:]) & set(ops[y][1:]):
            return [], 0
    applied = 0
    for bi, oi in zip(bars, obars):
        S = set(ops[bi][1:])
        # the list prefix/suffix must be the barrier's causal past/future
        past = set(S)
        good = True
        for o in reversed(ops[:bi]):
            if past & set(o[1:]):
                past |= set(o[1:])
            else:
                good = False
        fut = set(S)
        for o in ops[bi + 1:]:
            if fut & set(o[1:]):
                fut |= set(o[1:])
            else:
                good = False
        if not good or past != set(range(w)):
            continue                 # cut not forced / position ambiguous
        applied += 1
        uprefix = M8.unitary_of(w, M8.flatten(M8.build(w, ops[:bi])))
        # cut = everything that is not in the causal future of the barrier
        a = Circuit(m)
        tainted = set(outl[oi].location)
        for j, op in enumerate(outl):
            if j == oi:
                continue
            if j > oi and tainted & set(op.location):
                tainted |= set(op.location)
                continue
            a.append(op)
        mats = [(np.asarray(g.get_unitary(p)), loc)
                for g, loc, p, _ in leaves(a)
                if not isinstance(g, BarrierPlaceholder)]
        ua = M.unitary_of_ops(m, mats)
        got = set(outl[oi].location)
        found = []
        for pos in itertools.permutations(range(m), w):
            ind = M.induced(ua, m, init, list(pos))
            if M.unitarity_defect(ind) < 1e-6 and \
                    M.hs_cost(uprefix, ind) <= PAM_TOL:
                found.append(pos)
        if not found:
            return [(
                'pam-barrier-misplaced',
                f'{desc}: barrier on logical {sorted(S)} sits on physical '
                f'{sorted(got)}; it does not separate the input operations '
                'before it from those after it (the whole circuit is right '
                'under the recorded mappings)',
            )], applied
        want = [{p[l] for l in S} for p in found]
        if got not in want:
            return [(
                'pam-barrier-misplaced',
                f'{desc}: barrier on logical {sorted(S)} sits on physical '
                f'{sorted(got)}, but those logical qudits are on '
                f'{sorted(want[0])} at that point',
            )], applied
    return [], applied


SABRE_CPU_LIMIT = 30
"""CPU-seconds one placement+layout+routing run may take (unchanged tree:
milliseconds).  SABRE-style flows contain no numerical search, so a run that
burns this much CPU is looping; it is reported instead of silently eating
the time budget of the whole batch."""


class CaseTimeout(BaseException):
    pass


def _cpu_alarm(signum: int, frame: Any) -> None:
    raise CaseTimeout()


class JudgeBatch(BasePass):
    """Run and judge every case of `cases`."""

    def __init__(self, cases: list, seed: int) -> None:
        self.cases = cases
        self.seed = seed

    async def run(self, circuit: Circuit, data: PassData) -> None:
        install_probes()
        results = []
        for case in self.cases:
            coro, st = start_case(case, self.seed)
            exc: BaseException | None = None
            limited = case['flow'] == 'sabre'
            if limited:
                old = signal.signal(signal.SIGPROF, _cpu_alarm)
                signal.setitimer(signal.ITIMER_PROF, SABRE_CPU_LIMIT)
            try:
                await coro
            except CaseTimeout:
                exc = RuntimeError(
                    'did not return within %d CPU-seconds'
                    % SABRE_CPU_LIMIT)
            except Exception as e:  # noqa: judged, never escapes
                exc = e
            finally:
                if limited:
                    signal.setitimer(signal.ITIMER_PROF, 0)
                    signal.signal(signal.SIGPROF, old)
            results.append(finish_case(case, st, exc))
        data['c09_results'] = results
