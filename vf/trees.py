"""Drivers for the runtime explorations: a small term language of task trees
compiled into real task bodies that call get_runtime().submit/map/next/cancel.

Must be an importable module: task functions travel by reference inside
dill-serialised RuntimeTasks.

tree ::= ['leaf', tag]                      sync body, returns ['v', tag]
       | ['aleaf', tag]                     async body, same value
       | ['raise', tag]                     body raises ValueError('boom-<tag>')
       | ['submit', tree]                   submit child, await -> ['s', value]
       | ['seq', [tree...]]                 submit+await one after the other
       | ['map', [tree...]]                 map children, await -> ['m', [values]]
       | ['mapnext', [tree...]]             map, then next() until complete
       | ['rev2', tree, tree]               two submits awaited in reverse order
       | ['cancel', tree, await_after]      submit, cancel, optionally await
       | ['mapcancel', [tree...]]           map; next(); cancel the rest
       | ['cancel_sib', tree, tree]         submit a, submit b, cancel a, await b
"""
from __future__ import annotations

from typing import Any

from bqskit.compiler.basepass import BasePass
from bqskit.runtime import get_runtime

LOG: list = []          # (event, tag/path, worker id)


def _wid() -> Any:
    try:
        return get_runtime()._id   # type: ignore[attr-defined]
    except Exception:
        return None


def _me() -> Any:
    """(address, breadcrumbs) of the task whose body is running."""
    try:
        t = get_runtime()._active_task   # type: ignore[attr-defined]
        return (tuple(t.return_address),
                tuple(tuple(b) for b in t.breadcrumbs))
    except Exception:
        return None


def leaf(tag: Any) -> Any:
    LOG.append(('run', tag, _wid(), _me()))
    return ['v', tag]


async def aleaf(tag: Any) -> Any:
    LOG.append(('run', tag, _wid(), _me()))
    return ['v', tag]


def raiser(tag: Any) -> Any:
    LOG.append(('run', tag, _wid(), _me()))
    raise ValueError(f'boom-{tag}')


def _fn_args(t: list, path: str) -> tuple:
    k = t[0]
    if k == 'leaf':
        return leaf, (t[1],)
    if k == 'aleaf':
        return aleaf, (t[1],)
    if k == 'raise':
        return raiser, (t[1],)
    return node, (t, path)


async def node(t: list, path: str) -> Any:
    """Body of an inner node."""
    rt = get_runtime()
    LOG.append(('run', 'node:' + path, _wid(), _me()))
    k = t[0]
    if k == 'submit':
        fn, a = _fn_args(t[1], path + '.0')
        f = rt.submit(fn, *a)
        return ['s', await f]
    if k == 'seq':
        out = []
        for i, sub in enumerate(t[1]):
            fn, a = _fn_args(sub, f'{path}.{i}')
            f = rt.submit(fn, *a)
            out.append(await f)
        return ['q', out]
    if k in ('map', 'mapnext', 'mapcancel'):
        subs = t[1]
        if all(s[0] == subs[0][0] and s[0] in ('leaf', 'aleaf', 'raise')
               for s in subs):
            fn = _fn_args(subs[0], path)[0]
            f = rt.map(fn, [s[1] for s in subs])
        else:
            f = rt.map(
                node_or_leaf, subs,
                [f'{path}.{i}' for i in range(len(subs))],
            )
        if k == 'map':
            return ['m', list(await f)]
        if k == 'mapnext':
            got: dict = {}
            batches = []
            while len(got) < len(subs):
                batch = await rt.next(f)
                batches.append([i for i, _ in batch])
                for i, v in batch:
                    if i in got:
                        LOG.append(('dup', f'{path}:{i}', _wid()))
                    got[i] = v
            LOG.append(('batches', path, batches))
            return ['n', [got[i] for i in range(len(subs))]]
        # mapcancel
        batch = await rt.next(f)
        LOG.append(('batches', path, [[i for i, _ in batch]]))
        rt.cancel(f)
        return ['k']
    if k == 'rev2':
        fa, aa = _fn_args(t[1], path + '.0')
        fb, ab = _fn_args(t[2], path + '.1')
        f1 = rt.submit(fa, *aa)
        f2 = rt.submit(fb, *ab)
        y = await f2
        x = await f1
        return ['r', x, y]
    if k == 'cancel':
        fn, a = _fn_args(t[1], path + '.0')
        f = rt.submit(fn, *a)
        rt.cancel(f)
        if t[2]:
            try:
                v = await f
            except RuntimeError:
                return ['c', 'raised']
            LOG.append(('cancelled-value', path, v))
            return ['c', 'value', v]
        return ['c', 'noawait']
    if k == 'cancel_sib':
        fa, aa = _fn_args(t[1], path + '.0')
        fb, ab = _fn_args(t[2], path + '.1')
        f1 = rt.submit(fa, *aa)
        f2 = rt.submit(fb, *ab)
        rt.cancel(f1)
        y = await f2
        return ['cs', y]
    raise ValueError(f'bad tree {t!r}')


async def node_or_leaf(t: list, path: str) -> Any:
    fn, a = _fn_args(t, path)
    if fn is node:
        return await node(*a)
    if fn is aleaf:
        return await aleaf(*a)
    return fn(*a)


def expected(t: list) -> Any:
    """Reference model for the value of a tree (no schedule dependence)."""
    k = t[0]
    if k in ('leaf', 'aleaf'):
        return ['v', t[1]]
    if k == 'raise':
        raise ValueError(f'boom-{t[1]}')
    if k == 'submit':
        return ['s', expected(t[1])]
    if k == 'seq':
        return ['q', [expected(s) for s in t[1]]]
    if k == 'map':
        return ['m', [expected(s) for s in t[1]]]
    if k == 'mapnext':
        return ['n', [expected(s) for s in t[1]]]
    if k == 'mapcancel':
        return ['k']
    if k == 'rev2':
        return ['r', expected(t[1]), expected(t[2])]
    if k == 'cancel':
        return ['c', 'raised'] if t[2] else ['c', 'noawait']
    if k == 'cancel_sib':
        return ['cs', expected(t[2])]
    raise ValueError(f'bad tree {t!r}')


def raises(t: list) -> str | None:
    """Tag of the first raising body that must surface, or None."""
    k = t[0]
    if k == 'raise':
        return str(t[1])
    if k in ('leaf', 'aleaf'):
        return None
    if k == 'submit':
        return raises(t[1])
    if k in ('seq', 'map', 'mapnext'):
        for s in t[1]:
            r = raises(s)
            if r:
                return r
        return None
    if k == 'rev2':
        return raises(t[2]) or raises(t[1])
    if k == 'cancel_sib':
        return raises(t[2])
    return None


def all_raise_tags(t: list) -> list:
    k = t[0]
    if k == 'raise':
        return [str(t[1])]
    if k in ('leaf', 'aleaf'):
        return []
    out = []
    for s in t[1:]:
        if isinstance(s, list):
            if s and isinstance(s[0], str):
                out += all_raise_tags(s)
            else:
                for x in s:
                    if isinstance(x, list):
                        out += all_raise_tags(x)
    return out


def must_run(t: list, path: str = 'r') -> list:
    """Tags/paths of bodies that are never cancelled: each must run exactly
    once in an execution that completes normally."""
    k = t[0]
    if k in ('leaf', 'aleaf', 'raise'):
        return [t[1]]
    out = ['node:' + path]
    if k == 'submit':
        out += must_run(t[1], path + '.0')
    elif k in ('seq', 'map', 'mapnext'):
        for i, s in enumerate(t[1]):
            out += must_run(s, f'{path}.{i}')
    elif k == 'rev2':
        out += must_run(t[1], path + '.0') + must_run(t[2], path + '.1')
    elif k == 'cancel_sib':
        out += must_run(t[2], path + '.1')
    # cancel / mapcancel: children may or may not run
    return out


def may_run(t: list, path: str = 'r') -> list:
    """Tags/paths of bodies that may run at most once (cancelled work)."""
    k = t[0]
    if k in ('leaf', 'aleaf', 'raise'):
        return [t[1]]
    out = ['node:' + path]
    subs = []
    if k in ('submit', 'cancel'):
        subs = [(t[1], path + '.0')]
    elif k in ('seq', 'map', 'mapnext', 'mapcancel'):
        subs = [(s, f'{path}.{i}') for i, s in enumerate(t[1])]
    elif k in ('rev2', 'cancel_sib'):
        subs = [(t[1], path + '.0'), (t[2], path + '.1')]
    for s, p in subs:
        out += may_run(s, p)
    return out


class TreePass(BasePass):
    """The root of a task tree, run as a workflow pass of a real
    CompilationTask."""

    def __init__(self, tree: list, key: str = 'out', root: str = 'r') -> None:
        self.tree = tree
        self.key = key
        self.root = root

    async def run(self, circuit: Any, data: Any) -> None:
        fn, a = _fn_args(self.tree, getattr(self, 'root', 'r'))
        if fn is node:
            v = await node(*a)
        elif fn is aleaf:
            v = await aleaf(*a)
        else:
            v = fn(*a)
        data[self.key] = v
