"""C10 catalogue: pass -> (domain enumerator, option grid, tolerance, postcondition).

One `Row` per shipped transformation pass (DESIGN 3.C10).  Every name exported
by `bqskit.passes` is either covered by a row (`Row.covers`) or listed in
`SKIPPED` with the reason; `uncatalogued()` reports anything that is neither
(it goes into the evidence).

Conventions
* options are JSON dicts; `Row.make(opts, spec, seed)` turns them into the
  workflow (set-up passes such as SetModelPass first, the pass under test
  last) and the initial PassData entries.
* a domain is a list of JSON circuit specs (vf/c10_core.build_circuit), in a
  canonical simplest-first order; `VERIF_SEED` only picks the "generic"
  angles / Haar matrices.
* tolerance is on the Hilbert-Schmidt cost 1-|tr(U^dagger V)|/N.
* `post` returns a list of (tag, text) for every advertised postcondition
  that does not hold; `rejects` names the *documented* reason when the pass
  refuses an input outside its documented domain (allowed).
"""
from __future__ import annotations

import itertools as it
from typing import Any, Callable

import numpy as np

import vf.common  # noqa: F401
import bqskit.passes as P
from bqskit.compiler.basepass import BasePass
from bqskit.compiler.gateset import GateSet
from bqskit.compiler.machine import MachineModel
from bqskit.ir import gates as G
from bqskit.ir.gates import CircuitGate
from bqskit.ir.gates.generalgate import GeneralGate
from bqskit.passes.processing.extract_diagonal import ExtractDiagonalPass
from bqskit.qis.graph import CouplingGraph
from vf.c10_core import PI, SPACER, gate, generic, grid, ops_of
from vf.c10_core import unitary_catalogue

EXACT = 1e-9          # DESIGN 2.4: exact passes
ANALYTIC = 1e-8       # DESIGN 3.C10: analytic decompositions


class Row:
    def __init__(self, name: str, kind: str, **kw: Any) -> None:
        self.name = name
        self.kind = kind                      # exact | numerical | analytic
        self.covers: list[str] = kw.pop('covers', [name])
        self.options: Callable = kw.pop('options', lambda tier, seed: [{}])
        self.domain: Callable = kw.pop('domain')
        self.make: Callable = kw.pop('make')
        self.tol: Callable = kw.pop('tol', lambda opts, spec: EXACT)
        self.post: Callable = kw.pop('post', lambda o, ci, co, d: [])
        self.rejects: Callable = kw.pop('rejects', lambda o, s, e, m: None)
        self.acts_on: Callable = kw.pop('acts_on', lambda o, ci: True)
        self.pre: Callable = kw.pop('pre', lambda opts: None)
        self.timeout: float = kw.pop('timeout', 60.0)
        self.weight: float = kw.pop('weight', 0.005)   # est. seconds / case
        self.reported_failure: Callable = kw.pop(
            'reported_failure', lambda o, ci, co, d: None,
        )
        self.note: str = kw.pop('note', '')
        self.frame: Callable | None = kw.pop('frame', None)
        assert not kw, kw


ROWS: dict[str, Row] = {}


def add(row: Row) -> None:
    assert row.name not in ROWS
    ROWS[row.name] = row


# ------------------------------------------------------------------ helpers
def model_from(mspec: dict | None, n: int) -> MachineModel | None:
    """{'gates': [names], 'radix': r, 'coupling': 'all'|'line'} -> model."""
    if mspec is None:
        return None
    radix = mspec.get('radix', 2)
    gs = GateSet([gate(x) for x in mspec['gates']])
    cg = None
    if mspec.get('coupling') == 'line':
        cg = CouplingGraph([(i, i + 1) for i in range(n - 1)])
    return MachineModel(n, cg, gs, [radix] * n)


def setup(opts: dict, spec: dict, seed: int) -> tuple[list, dict]:
    """Common set-up prefix: the model (if any) and the seed."""
    wf: list = []
    m = model_from(opts.get('model'), len(spec['radixes']))
    if m is not None:
        wf.append(P.SetModelPass(m))
    return wf, {'seed': seed}


def seqs(alphabet: list, max_len: int, min_len: int = 0) -> list[list]:
    out: list[list] = []
    for k in range(min_len, max_len + 1):
        out.extend([list(s) for s in it.product(alphabet, repeat=k)])
    return out


def spec_of(radixes: list[int], ops: list) -> dict:
    return {'radixes': list(radixes), 'ops': [list(o) for o in ops]}


def with_retag(specs: list) -> list:
    """Each spec that holds a parameterised CircuitGate block once more with
    the circuit re-parameterised after it was built (spec['retag'])."""
    def has_param_block(ops: list) -> bool:
        for o in ops:
            if o[0] == '@block' and any(
                    (len(x) > 2 and x[0] != '@block' and x[2])
                    or (x[0] == '@block' and has_param_block([x]))
                    for x in o[2]):
                return True
        return False
    return specs + [dict(s, retag=True) for s in specs
                    if has_param_block(s['ops'])]


def g3(seed: int, k: int = 0) -> list[float]:
    return [generic(seed, k), generic(seed, k + 1), generic(seed, k + 2)]


def gates_in(c: Any) -> set:
    return {op.gate for op in ops_of(c)}


def count_gate(c: Any, g: Any) -> int:
    return sum(1 for op in ops_of(c) if op.gate == g)


def is_block(op: Any) -> bool:
    return isinstance(op.gate, CircuitGate)


def mq_ops(c: Any) -> list:
    return [(op.gate, tuple(op.location)) for op in ops_of(c)
            if op.num_qudits > 1]


# =================================================================== rules
def dom_rule2q(src: str, tgt: str) -> Callable:
    """All circuits of <= L ops on w qudits over {src at every ordered pair,
    U3(generic) on every qudit, tgt at (0,1) and (w-1,0)}; plus the family
    src . U3(a,b,c) . src over the parameter grid."""
    def dom(tier: str, seed: int, opts: dict) -> list[dict]:
        bounds = [(2, 3), (3, 3)] if tier == 'quick' \
            else [(2, 4), (3, 4), (4, 3)]
        out = []
        for w, L in bounds:
            alpha = [[src, list(p), []] for p in it.permutations(range(w), 2)]
            alpha += [['U3', [q], g3(seed, q)] for q in range(w)]
            alpha += [[tgt, [0, 1], []]]
            if w > 2:
                alpha += [[tgt, [w - 1, 0], []]]
            out += [spec_of([2] * w, s) for s in seqs(alpha, L)]
        gr = grid(seed)
        for a, b, c in it.product(gr, repeat=3):
            out.append(spec_of([2, 2], [
                [src, [0, 1], []], ['U3', [1], [a, b, c]], [src, [1, 0], []],
            ]))
        return out
    return dom


def rule_post(src: str, allowed: list[str]) -> Callable:
    def post(opts: dict, cin: Any, cout: Any, data: Any) -> list:
        bad = []
        s = gate(src)
        if count_gate(cout, s):
            bad.append(('source-gate-remains',
                        f'{src} still present after the pass'))
        intro = gates_in(cout) - gates_in(cin)
        extra = intro - {gate(a) for a in allowed}
        if extra:
            bad.append(('introduces-foreign-gate',
                        f'introduced {sorted(map(str, extra))}'))
        return bad
    return post


def _rule(name: str, src: str, tgt: str, allowed: list[str]) -> None:
    cls = getattr(P, name, None)
    if cls is None:   # shipped in bqskit/passes/rules but not re-exported
        from bqskit.passes.rules.cz2cnot import CZToCNOTPass
        cls = {'CZToCNOTPass': CZToCNOTPass}[name]
    add(Row(
        name, 'exact',
        domain=dom_rule2q(src, tgt),
        make=lambda o, s, seed, cls=cls: ([cls()], {'seed': seed}),
        post=rule_post(src, allowed),
        acts_on=lambda o, ci, src=src: count_gate(ci, gate(src)) > 0,
    ))


_rule('CNOTToCZPass', 'CNOT', 'CZ', ['CZ', 'H'])
_rule('CZToCNOTPass', 'CZ', 'CNOT', ['CNOT', 'H'])
_rule('CHToCNOTPass', 'CH', 'CNOT', ['CNOT', 'RY'])
_rule('CNOTToCHPass', 'CNOT', 'CH', ['CH', 'RY'])
_rule('CNOTToCYPass', 'CNOT', 'CY', ['CY', 'S', 'SDG'])
_rule('CYToCNOTPass', 'CY', 'CNOT', ['CNOT', 'S', 'SDG'])
_rule('SwapToCNOTPass', 'SWAP', 'CNOT', ['CNOT'])


# ===================================================== single-qudit rewrites
def dom_1q(tier: str, seed: int, opts: dict) -> list[dict]:
    """1-qudit circuits: every U3 over grid^3 (with signs), every sequence of
    <= L letters; plus the documented rejections (2 qudits, a qutrit)."""
    radix = opts.get('radix', 2)
    out = []
    if radix == 2:
        L = 3 if tier == 'quick' else 4
        if tier == 'quick' and opts:      # non-default option dicts: shorter
            L = 2
        alpha = [['H', [0], []], ['X', [0], []], ['T', [0], []],
                 ['SX', [0], []], ['RZ', [0], [generic(seed, 0)]],
                 ['RY', [0], [PI / 2]], ['U3', [0], g3(seed, 1)]]
        out += [spec_of([2], s) for s in seqs(alpha, L)]
        vals = [0.0, PI / 2, PI, -PI / 2, generic(seed, 5)]
        if tier != 'quick':
            vals += [-PI, 2 * PI, 1e-9, PI - 1e-9, -generic(seed, 6)]
        for a, b, c in it.product(vals, repeat=3):
            out.append(spec_of([2], [['U3', [0], [a, b, c]]]))
        for k in range(4 if tier == 'quick' else 24):
            out.append(spec_of([2], [['@vu', [0], ['haar', 2, 100 + seed + k]]]))
        out.append(spec_of([2, 2], [['H', [0], []]]))
        out.append(spec_of([3], [['H3', [0], []]]))
    else:
        L = 2 if tier == 'quick' else 3
        alpha = [['H3', [0], []], ['X3', [0], []], ['Z3', [0], []],
                 ['@vu', [0], ['haar', 3, 200 + seed]]]
        out += [spec_of([3], s) for s in seqs(alpha, L)]
        out.append(spec_of([3, 3], [['H3', [0], []]]))
    return out


def _rej_1q(what: str) -> Callable:
    def rej(opts: dict, spec: dict, etype: str, msg: str) -> str | None:
        if etype == 'ValueError' and 'multi-qudit circuit' in msg \
                and len(spec['radixes']) != 1:
            return 'documented: multi-qudit circuit'
        if etype == 'ValueError' and 'non-qubit circuit' in msg \
                and spec['radixes'][0] != 2:
            return 'documented: non-qubit circuit'
        return None
    return rej


def _post_only(names: Callable) -> Callable:
    def post(opts: dict, cin: Any, cout: Any, data: Any) -> list:
        allowed = {gate(a) for a in names(opts)}
        extra = gates_in(cout) - allowed
        if extra:
            return [('foreign-gate-in-output',
                     f'output contains {sorted(map(str, extra))}, '
                     f'advertised {sorted(names(opts))}')]
        return []
    return post


add(Row(
    'U3Decomposition', 'exact', domain=dom_1q,
    make=lambda o, s, seed: ([P.U3Decomposition()], {'seed': seed}),
    post=_post_only(lambda o: ['U3']), rejects=_rej_1q('U3'),
))


def _zxzxz_gates(o: dict) -> list[str]:
    gs = (o.get('model') or {}).get('gates', ['CNOT', 'U3'])
    rx = o.get('rx', False) or ('RX' in gs and 'SX' not in gs)
    u1 = o.get('u1', False) or ('U1' in gs and 'RZ' not in gs)
    return ['RX' if rx else 'SX', 'U1' if u1 else 'RZ']


add(Row(
    'ZXZXZDecomposition', 'exact', domain=dom_1q,
    options=lambda tier, seed: [
        {}, {'rx': True}, {'u1': True}, {'rx': True, 'u1': True},
    ] + [
        # every combination of the X-type and Z-type gates a model can
        # offer: the two choices (SX or RX, RZ or U1) are independent
        {'model': {'gates': xs + zs + ['CNOT']}}
        for xs in (['SX'], ['RX'], ['RX', 'SX'])
        for zs in (['RZ'], ['U1'], ['RZ', 'U1'])
    ],
    make=lambda o, s, seed: (
        setup(o, s, seed)[0] + [P.ZXZXZDecomposition(
            o.get('rx', False), o.get('u1', False),
        )], {'seed': seed},
    ),
    post=_post_only(_zxzxz_gates), rejects=_rej_1q('ZXZXZ'),
))


def _gsq_rej(opts: dict, spec: dict, etype: str, msg: str) -> str | None:
    r = _rej_1q('')(opts, spec, etype, msg)
    if r:
        return r
    if etype == 'ValueError' and 'No general single-qudit gate' in msg:
        mr = (opts.get('model') or {}).get('radix', 2)
        gens = [x for x in (opts.get('model') or {'gates': ['U3']})['gates']
                if isinstance(gate(x), GeneralGate)
                and gate(x).num_qudits == 1]
        if mr != spec['radixes'][0] or not gens:
            return 'documented: no general gate of that radix in the model'
    return None


def _gsq_post(opts: dict, cin: Any, cout: Any, data: Any) -> list:
    ops = ops_of(cout)
    if len(ops) != 1 or not isinstance(ops[0].gate, GeneralGate) \
            or ops[0].gate not in data.gate_set:
        return [('not-one-general-gate-of-model',
                 f'output is {[str(o.gate) for o in ops]}')]
    return []


add(Row(
    'GeneralSQDecomposition', 'exact',
    options=lambda tier, seed: [
        {}, {'model': {'gates': ['VU1', 'CNOT']}},
        {'radix': 3, 'model': {'gates': ['VU1_3', 'CSUM3'], 'radix': 3}},
        {'radix': 3},                                   # documented rejection
        {'model': {'gates': ['RZ', 'SX', 'CNOT']}},     # documented rejection
    ],
    domain=dom_1q,
    make=lambda o, s, seed: (
        setup(o, s, seed)[0] + [P.GeneralSQDecomposition()], {'seed': seed},
    ),
    post=_gsq_post, rejects=_gsq_rej,
))


# ======================================================= conversion passes
def dom_conv1q(tier: str, seed: int, opts: dict) -> list[dict]:
    """<= L ops on [2,2] and on the mixed-radix [2,3] over general and
    non-general single-qudit gates and one two-qudit gate."""
    L = 3 if tier == 'quick' else 4
    out = []
    a22 = [['U3', [0], g3(seed)], ['@vu', [1], ['haar', 2, 300 + seed]],
           ['H', [0], []], ['RZ', [1], [generic(seed, 4)]],
           ['CNOT', [1, 0], []], ['U3', [1], [0.0, PI / 2, PI]]]
    out += [spec_of([2, 2], s) for s in seqs(a22, L)]
    a23 = [['U3', [0], g3(seed)], ['@vu', [1], ['haar', 3, 301 + seed]],
           ['H3', [1], []], ['@vu', [0], ['haar', 2, 302 + seed]],
           ['@vu', [0, 1], ['haar', 6, 303 + seed]]]
    out += [spec_of([2, 3], s) for s in seqs(a23, min(L, 3))]
    return out


def _tou3_post(opts: dict, cin: Any, cout: Any, data: Any) -> list:
    bad = []
    for op in ops_of(cout):
        if tuple(op.radixes) != (2,):
            continue
        if opts.get('all') and op.gate != G.U3Gate():
            bad.append(('single-qubit-gate-not-converted', str(op.gate)))
        if isinstance(op.gate, GeneralGate) and op.gate != G.U3Gate():
            bad.append(('general-gate-not-converted', str(op.gate)))
    intro = gates_in(cout) - gates_in(cin) - {G.U3Gate()}
    if intro:
        bad.append(('introduces-foreign-gate', str(sorted(map(str, intro)))))
    return bad[:1]


add(Row(
    'ToU3Pass', 'exact', domain=dom_conv1q,
    options=lambda tier, seed: [{}, {'all': True}],
    make=lambda o, s, seed: ([P.ToU3Pass(o.get('all', False))],
                             {'seed': seed}),
    post=_tou3_post,
    acts_on=lambda o, ci: any(
        tuple(op.radixes) == (2,) and op.gate != G.U3Gate()
        and (o.get('all') or isinstance(op.gate, GeneralGate))
        for op in ops_of(ci)
    ),
))


def _tovar_post(opts: dict, cin: Any, cout: Any, data: Any) -> list:
    bad = []
    for op in ops_of(cout):
        if op.num_qudits != 1:
            continue
        isvu = isinstance(op.gate, G.VariableUnitaryGate)
        if opts.get('all') and not isvu:
            bad.append(('single-qudit-gate-not-converted', str(op.gate)))
        if isinstance(op.gate, GeneralGate) and not isvu:
            bad.append(('general-gate-not-converted', str(op.gate)))
    intro = [g for g in gates_in(cout) - gates_in(cin)
             if not (isinstance(g, G.VariableUnitaryGate)
                     and g.num_qudits == 1)]
    if intro:
        bad.append(('introduces-foreign-gate', str(sorted(map(str, intro)))))
    return bad[:1]


add(Row(
    'ToVariablePass', 'exact', domain=dom_conv1q,
    options=lambda tier, seed: [{}, {'all': True}],
    make=lambda o, s, seed: ([P.ToVariablePass(o.get('all', False))],
                             {'seed': seed}),
    post=_tovar_post,
    acts_on=lambda o, ci: any(
        op.num_qudits == 1
        and not isinstance(op.gate, G.VariableUnitaryGate)
        and (o.get('all') or isinstance(op.gate, GeneralGate))
        for op in ops_of(ci)
    ),
))


_BLK = [['CNOT', [0, 1], []], ['U3', [1], [0.3, 0.4, 0.5]]]


def dom_blocks(tier: str, seed: int, opts: dict) -> list[dict]:
    """<= L ops on 3 qubits over variable / constant / circuit-gate blocks at
    several (also unsorted) locations, nested blocks, and plain gates."""
    L = 3 if tier == 'quick' else 4
    if 'target' in opts:       # BlockConversionPass: 16 option dicts
        L -= 1
    blk = [['CNOT', [0, 1], []], ['U3', [1], g3(seed, 2)]]
    alpha = [
        ['@vu', [0, 1], ['haar', 4, 400 + seed]],
        ['@vu', [2, 0], ['haar', 4, 401 + seed]],
        ['@cu', [1, 2], ['haar', 4, 402 + seed]],
        ['@cu', [1], ['haar', 2, 403 + seed]],
        ['@block', [0, 1], blk],
        ['@block', [2, 1], blk],
        ['@block', [2], [['H', [0], []], ['T', [0], []]]],
        ['@block', [0, 1, 2], [['@block', [2, 0], blk], ['H', [1], []]]],
        ['CNOT', [1, 2], []],
        ['U3', [0], g3(seed, 5)],
    ]
    return with_retag([spec_of([2, 2, 2], s) for s in seqs(alpha, L)])


def _bc_opts(tier: str, seed: int) -> list[dict]:
    return [
        {'target': t, 'variable': v, 'constant': c, 'circuitgates': g}
        for t in ('constant', 'variable')
        for v, c, g in it.product([True, False], repeat=3)
    ]


def _bc_post(opts: dict, cin: Any, cout: Any, data: Any) -> list:
    bad = []
    kinds = {
        'variable': lambda g: isinstance(g, G.VariableUnitaryGate),
        'constant': lambda g: isinstance(g, G.ConstantUnitaryGate),
        'circuitgates': lambda g: isinstance(g, CircuitGate),
    }
    tgt = opts['target']
    for k, isk in kinds.items():
        if k == tgt or not opts[k]:
            continue
        left = [str(op.gate)[:40] for op in ops_of(cout) if isk(op.gate)]
        if left:
            bad.append((f'{k}-not-converted-to-{tgt}',
                        f'convert_{k}=True, convert_target={tgt!r}, but '
                        f'{len(left)} such block(s) remain: {left[0]}'))
    intro = [g for g in gates_in(cout) - gates_in(cin) if not kinds[tgt](g)]
    if intro:
        bad.append(('introduces-foreign-gate', str(sorted(map(str, intro)))))
    return bad[:1]


add(Row(
    'BlockConversionPass', 'exact', domain=dom_blocks, options=_bc_opts,
    make=lambda o, s, seed: ([P.BlockConversionPass(
        o['target'], o['variable'], o['constant'], o['circuitgates'],
    )], {'seed': seed}),
    post=_bc_post,
    acts_on=lambda o, ci: any(
        isinstance(op.gate, (G.VariableUnitaryGate, G.ConstantUnitaryGate,
                             CircuitGate)) for op in ops_of(ci)
    ),
))


add(Row(
    'UnfoldPass', 'exact', domain=dom_blocks,
    make=lambda o, s, seed: ([P.UnfoldPass()], {'seed': seed}),
    post=lambda o, ci, co, d: (
        [('circuit-gate-remains', 'a CircuitGate is left after unfolding')]
        if any(is_block(op) for op in ops_of(co)) else []
    ),
    acts_on=lambda o, ci: any(is_block(op) for op in ops_of(ci)),
))


# ============================================================ utility passes
def dom_compress(tier: str, seed: int, opts: dict) -> list[dict]:
    """<= L letters on 3 qubits; SPACER letters are popped after building so
    that later gates sit in later cycles than necessary."""
    L = 4 if tier == 'quick' else 5
    alpha = [[SPACER, [0], []], [SPACER, [1], []], [SPACER, [2], []],
             ['CNOT', [0, 1], []], ['CNOT', [2, 1], []], ['H', [0], []],
             ['U3', [2], g3(seed)]]
    return [spec_of([2, 2, 2], s) for s in seqs(alpha, L)]


def _same_ops_post(strict_order: bool) -> Callable:
    def post(opts: dict, cin: Any, cout: Any, data: Any) -> list:
        a = [(op.gate, tuple(op.location), tuple(op.params))
             for op in ops_of(cin)]
        b = [(op.gate, tuple(op.location), tuple(op.params))
             for op in ops_of(cout)]
        if strict_order and a != b:
            return [('circuit-changed', 'operation list differs')]
        if sorted(map(str, a)) != sorted(map(str, b)):
            return [('operation-multiset-changed',
                     'operations were added, dropped or altered')]
        if cout.num_cycles > cin.num_cycles:
            return [('depth-increased', 'more cycles than before')]
        return []
    return post


add(Row(
    'CompressPass', 'exact', domain=dom_compress,
    make=lambda o, s, seed: ([P.CompressPass()], {'seed': seed}),
    post=_same_ops_post(False),
    acts_on=lambda o, ci: True,
))


def dom_fill(tier: str, seed: int, opts: dict) -> list[dict]:
    radix = (opts.get('model') or {}).get('radix', 2)
    L = 3 if tier == 'quick' else 4
    if radix == 3:
        alpha = [['CSUM3', [0, 1], []], ['CSUM3', [1, 0], []],
                 ['H3', [0], []], ['X3', [1], []],
                 ['@vu', [1], ['haar', 3, 500 + seed]]]
        return [spec_of([3, 3], s) for s in seqs(alpha, L)]
    pairs = list(it.permutations(range(3), 2))
    if tier == 'quick':
        pairs = [(0, 1), (1, 0), (1, 2), (2, 0)]
        if opts:
            L = 2
    alpha = [['CNOT', list(p), []] for p in pairs]
    alpha += [['U3', [0], g3(seed)], ['H', [1], []], ['T', [2], []],
              ['CCX', [2, 0, 1], []]]
    return [spec_of([2, 2, 2], s) for s in seqs(alpha, L)]


def _fill_post(opts: dict, cin: Any, cout: Any, data: Any) -> list:
    sq = data.gate_set.get_general_sq_gate()
    if mq_ops(cin) != mq_ops(cout):
        return [('multi-qudit-gates-not-preserved',
                 'the sequence of multi-qudit operations changed')]
    n = cout.num_qudits
    per_q: list[list] = [[] for _ in range(n)]
    for op in ops_of(cout):
        for q in op.location:
            per_q[q].append(op)
    for q in range(n):
        for i, op in enumerate(per_q[q]):
            if op.num_qudits == 1:
                if op.gate != sq:
                    return [('single-qudit-gate-not-general',
                             f'{op.gate} on qudit {q}')]
                continue
            for j in (i - 1, i + 1):
                if j < 0 or j >= len(per_q[q]) \
                        or per_q[q][j].num_qudits != 1:
                    side = 'before' if j < i else 'after'
                    return [('missing-single-qudit-gate',
                             f'no single-qudit gate {side} {op.gate}'
                             f'@{tuple(op.location)} on qudit {q}')]
    return []


add(Row(
    'FillSingleQuditGatesPass', 'exact', domain=dom_fill,
    options=lambda tier, seed: [
        {}, {'model': {'gates': ['VU1', 'CZ']}},
        {'model': {'gates': ['VU1_3', 'CSUM3'], 'radix': 3}},
    ],
    make=lambda o, s, seed: (
        setup(o, s, seed)[0] + [P.FillSingleQuditGatesPass()],
        {'seed': seed},
    ),
    post=_fill_post,
))


def dom_extend(tier: str, seed: int, opts: dict) -> list[dict]:
    L = 3 if tier == 'quick' else 4
    if tier == 'quick' and opts:
        L = 2
    blk = [['CNOT', [0, 1], []], ['U3', [1], g3(seed, 2)]]
    alpha = [
        ['@block', [0], [['H', [0], []]]],
        ['@block', [2], [['U3', [0], g3(seed)]]],
        ['@block', [1, 0], blk],
        ['@block', [1, 2], blk],
        ['CNOT', [0, 1], []], ['CNOT', [2, 1], []], ['H', [1], []],
    ]
    out = [spec_of([2, 2, 2], s) for s in seqs(alpha, L)]
    out.append(spec_of([2], [['@block', [0], [['H', [0], []]]]]))
    out.append(spec_of([2, 2], [['@block', [0], [['H', [0], []]]]]))
    return with_retag(out)


def _extend_min(opts: dict) -> int | None:
    """The documented minimum: the option, else the smallest multi-qudit
    gate of the model; None when the model has none (nothing to extend)."""
    if opts.get('min') is not None:
        return opts['min']
    gs = (opts.get('model') or {'gates': ['CNOT', 'U3']})['gates']
    return min((gate(x).num_qudits for x in gs if gate(x).num_qudits > 1),
               default=None)


def _extend_post(opts: dict, cin: Any, cout: Any, data: Any) -> list:
    if cin.num_qudits == 1:
        return []
    m = _extend_min(opts)
    if m is None:
        return _same_ops_post(True)(opts, cin, cout, data)
    small = [op for op in ops_of(cout)
             if is_block(op) and op.num_qudits < m]
    if small:
        return [('block-smaller-than-minimum',
                 f'a {small[0].num_qudits}-qudit block remains, minimum {m}')]
    return []


def _extend_rej(opts: dict, spec: dict, etype: str, msg: str) -> str | None:
    if etype == 'RuntimeError' and 'larger than circuit' in msg:
        m = _extend_min(opts)
        if m is not None and len(spec['radixes']) < m:
            return 'documented: minimum size exceeds the circuit width'
    return None


add(Row(
    'ExtendBlockSizePass', 'exact', domain=dom_extend,
    options=lambda tier, seed: [
        {}, {'min': 2}, {'min': 3}, {'min': 1},
        {'model': {'gates': ['CNOT', 'U3'], 'coupling': 'line'}},
        {'min': 3, 'model': {'gates': ['CNOT', 'U3'], 'coupling': 'line'}},
        {'model': {'gates': ['CCX', 'U3']}},
        {'model': {'gates': ['U3']}},   # no multi-qudit gate in the model
    ],
    make=lambda o, s, seed: (
        setup(o, s, seed)[0] + [P.ExtendBlockSizePass(o.get('min'))],
        {'seed': seed},
    ),
    post=_extend_post, rejects=_extend_rej,
    acts_on=lambda o, ci: any(is_block(op) for op in ops_of(ci)),
))


def dom_group(tier: str, seed: int, opts: dict) -> list[dict]:
    L = 4 if tier == 'quick' else 5
    alpha = [['H', [0], []], ['U3', [1], g3(seed)], ['T', [0], []],
             ['X', [2], []], ['CNOT', [0, 1], []], ['CNOT', [2, 0], []]]
    return [spec_of([2, 2, 2], s) for s in seqs(alpha, L)]


def _group_post(opts: dict, cin: Any, cout: Any, data: Any) -> list:
    n = cout.num_qudits
    per_q: list[list] = [[] for _ in range(n)]
    for op in ops_of(cout):
        for q in op.location:
            per_q[q].append(op)
    for q in range(n):
        for i, op in enumerate(per_q[q]):
            if op.num_qudits == 1 and not is_block(op):
                return [('single-qudit-gate-not-grouped',
                         f'{op.gate} on qudit {q} is outside a block')]
            if i and op.num_qudits == 1 and per_q[q][i - 1].num_qudits == 1:
                return [('consecutive-single-qudit-blocks',
                         f'two adjacent single-qudit blocks on qudit {q}')]
    if mq_ops(cin) != mq_ops(cout):
        return [('multi-qudit-gates-changed', '')]
    return []


add(Row(
    'GroupSingleQuditGatePass', 'exact', domain=dom_group,
    make=lambda o, s, seed: ([P.GroupSingleQuditGatePass()], {'seed': seed}),
    post=_group_post,
    acts_on=lambda o, ci: any(op.num_qudits == 1 for op in ops_of(ci)),
))


def dom_small_mixed(tier: str, seed: int, opts: dict) -> list[dict]:
    L = 2 if tier == 'quick' else 3
    blk = [['CNOT', [0, 1], []], ['@block', [1], [['H', [0], []]]]]
    alpha = [['@block', [0, 1], blk], ['@block', [2, 0], blk],
             ['CNOT', [1, 2], []], ['U3', [0], g3(seed)],
             ['@vu', [1, 2], ['haar', 4, 600 + seed]]]
    return [spec_of([2, 2, 2], s) for s in seqs(alpha, L)]


def _identity_row(name: str, mk: Callable, strict: bool = True) -> None:
    add(Row(
        name, 'exact', domain=dom_small_mixed,
        make=lambda o, s, seed, mk=mk: ([mk()], {'seed': seed}),
        post=_same_ops_post(True) if strict else (lambda o, ci, co, d: []),
        note='utility pass: must leave the circuit untouched',
    ))


_identity_row('NOOPPass', lambda: P.NOOPPass())
_identity_row('LogPass', lambda: P.LogPass('c10'))
_identity_row('RecordStatsPass', lambda: P.RecordStatsPass())
# unfolds the nested blocks it analyses: only the unitary is judged
_identity_row('StructureAnalysisPass', lambda: P.StructureAnalysisPass(), False)
_identity_row('SetRandomSeedPass', lambda: P.SetRandomSeedPass(5))
_identity_row('UpdateDataPass', lambda: P.UpdateDataPass('c10', 1))
_identity_row('ClearAllBlockData', lambda: P.ClearAllBlockData())


# ========================================================= numerical passes
def _only_1q(op: Any) -> bool:
    return op.num_qudits == 1


def _only_2q(op: Any) -> bool:
    return op.num_qudits == 2


_FILTERS = {'1q': _only_1q, '2q': _only_2q}


def _dress(w: int, skel: list, style: str, seed: int) -> list:
    """Single-qudit dressing around a skeleton of two-qudit gates."""
    if style == 'none':
        return [list(o) for o in skel]
    special = [[0.0, 0.0, 0.0], [PI / 2, 0.0, PI], [PI, PI / 2, 0.0]]
    k = [0]

    def u3(q: int) -> list:
        k[0] += 1
        if style == 'generic':
            return ['U3', [q], g3(seed, 3 * k[0])]
        return ['U3', [q], special[k[0] % 3]]
    ops = [u3(q) for q in range(w)]
    for o in skel:
        ops.append(list(o))
        ops += [u3(q) for q in o[1]]
    return ops


def dom_num(tier: str, seed: int, opts: dict) -> list[dict]:
    """Circuits of <= 2 two-qudit source gates (every ordered location) on
    2 (thorough: 2-3) qudits x dressing {none, generic U3s, special-angle
    U3s}; opts['src'] names the source gates, opts['radix'] the radix."""
    radix = opts.get('radix', 2)
    srcs = opts.get('src', ['CSUM3'] if radix == 3 else ['CNOT'])
    widths = [2] if (tier == 'quick' or radix == 3) else [2, 3]
    if opts.get('wide'):
        widths = [3]
    out = []
    for w in widths:
        alpha = [[g, list(p), []] for g in srcs
                 for p in it.permutations(range(w), 2)]
        L = 2 if (w == 2 or tier != 'quick') else 1
        for skel in seqs(alpha, L):
            for style in ('none', 'generic', 'special'):
                if radix == 3:
                    if style == 'special':
                        continue
                    ops = [list(o) for o in skel]
                    if style == 'generic':
                        ops = [['@vu', [0], ['haar', 3, 700 + seed]]] + ops \
                            + [['H3', [1], []]]
                else:
                    ops = _dress(w, skel, style, seed)
                out.append(spec_of([radix] * w, ops))
    if radix == 2:
        # threshold probes: CNOT . RZ(eps) . CNOT with eps such that dropping
        # (or replacing) the RZ costs 30 x threshold -- above the tolerance
        # (10 x), below a x100 slip of the acceptance test; and one whose
        # removal costs threshold / 30 (legitimately removable)
        thr = float(opts.get('thr', 1e-8))
        for c in (30.0 * thr, thr / 30.0):
            eps = float(np.sqrt(8.0 * c))
            out.insert(1, spec_of([2, 2], [
                ['CNOT', [0, 1], []], ['RZ', [1], [eps]], ['CNOT', [0, 1], []],
            ]))
        # identity-valued circuits (everything is removable)
        z = [0.0, 0.0, 0.0]
        out.insert(1, spec_of([2, 2], [['U3', [0], z]]))
        out.insert(2, spec_of([2, 2], [['U3', [0], z], ['U3', [1], z]]))
        out.insert(3, spec_of([2], [['X', [0], []], ['X', [0], []]]))
    return out


def _thr(opts: dict) -> float:
    return float(opts.get('thr', 1e-8))


def _num_tol(opts: dict, spec: dict) -> float:
    # acceptance is always measured against the whole-circuit target, so
    # accepted rewrites do not compound: the pass's threshold x10
    return 10.0 * _thr(opts)


def _kw(opts: dict) -> dict:
    kw: dict[str, Any] = {}
    if 'thr' in opts:
        kw['success_threshold'] = opts['thr']
    if 'left' in opts:
        kw['start_from_left'] = opts['left']
    if 'filter' in opts:
        kw['collection_filter'] = _FILTERS[opts['filter']]
    if 'depth' in opts:
        kw['tree_depth'] = opts['depth']
    return kw


def _counter(c: Any) -> dict:
    d: dict = {}
    for op in ops_of(c):
        d[op.gate] = d.get(op.gate, 0) + 1
    return d


def _removal_post(opts: dict, cin: Any, cout: Any, data: Any) -> list:
    a, b = _counter(cin), _counter(cout)
    if sum(b.values()) > sum(a.values()):
        return [('gate-count-increased',
                 f'{sum(a.values())} -> {sum(b.values())} operations')]
    grown = [str(g) for g in b if b[g] > a.get(g, 0)]
    if grown:
        return [('introduces-gates', f'more {grown} than in the input')]
    f = opts.get('filter')
    if f:
        keep = [op for op in ops_of(cin) if not _FILTERS[f](op)]
        kept = [op for op in ops_of(cout) if not _FILTERS[f](op)]
        if len(kept) < len(keep):
            return [('removed-operation-excluded-by-collection-filter',
                     f'collection_filter={f}: {len(keep) - len(kept)} '
                     'operation(s) the filter excludes were removed')]
    return []


_REMOVAL_NOTE = 'removal pass: never more operations, never new gates'

add(Row(
    'ScanningGateRemovalPass', 'numerical', domain=dom_num,
    options=lambda tier, seed: [
        {}, {'left': False}, {'thr': 1e-5}, {'filter': '1q'},
        {'left': False, 'filter': '2q'},
    ],
    make=lambda o, s, seed: ([P.ScanningGateRemovalPass(**_kw(o))],
                             {'seed': seed}),
    tol=_num_tol, post=_removal_post, weight=0.25, note=_REMOVAL_NOTE,
))

add(Row(
    'TreeScanningGateRemovalPass', 'numerical', domain=dom_num,
    options=lambda tier, seed: [
        {}, {'left': False}, {'depth': 2}, {'left': False, 'depth': 2},
        {'depth': 3}, {'thr': 1e-5, 'depth': 2}, {'filter': '1q', 'depth': 2},
    ],
    make=lambda o, s, seed: ([P.TreeScanningGateRemovalPass(**_kw(o))],
                             {'seed': seed}),
    tol=_num_tol, post=_removal_post, weight=0.4, note=_REMOVAL_NOTE,
))

add(Row(
    'ExhaustiveGateRemovalPass', 'numerical', domain=dom_num,
    options=lambda tier, seed: [{}, {'thr': 1e-5}, {'filter': '1q'}],
    make=lambda o, s, seed: ([P.ExhaustiveGateRemovalPass(**_kw(o))],
                             {'seed': seed}),
    tol=_num_tol, post=_removal_post, weight=1.5, timeout=120.0,
    note=_REMOVAL_NOTE,
))

add(Row(
    'IterativeScanningGateRemovalPass', 'numerical', domain=dom_num,
    options=lambda tier, seed: [
        {}, {'left': False}, {'part': [3, 2], 'wide': True},
        {'part': [3, 2], 'wide': True, 'left': False},
    ],
    make=lambda o, s, seed: ([P.IterativeScanningGateRemovalPass(
        *o.get('part', [5, 3]), **_kw(o),
    )], {'seed': seed}),
    tol=lambda o, s: 10.0 * _thr(o) * (4 if 'part' in o else 1),
    post=_removal_post, weight=0.6,
    note='partitioned branch: per-block thresholds compose, x4 '
         '(k blocks at eps compose to <= k^2 eps, DESIGN 2.4; k <= 2 here)',
))


def _subst_post(opts: dict, cin: Any, cout: Any, data: Any) -> list:
    if len(ops_of(cin)) != len(ops_of(cout)):
        return [('operation-count-changed',
                 f'{len(ops_of(cin))} -> {len(ops_of(cout))}')]
    intro = gates_in(cout) - gates_in(cin) - {gate(opts['gate'])}
    if intro:
        return [('introduces-foreign-gate', str(sorted(map(str, intro))))]
    return []


def _subst_rej(opts: dict, spec: dict, etype: str, msg: str) -> str | None:
    if etype == 'RuntimeError' and 'Cannot substitute' in msg:
        return 'documented: gate wider than the operation'
    return None


add(Row(
    'SubstitutePass', 'numerical', domain=dom_num,
    options=lambda tier, seed: [
        {'filter': '2q', 'gate': 'CZ'}, {'filter': '2q', 'gate': 'CNOT'},
        {'filter': '1q', 'gate': 'RZ'}, {'filter': '2q', 'gate': 'U3'},
        {'filter': '1q', 'gate': 'CNOT'},      # documented rejection
        {'filter': '2q', 'gate': 'SWAP', 'thr': 1e-5},
    ],
    make=lambda o, s, seed: ([P.SubstitutePass(
        _FILTERS[o['filter']], gate(o['gate']), **(
            {'success_threshold': o['thr']} if 'thr' in o else {}),
    )], {'seed': seed}),
    tol=_num_tol, post=_subst_post, rejects=_subst_rej, weight=0.3,
))


def _rebase_post(opts: dict, cin: Any, cout: Any, data: Any) -> list:
    srcs = {gate(x) for x in opts.get('src', ['CNOT'])}
    new = {gate(x) for x in opts['new']}
    left = [str(op.gate) for op in ops_of(cout) if op.gate in srcs - new]
    if left:
        return [('source-gate-remains', f'{left[0]} still present')]
    intro = gates_in(cout) - gates_in(cin)
    sq = gate(opts.get('sq', 'U3'))
    extra = intro - new - {sq}
    if extra:
        return [('introduces-foreign-gate', str(sorted(map(str, extra))))]
    return []


add(Row(
    'Rebase2QuditGatePass', 'numerical', domain=dom_num,
    options=lambda tier, seed: [
        {'new': ['CZ']}, {'new': ['ISWAP']},
        {'new': ['CZ'], 'thr': 1e-6},
        {'new': ['SQRTCNOT'], 'md': 6},
        {'src': ['CNOT', 'SWAP'], 'new': ['CZ']},
        {'new': ['CZ', 'ISWAP'], 'md': 2, 'retries': 1},
    ],
    make=lambda o, s, seed: ([P.Rebase2QuditGatePass(
        [gate(x) for x in o.get('src', ['CNOT'])],
        [gate(x) for x in o['new']],
        max_depth=o.get('md', 3), max_retries=o.get('retries', -1),
        success_threshold=_thr(o), single_qudit_gate=gate(o.get('sq', 'U3')),
    )], {'seed': seed}),
    tol=_num_tol, post=_rebase_post, weight=0.5, timeout=45.0,
    acts_on=lambda o, ci: any(
        op.gate in {gate(x) for x in o.get('src', ['CNOT'])}
        for op in ops_of(ci)
    ),
))


def _auto_post(opts: dict, cin: Any, cout: Any, data: Any) -> list:
    allowed = {g for g in data.gate_set if g.num_qudits == 2}
    left = [str(op.gate) for op in ops_of(cout)
            if op.num_qudits == 2 and op.gate not in allowed]
    if left:
        return [('two-qudit-gate-outside-model', f'{left[0]} remains')]
    return []


add(Row(
    'AutoRebase2QuditGatePass', 'numerical', domain=dom_num,
    options=lambda tier, seed: [
        {'model': {'gates': ['CZ', 'U3']}},
        {'model': {'gates': ['ISWAP', 'VU1']}},
        {'model': {'gates': ['CZ', 'U3']}, 'src': ['CNOT', 'SWAP']},
        {'model': {'gates': ['CNOT', 'U3']}},                 # nothing to do
        {'model': {'gates': ['CZ', 'U3']}, 'thr': 1e-6, 'md': 2,
         'retries': 1},
    ],
    make=lambda o, s, seed: (
        setup(o, s, seed)[0] + [P.AutoRebase2QuditGatePass(
            max_depth=o.get('md', 3), max_retries=o.get('retries', -1),
            success_threshold=_thr(o),
        )], {'seed': seed},
    ),
    tol=_num_tol, post=_auto_post, weight=0.5, timeout=45.0,
    acts_on=lambda o, ci: any(
        op.num_qudits == 2 and op.gate not in
        {gate(x) for x in o['model']['gates']} for op in ops_of(ci)
    ),
))


# ========================================================= synthesis passes
def synth_targets(n: int, seed: int, tier: str) -> list[list]:
    if n == 2:
        return unitary_catalogue(2, seed, 'small' if tier == 'quick' else 'full')
    # 3 qubits: only targets whose optimal circuits are short (a generic
    # 3-qubit unitary costs minutes per synthesis run)
    return [['id', 3], ['x_on', 3, 2], ['h_all', 3], ['cx_on', 3, 0, 1],
            ['cx_on', 3, 2, 0], ['local', 3, 5000 + seed],
            ['perm', 3, [1, 0, 2]]]


def dom_synth(widths_quick: list[int], widths_thorough: list[int]) -> Callable:
    def dom(tier: str, seed: int, opts: dict) -> list[dict]:
        ws = widths_quick if tier == 'quick' else widths_thorough
        out = []
        for n in ws:
            ts = synth_targets(n, seed, tier)
            if n == 3 and tier == 'quick':
                ts = ts[:3]
            if opts.get('few') and tier == 'quick':
                ts = ts[:2] + ts[6:10]
            out += [spec_of([2] * n, [['@cu', list(range(n)), t]])
                    for t in ts]
        return out
    return dom


def _frontier_emptied(opts: dict, cin: Any, cout: Any, warns: list) -> Any:
    if any('Frontier emptied' in w or 'Returning best known' in w
           for w in warns):
        return 'search reported failure (frontier emptied)'
    return None


def _search_kw(o: dict) -> dict:
    kw: dict[str, Any] = {}
    if 'thr' in o:
        kw['success_threshold'] = o['thr']
    if 'max_layer' in o:
        kw['max_layer'] = o['max_layer']
    return kw


_SEARCH_OPTS = lambda tier, seed: [   # noqa: E731
    {}, {'thr': 1e-5}, {'model': {'gates': ['CZ', 'U3']}}, {'max_layer': 1},
]

add(Row(
    'QSearchSynthesisPass', 'numerical', domain=dom_synth([2], [2, 3]),
    options=_SEARCH_OPTS,
    make=lambda o, s, seed: (
        setup(o, s, seed)[0] + [P.QSearchSynthesisPass(**_search_kw(o))],
        {'seed': seed},
    ),
    tol=_num_tol, reported_failure=_frontier_emptied, weight=0.8,
    timeout=150.0,
))

add(Row(
    'LEAPSynthesisPass', 'numerical', domain=dom_synth([2], [2, 3]),
    options=_SEARCH_OPTS,
    make=lambda o, s, seed: (
        setup(o, s, seed)[0] + [P.LEAPSynthesisPass(**_search_kw(o))],
        {'seed': seed},
    ),
    tol=_num_tol, reported_failure=_frontier_emptied, weight=0.8,
    timeout=150.0,
))


def _qfast_post(opts: dict, cin: Any, cout: Any, data: Any) -> list:
    extra = gates_in(cout) - {G.PauliGate(2)}
    if extra:
        return [('foreign-gate-in-output', str(sorted(map(str, extra))))]
    return []


add(Row(
    'QFASTDecompositionPass', 'numerical', domain=dom_synth([2], [2, 3]),
    options=lambda tier, seed: [{}, {'thr': 1e-6}],
    make=lambda o, s, seed: ([P.QFASTDecompositionPass(
        success_threshold=_thr(o),
    )], {'seed': seed}),
    tol=_num_tol, post=_qfast_post, weight=2.0, timeout=150.0,
))

add(Row(
    'QPredictDecompositionPass', 'numerical', domain=dom_synth([2, 3], [2, 3]),
    options=lambda tier, seed: [{}, {'thr': 1e-6}],
    make=lambda o, s, seed: ([P.QPredictDecompositionPass(
        success_threshold=_thr(o),
    )], {'seed': seed}),
    tol=_num_tol, weight=1.0, timeout=20.0,
    note='2-qubit targets take the documented "block too large" skip path',
))


def _pas_frame(opts: dict, u_in: np.ndarray, data: Any) -> np.ndarray:
    """PAS synthesises Po^T U Pi and reports (Pi, Po) as initial / final
    mapping; permutation matrices built here from the definition."""
    from vf.c10_core import perm_matrix
    n = int(round(np.log2(u_in.shape[0])))
    pi = list(data.initial_mapping)
    pf = list(data.final_mapping)
    return perm_matrix(n, pf).T @ u_in @ perm_matrix(n, pi)


def _pas_post(opts: dict, cin: Any, cout: Any, data: Any) -> list:
    n = cin.num_qudits
    ident = list(range(n))
    if not opts.get('ip') and list(data.initial_mapping) != ident:
        return [('input-permuted-though-disabled',
                 f'input_perm=False but initial_mapping='
                 f'{list(data.initial_mapping)}')]
    if not opts.get('op') and list(data.final_mapping) != ident:
        return [('output-permuted-though-disabled',
                 f'output_perm=False but final_mapping='
                 f'{list(data.final_mapping)}')]
    return []


add(Row(
    'PermutationAwareSynthesisPass', 'numerical',
    domain=dom_synth([2], [2, 3]),
    options=lambda tier, seed: [
        {'ip': False, 'op': True, 'few': 1}, {'ip': True, 'op': False, 'few': 1},
        {'ip': True, 'op': True, 'few': 1}, {'ip': False, 'op': False, 'few': 1},
    ],
    make=lambda o, s, seed: ([P.PermutationAwareSynthesisPass(
        input_perm=o['ip'], output_perm=o['op'],
    )], {'seed': seed}),
    tol=_num_tol, frame=_pas_frame, post=_pas_post,
    reported_failure=_frontier_emptied, weight=3.0, timeout=240.0,
))


# =================================================== analytic decompositions
def dom_vu(min_key: str, default_min: int) -> Callable:
    """One VariableUnitaryGate holding every catalogue unitary on n qubits
    (n from just above the pass's minimum size up to 3, thorough 4), plus
    VariableUnitaryGates embedded at unsorted locations among other gates."""
    def dom(tier: str, seed: int, opts: dict) -> list[dict]:
        m = max(1, opts.get(min_key, default_min))
        top = 3 if tier == 'quick' else 4
        out = []
        for n in range(min(m + 1, top), top + 1):
            size = 'small' if (tier == 'quick' or n == 4) else 'full'
            cat_n = unitary_catalogue(n, seed, size)
            if opts.get('scan') and (tier == 'quick' or n == 4):
                cat_n = cat_n[:2] + cat_n[6:8] + cat_n[-2:]   # scans are slow
            for us in cat_n:
                out.append(spec_of([2] * n, [['@vu', list(range(n)), us]]))
        out.append(spec_of([2, 2, 2], [
            ['U3', [0], g3(seed)], ['@vu', [2, 0], ['haar', 4, 800 + seed]],
            ['CNOT', [1, 2], []], ['@vu', [1, 2], ['qft', 2]],
        ]))
        out.append(spec_of([2, 2, 2], [
            ['@vu', [2, 0, 1], ['haar', 8, 801 + seed]], ['H', [1], []],
            ['@vu', [1, 0, 2], ['mcx', 3]],
        ]))
        if tier != 'quick':
            out.append(spec_of([2, 2, 2, 2], [
                ['@vu', [3, 1, 0], ['haar', 8, 802 + seed]],
                ['CNOT', [2, 3], []], ['@vu', [0, 2], ['haar', 4, 803 + seed]],
            ]))
        return out
    return dom


def _max_vu(c: Any) -> int:
    return max([op.num_qudits for op in ops_of(c)
                if isinstance(op.gate, G.VariableUnitaryGate)], default=0)


def _vu_post(min_key: str, default_min: int) -> Callable:
    def post(opts: dict, cin: Any, cout: Any, data: Any) -> list:
        m = opts.get(min_key, default_min)
        full = opts.get('_full', False)
        w_in, w_out = _max_vu(cin), _max_vu(cout)
        if w_in > m and not full and w_out > max(m, w_in - 1):
            return [('wide-variable-unitary-remains',
                     f'a {w_out}-qubit VariableUnitaryGate remains after one '
                     f'round (input {w_in}, min_qudit_size {m})')]
        if full and w_out > max(m, 1):
            return [('wide-variable-unitary-remains',
                     f'a {w_out}-qubit VariableUnitaryGate remains '
                     f'(min_qudit_size {m})')]
        return []
    return post


def _has_wide_vu(min_key: str, default_min: int) -> Callable:
    return lambda o, ci: _max_vu(ci) > o.get(min_key, default_min)


add(Row(
    'QSDPass', 'analytic', domain=dom_vu('m', 4),
    options=lambda tier, seed: [{'m': 2}, {'m': 1}, {'m': 3}, {}],
    make=lambda o, s, seed: ([P.QSDPass(**(
        {'min_qudit_size': o['m']} if 'm' in o else {}))], {'seed': seed}),
    tol=lambda o, s: ANALYTIC, post=_vu_post('m', 4),
    acts_on=_has_wide_vu('m', 4), weight=0.04,
))

add(Row(
    'BlockZXZPass', 'analytic', domain=dom_vu('m', 4),
    options=lambda tier, seed: [{'m': 2}, {'m': 3}, {'m': 1}, {}],
    make=lambda o, s, seed: ([P.BlockZXZPass(**(
        {'min_qudit_size': o['m']} if 'm' in o else {}))], {'seed': seed}),
    tol=lambda o, s: ANALYTIC, post=_vu_post('m', 4),
    acts_on=_has_wide_vu('m', 4), weight=0.05,
))


def _full_kw(o: dict) -> dict:
    kw: dict[str, Any] = {}
    if 'm' in o:
        kw['min_qudit_size'] = o['m']
    if 'scan' in o:
        kw['perform_scan'] = o['scan']
    if 'left' in o:
        kw['start_from_left'] = o['left']
    if 'tree' in o:
        kw['tree_depth'] = o['tree']
    if 'extract' in o:
        kw['perform_extract'] = o['extract']
    return kw


def _full_tol(o: dict, s: dict) -> float:
    # every scan / extraction accepts at 1e-8 against the whole target
    return 1e-7 if (o.get('scan') or o.get('extract', False)) else ANALYTIC


def _full_post(opts: dict, cin: Any, cout: Any, data: Any) -> list:
    return _vu_post('m', 2)(dict(opts, _full=True), cin, cout, data)


add(Row(
    'FullQSDPass', 'analytic', domain=dom_vu('m', 2),
    options=lambda tier, seed: [
        {}, {'m': 1}, {'m': 3}, {'scan': True},
        {'scan': True, 'left': False}, {'scan': True, 'tree': 2},
    ],
    make=lambda o, s, seed: ([P.FullQSDPass(**_full_kw(o))], {'seed': seed}),
    tol=_full_tol, post=_full_post, acts_on=_has_wide_vu('m', 2),
    weight=0.6, timeout=240.0,
))

add(Row(
    'FullBlockZXZPass', 'analytic', domain=dom_vu('m', 2),
    options=lambda tier, seed: [
        {}, {'extract': False}, {'m': 3, 'extract': False},
        {'extract': False, 'scan': True},
        {'extract': False, 'scan': True, 'tree': 2},
        {'m': 3},
    ],
    make=lambda o, s, seed: ([P.FullBlockZXZPass(**_full_kw(o))],
                             {'seed': seed}),
    tol=lambda o, s: 1e-7 if (o.get('scan') or o.get('extract', True))
    else ANALYTIC,
    post=_full_post, acts_on=_has_wide_vu('m', 2), weight=0.6, timeout=240.0,
))


def dom_mpr(tier: str, seed: int, opts: dict) -> list[dict]:
    """Multiplexed RY/RZ gates of width 2-3 (thorough 4), every target
    index, sorted and unsorted locations, parameter vectors all-0, all-pi/2,
    all-pi, generic; alone and between neighbours."""
    out = []
    top = 3 if tier == 'quick' else 4
    for n in range(2, top + 1):
        k = 2 ** (n - 1)
        vecs = [[0.0] * k, [PI / 2] * k, [PI] * k,
                [generic(seed, 10 + j) for j in range(k)]]
        locs = [list(range(n)), list(range(n))[::-1]]
        if n == 3:
            locs.append([1, 2, 0])
        for kind in ('MPRZ', 'MPRY'):
            for t in range(n):
                for loc in locs:
                    for v in vecs:
                        out.append(spec_of([2] * n, [[f'{kind}{n}_{t}', loc, v]]))
        v = vecs[3]
        out.append(spec_of([2] * n, [
            ['H', [0], []], [f'MPRZ{n}_0', list(range(n)), v],
            ['CNOT', [0, 1], []], [f'MPRY{n}_{n - 1}', list(range(n)), v],
            ['U3', [1], g3(seed)],
        ]))
    out.append(spec_of([2, 2, 2], [
        ['MPRZ2_1', [2, 0], [generic(seed, 1), generic(seed, 2)]],
        ['MPRY2_0', [1, 2], [generic(seed, 3), generic(seed, 4)]],
    ]))
    out.append(spec_of([2, 2], [['CNOT', [0, 1], []]]))
    return out


def _mpr_width(c: Any) -> int:
    return max([op.num_qudits for op in ops_of(c)
                if isinstance(op.gate, (G.MPRYGate, G.MPRZGate))], default=0)


def _mgd_post(opts: dict, cin: Any, cout: Any, data: Any) -> list:
    a, b = _mpr_width(cin), _mpr_width(cout)
    if a and b >= a:
        return [('multiplexed-gate-not-decomposed',
                 f'a {b}-qubit multiplexed rotation remains (input width {a})')]
    return []


add(Row(
    'MGDPass', 'analytic', domain=dom_mpr,
    options=lambda tier, seed: [{}, {'twice': False}],
    make=lambda o, s, seed: ([P.MGDPass(o.get('twice', True))],
                             {'seed': seed}),
    tol=lambda o, s: ANALYTIC, post=_mgd_post,
    acts_on=lambda o, ci: _mpr_width(ci) > 0, weight=0.03,
))


def dom_extract(tier: str, seed: int, opts: dict) -> list[dict]:
    """Inputs are produced by the row's pre-pass (one QSD round) from a
    VariableUnitaryGate on qudit_size+1 qubits; plus circuits with at most
    one gate of the requested size (nothing to do)."""
    qs = opts.get('qs', 2)
    n = qs + 1
    size = 'small' if (tier == 'quick' or n == 4) else 'full'
    out = [spec_of([2] * n, [['@vu', list(range(n)), us]])
           for us in unitary_catalogue(n, seed, size)]
    return out


add(Row(
    'ExtractDiagonalPass', 'numerical', domain=dom_extract,
    covers=['ExtractDiagonalPass'],
    options=lambda tier, seed: [{}] if tier == 'quick' else [{}, {'qs': 3}],
    pre=lambda o: [P.QSDPass(min_qudit_size=o.get('qs', 2))],
    make=lambda o, s, seed: ([ExtractDiagonalPass(
        qudit_size=o.get('qs', 2),
    )], {'seed': seed}),
    tol=lambda o, s: 1e-7 * 9,
    weight=0.5, timeout=240.0,
    note='domain = the output of one QSD round (the diagonal commutes '
         'through the multiplexed rotations); up to 3 extractions at 1e-8 '
         'compose to <= 9e-8, x10',
))


def dom_diag(tier: str, seed: int, opts: dict) -> list[dict]:
    out = []
    top = 3 if tier == 'quick' else 4
    for n in range(1, top + 1):
        kinds = [['id', n], ['mcz', n], ['diag_lin', n, generic(seed, 3)],
                 ['diag', n, 2000 + seed], ['diag_pm', n, 5],
                 ['phase_id', n, generic(seed, 4)],
                 ['diag', n, 2001 + seed], ['diag_lin', n, PI / 2]]
        out += [spec_of([2] * n, [['@cu', list(range(n)), us]])
                for us in kinds]
    out.append(spec_of([2, 2], [['CZ', [0, 1], []], ['T', [0], []],
                               ['RZ', [1], [generic(seed, 1)]]]))
    out.append(spec_of([3], [['Z3', [0], []]]))
    return out


def _walsh_rej(opts: dict, spec: dict, etype: str, msg: str) -> str | None:
    if etype == 'ValueError' and 'with qubits' in msg \
            and any(r != 2 for r in spec['radixes']):
        return 'documented: qubits only'
    return None


add(Row(
    'WalshDiagonalSynthesisPass', 'analytic', domain=dom_diag,
    options=lambda tier, seed: [{}, {'prec': 1e-3}],
    make=lambda o, s, seed: ([P.WalshDiagonalSynthesisPass(
        **({'parameter_precision': o['prec']} if 'prec' in o else {}),
    )], {'seed': seed}),
    tol=lambda o, s: ANALYTIC + (
        2 ** len(s['radixes']) * o.get('prec', 1e-8)) ** 2,
    post=_post_only(lambda o: ['CNOT', 'RZ']), rejects=_walsh_rej,
    weight=0.02,
    note='terms below parameter_precision p are dropped: phase error <= '
         '2^n p, cost <= (2^n p)^2',
))


# TAIL
_R_NOTPASS = 'not a pass (predicate / layer generator / heuristic / frontier)'
_R_C08 = 'partitioner: regrouping is property C08'
_R_C09 = 'placement / layout / routing / mapping data: property C09'
_R_C11 = 'control-flow / block-wise combinator: property C11'
_R_IO = 'checkpoint / intermediate file IO, no rewriting of its own'
_R_DATA = 'only writes PassData (model / target / tags), used as set-up here'

SKIPPED: dict[str, str] = {
    **{n: _R_NOTPASS for n in (
        'AStarHeuristic', 'DijkstraHeuristic', 'GreedyHeuristic',
        'HeuristicFunction', 'Frontier', 'LayerGenerator',
        'DiscreteLayerGenerator', 'FourParamGenerator',
        'MiddleOutLayerGenerator', 'SeedLayerGenerator',
        'SimpleLayerGenerator', 'SingleQuditLayerGenerator',
        'StairLayerGenerator', 'WideLayerGenerator', 'PassPredicate',
        'ChangePredicate', 'GateCountPredicate', 'NotPredicate',
        'WidthPredicate', 'PhysicalPredicate', 'SinglePhysicalPredicate',
        'MultiPhysicalPredicate', 'ManyQuditGatesPredicate',
        'NoSingleQuditGatesInModel', 'HasGeneralSingleQuditGate',
        'ZXGatePredicate', 'AllConstantSingleQuditGates',
    )},
    **{n: _R_C08 for n in (
        'ClusteringPartitioner', 'GreedyPartitioner', 'ScanPartitioner',
        'QuickPartitioner', 'GTQCPartitioner', 'TDAGPartitioner',
    )},
    **{n: _R_C09 for n in (
        'ApplyPlacement', 'GreedyPlacementPass', 'TrivialPlacementPass',
        'StaticPlacementPass', 'GeneralizedSabreLayoutPass',
        'GeneralizedSabreRoutingPass', 'PAMLayoutPass', 'PAMRoutingPass',
        'EmbedAllPermutationsPass', 'SubtopologySelectionPass',
        'ExtractModelConnectivityPass', 'RestoreModelConnectivityPass',
        'TagPAMBlockDataPass', 'UnTagPAMBlockDataPass',
        'CalculatePAMErrorsPass', 'PAMVerificationSequence',
    )},
    **{n: _R_C11 for n in (
        'DoThenDecide', 'DoWhileLoopPass', 'WhileLoopPass', 'IfThenElsePass',
        'ForEachBlockPass', 'ParallelDo', 'PassAlias', 'PassGroup',
    )},
    **{n: _R_IO for n in (
        'LoadCheckpointPass', 'SaveCheckpointPass', 'SaveIntermediatePass',
        'RestoreIntermediatePass',
    )},
    'SetModelPass': _R_DATA, 'SetTargetPass': _R_DATA,
    'SynthesisPass': 'abstract base class; its concrete subclasses have rows',
    'LogErrorPass': 'logs PassData.error only; the circuit-untouched check '
                    'is run on its sibling LogPass',
    'ExtractMeasurements': 'moves measurement placeholders out of the '
                           'circuit: not a unitary-preserving rewrite',
    'RestoreMeasurements': 'inverse of ExtractMeasurements, same reason',
}


def uncatalogued() -> list[str]:
    covered = set()
    for r in ROWS.values():
        covered.update(r.covers)
    out = []
    for name in sorted(set(P.__all__)):
        obj = getattr(P, name)
        if name in covered or name in SKIPPED:
            continue
        if isinstance(obj, type) and issubclass(obj, BasePass):
            out.append(name)
        else:
            out.append(name + ' (not a pass)')
    return out
