"""Scenario execution, observation records and the exploration drivers of E1."""
from __future__ import annotations

import collections
import time
from typing import Any, Callable, Iterable

from vf import adapter
from vf import trees
from vf.common import Ctx
from vf.common import HarnessError
from vf.common import pmap
from vf.sched import children
from vf.sched import sparse
from vf.world import World

from bqskit.ir.circuit import Circuit


# ------------------------------------------------------------ client scripts
def _run_script(comp: Any, o: dict, script: list, cname: str = 'cli0') -> None:
    """Generic client program.

    ops: ['compile', tree] ['submit', slot, tree] ['result', slot]
         ['status', slot] ['cancel', slot] ['close'] ['fresh_id', slot]
         ['steal', slot, cli, otherslot]  (use another client's task id)
    Each op appends [op..., 'ok', value] or [op..., 'exc', type, msg].
    The script stops at the first exception unless the op is followed by
    further ops and 'continue_after_exc' is set in the script header.
    """
    import uuid
    ev = o.setdefault('events', [])
    slots = o.setdefault('slots', {})
    cont = False
    for op in script:
        k = op[0]
        if k == 'continue_after_exc':
            cont = True
            continue
        conn0 = comp.conn
        try:
            if k == 'compile':
                _, data = comp.compile(
                    Circuit(1), [trees.TreePass(op[1], root=cname)], True,
                )
                v = data['out']
            elif k == 'submit':
                slots[op[1]] = comp.submit(
                    Circuit(1), [trees.TreePass(op[2], root=cname + ':' + op[1])], True,
                )
                v = None
            elif k == 'fresh_id':
                slots[op[1]] = uuid.UUID(int=10 ** 6 + len(slots))
                v = None
            elif k == 'steal':
                other = World_out()[op[2]]['slots'][op[3]]
                slots[op[1]] = other
                v = None
            elif k in ('result', 'status', 'cancel') and op[1] not in slots:
                # the submit that would have created this id failed (the
                # connection was already gone): so is this call
                raise RuntimeError('Connection unexpectedly none. (the task '
                                   'was never submitted)')
            elif k == 'result':
                r = comp.result(slots[op[1]])
                v = r[1]['out'] if isinstance(r, tuple) else repr(r)
            elif k == 'status':
                v = comp.status(slots[op[1]]).name
            elif k == 'cancel':
                v = comp.cancel(slots[op[1]])
            elif k == 'close':
                comp.close()
                v = None
            elif k == 'sleep':
                from vf import world
                world.S.sleep(op[1])
                v = None
            elif k == 'bqcompile':
                # a real bqskit.compile() on this (real) Compiler: C01's
                # "number of runtime workers / schedule" quantifier
                from vf import c01_world
                v = c01_world.run_case(comp, op[1])
            elif k == 'c11wf':
                # a workflow of real control passes (ParallelDo ...) on this
                # real Compiler: C11's schedule quantifier
                from vf import c11_world
                v = c11_world.run_case(comp, op[1])
            else:
                raise HarnessError(f'bad script op {op}')
            ev.append(list(op[:2]) + ['ok', v])
        except HarnessError:
            raise
        except Exception as e:
            # Compiler drops its only reference to the connection on a
            # failed call (`self.conn = None`); CPython's reference counting
            # then closes the socket at once.  The fake transport keeps
            # registry references, so do that close here.
            if comp.conn is None and conn0 is not None:
                conn0.close()
            cause = e.__cause__
            msg = str(e)[-1500:]
            if cause is not None:
                msg += f' [cause: {type(cause).__name__}: {cause}]'
            ev.append(list(op[:2]) + ['exc', type(e).__name__, msg])
            if not cont:
                break
    o['script_done'] = True


def World_out() -> dict:
    from vf import world
    return world.WORLD.out


# --------------------------------------------------------------- execution
def build_world(spec: dict, choices: Any = (), fault: Any = None,
                expect: Any = None, record_steps: bool = False) -> World:
    line = spec.get('line')
    kw: dict = {}
    if line:
        import bqskit.runtime.worker as W
        import bqskit.runtime.task as T
        kw = dict(
            trace_threads=line if isinstance(line, list) else ['workers'],
            trace_files=[W.__file__, T.__file__],
            trace_funcs=spec.get('line_funcs'),
        )
    w = World(choices, fault, expect=expect, record_steps=record_steps,
              horizon=spec.get('horizon', 20000), **kw)
    topo = spec['topo']
    if topo[0] == 'boss':
        return _build_boss_world(w, spec)
    if topo[0] == 'attached':
        w.attached_server(topo[1])
        first = 'srv.main'
    else:
        w.detached(topo[1])
        first = 'm0.main'
    w.n_clients = len(spec['clients'])
    for i, script in enumerate(spec['clients']):
        w.client(i, lambda comp, o, s=script, i=i: _run_script(comp, o, s, f'cli{i}'))
    w.first = first
    return w


def _build_boss_world(w: World, spec: dict) -> World:
    """Harness (a): one real Worker with its two real threads; the boss side
    of its connection is scripted (vf.world.BossConn)."""
    import bqskit.runtime.worker as W
    from bqskit.compiler.task import CompilationTask
    from bqskit.runtime.address import RuntimeAddress
    from bqskit.runtime.message import RuntimeMessage as M
    from bqskit.runtime.task import RuntimeTask
    from vf.world import BossConn
    script = spec['clients'][0]
    tree = script[0][1]
    o = w.out.setdefault('cli0', {})
    conn = BossConn(spec['topo'][1], o)
    ctask = CompilationTask(Circuit(1), [trees.TreePass(tree, root='cli0')])
    ctask.request_data = True
    rt = RuntimeTask((CompilationTask.run, (ctask,), {}),
                     RuntimeAddress(-1, 0, 0), 0, tuple(), 0, -1)
    conn._push((M.SUBMIT_BATCH, [rt]))

    def main() -> None:
        wk = W.Worker(0, conn)
        w.S.branching = True
        w.boot_steps = w.S.steps
        wk._loop()

    def finalize() -> None:
        r = o.get('root')
        if r is None:
            return
        if r[0] == 'ok':
            val = r[1]
            val = val[1]['out'] if isinstance(val, tuple) else repr(val)
            o['events'] = [['compile', tree, 'ok', val]]
        else:
            o['events'] = [['compile', tree, 'exc', r[1], r[2]]]
        o['script_done'] = True
    w.end_hooks.append(finalize)
    w.spawn('w0.main', main, 'w0', traced=True)
    w.trace_threads = ['w0']
    w.first = 'w0.main'
    return w


def execute(spec: dict, choices: Any = (), fault: Any = None,
            expect: Any = None, record_steps: bool = False,
            monitors: Iterable[Callable] = (), fps: set | None = None) -> dict:
    """Run one schedule of one scenario; return the observation record."""
    trees.LOG.clear()
    w = build_world(spec, choices, fault, expect, record_steps)
    S = w.S
    rec: dict = {'monitor': []}
    deliveries: dict = collections.defaultdict(list)
    sent_up: collections.Counter = collections.Counter()
    batches: list = []

    def on_recv(conn: Any, obj: Any) -> None:
        try:
            msg, p = obj
            name = msg.name
        except Exception:
            return
        if conn.owner and conn.owner.startswith('w') \
                and name in ('SUBMIT', 'SUBMIT_BATCH'):
            ts = p if isinstance(p, list) else [p]
            for t in ts:
                if not hasattr(t, 'return_address'):
                    continue
                a = tuple(t.return_address)
                deliveries[a].append(conn.owner)
                if len(deliveries[a]) > 1:
                    rec['monitor'].append(
                        ('task-delivered-twice', f'{a} -> {deliveries[a]}'))

    def on_send(conn: Any, obj: Any) -> None:
        try:
            msg, p = obj
            name = msg.name
        except Exception:
            return
        w.sent.append((conn.label, name, p))
        if name in ('SUBMIT', 'SUBMIT_BATCH'):
            ts = p if isinstance(p, list) else [p]
            ts = [t for t in ts if hasattr(t, 'return_address')]
            if conn.owner and conn.owner.startswith('w'):
                for t in ts:
                    sent_up[tuple(t.return_address)] += 1
            else:
                batches.append((conn.label, [tuple(t.return_address)
                                             for t in ts]))

    w.on_recv = on_recv   # type: ignore[method-assign]
    w.on_send = on_send   # type: ignore[method-assign]
    for m in monitors:
        w.monitors.append(lambda m=m: m(w, rec))
    if fps is not None:
        w.monitors.append(lambda: fps.add(adapter.fingerprint(w))
                          if S.branching else None)

    def on_end() -> None:
        rec['alive'] = {
            n: (t.kind, t.label) for n, t in S.T.items()
            if t.alive and not t.killed
        }
        rec['workers'] = {
            p: adapter.worker_tables(x) for p, x in w.workers.items()
            if S.proc_alive(p)
        }
        rec['nodes'] = {
            n: adapter.server_tables(x) for n, x in w.nodes.items()
            if S.proc_alive(n)
        }
    w.end_hooks.append(on_end)
    w.run(w.first)
    rec['clients'] = {
        c: {k: v for k, v in o.items() if k in (
            'events', 'script_done', 'done', 'connect_exc', 'program_exc',
            'program_tb', 'booted')}
        for c, o in w.out.items()
    }
    rec['log'] = list(trees.LOG)
    rec['thread_errors'] = list(S.thread_errors)
    rec['errors_sent'] = [
        (lab, p if isinstance(p, str) else p[1] if isinstance(p, tuple)
         else repr(p))
        for (lab, n, p) in w.sent if n == 'ERROR'
    ]
    rec['sent_names'] = collections.Counter(n for (_, n, _) in w.sent)
    rec['deliveries'] = dict(deliveries)
    rec['sent_up'] = dict(sent_up)
    rec['batches'] = batches
    rec['exits'] = list(w.exits)
    rec['quiescent'] = S.quiescent
    rec['cap'] = S.cap
    rec['sched_error'] = S.error
    if w.hook_errors and S.error is None:
        rec['sched_error'] = ('hook', w.hook_errors[0])
    rec['steps'] = S.steps
    rec['boot_steps'] = w.boot_steps
    rec['decisions'] = len(S.log)
    rec['log_entries'] = S.log
    rec['trace'] = S.trace
    rec['wall'] = w.wall
    if record_steps:
        rec['step_kinds'] = S.step_kinds
        rec['dec_at_step'] = S.dec_at_step
    rec['fault_fired'] = S.fault_fired
    rec['procs'] = sorted({t.proc for t in S.T.values()})
    return rec


# ------------------------------------------------------------- exploration
_JUDGES: dict[str, Callable] = {}
_FPS: set = set()


def register_judge(name: str, fn: Callable) -> None:
    _JUDGES[name] = fn


def _import_judges() -> None:
    import vf.judges  # noqa: F401
    import vf.checks.c13  # noqa: F401  (registers the API-history judge)
    import vf.c01_world  # noqa: F401  (registers the world-compile judge)
    import vf.c11_world  # noqa: F401  (registers the ParallelDo judge)


def run_item(item: tuple) -> dict:
    """Worker-side: execute one (spec, choices, fault) and judge it."""
    spec, choices, fault, judge, bound, model, kinds = item
    if not _JUDGES:
        _import_judges()
    fps: set = set()
    rec = execute(spec, choices, fault, fps=fps, monitors=_mon(spec),
                  record_steps=(fault is None and spec.get('want_steps')))
    if rec['sched_error'] is not None and rec['sched_error'][0] == 'timeout':
        # real-time watchdog: only a reproducible stall is a harness bug
        fps = set()
        rec = execute(spec, choices, fault, fps=fps, monitors=_mon(spec),
                      record_steps=(fault is None and spec.get('want_steps')))
    if rec['sched_error'] is not None and spec.get('numeric') \
            and rec['sched_error'][0] == 'divergence':
        # The scenario runs numerical code (a whole bqskit.compile()): the
        # number of tasks it spawns depends on optimiser results that are not
        # bit-reproducible across worker processes, so a prefix recorded in
        # one process may not replay in another.  Such a schedule is counted
        # as not explored (a cap), never judged and never an alarm.
        return {
            'spec': spec['name'], 'choices': sparse(choices), 'fault': fault,
            'verdicts': [], 'outcome': 'diverged(numeric)', 'steps': 0,
            'decisions': 0, 'newfps': set(), 'cap': None, 'children': [],
            'diverged': True,
        }
    if rec['sched_error'] is not None:
        # re-run once: a divergence must be reproducible to be a harness bug
        raise HarnessError(
            f'scheduler error in {spec["name"]} choices={list(choices)} '
            f'fault={fault}: {rec["sched_error"]}')
    verdicts = _JUDGES[judge](spec, rec, fault)
    new = fps - _FPS
    _FPS.update(new)
    out = {
        'spec': spec['name'], 'choices': sparse(choices), 'fault': fault,
        'verdicts': verdicts,
        'outcome': outcome_label(rec),
        'steps': rec['steps'] - rec['boot_steps'],
        'decisions': rec['decisions'],
        'newfps': new,
        'cap': rec['cap'],
    }
    if fault is None:
        out['children'] = children(
            choices, rec['log_entries'], bound, model,
            set(kinds) if kinds else None,
        )
        if spec.get('want_steps'):
            out['boot_steps'] = rec['boot_steps']
            out['total_steps'] = rec['steps']
            out['dec_at_step'] = rec['dec_at_step']
            out['procs'] = rec['procs']
            out['step_kinds'] = rec['step_kinds']
    return out


def outcome_label(rec: dict) -> str:
    parts = []
    for c in sorted(rec['clients']):
        evs = rec['clients'][c].get('events', [])
        parts.append(','.join(
            f'{e[0]}:{e[2]}' + (f':{e[3]}' if e[2] == 'exc' else '')
            + (f':{e[3]["label"]}' if e[2] == 'ok' and isinstance(e[3], dict)
               and 'label' in e[3] else '')
            for e in evs))
    parts.append('W:' + ''.join(str(x[2]) for x in rec['log']
                                if x[0] == 'run')[:40])
    if rec['errors_sent']:
        parts.append('ERR')
    return '|'.join(parts)


def explore(ctx: Ctx, specs: list[dict], judge: str, bound: int,
            model: str = 'deviation', kinds: Any = None,
            deadline: float | None = None, part: str | None = None,
            on_result: Callable | None = None) -> dict:
    """Level-synchronous exhaustive exploration of every schedule of every
    scenario within `bound`; returns statistics.  Violations are reported
    through ctx by the caller-provided judge's verdicts."""
    stats = collections.Counter()
    states: set = ctx.__dict__.setdefault('_states', set())
    byname = {s['name']: s for s in specs}
    frontier = [(s, [], None, judge, bound, model, kinds) for s in specs]
    level = 0
    completed_all = True
    per_spec: dict = collections.defaultdict(collections.Counter)
    while frontier:
        nxt = []
        n_done = 0
        for r in pmap(run_item, frontier, procs=ctx.procs,
                      deadline=deadline, chunksize=4):
            n_done += 1
            if r.get('diverged'):
                stats['diverged_numeric'] += 1
                continue
            stats['executions'] += 1
            stats['transitions'] += r['steps']
            stats['decisions'] += r['decisions']
            states.update(r['newfps'])
            ctx.outcomes[r['spec'] + '/' + r['outcome']] += 1
            ps = per_spec[r['spec']]
            ps['executions'] += 1
            if r['cap']:
                stats['horizon_caps'] += 1
            for (sig, what) in r['verdicts']:
                ctx.violation(sig, what, {
                    'engine': 'E1', 'spec': byname[r['spec']],
                    'choices': r['choices'], 'fault': r['fault'],
                    'judge': judge,
                })
                ps['violating'] += 1
            if stats['executions'] <= 3:
                ctx.sample({'scenario': r['spec'], 'choices': r['choices'],
                            'outcome': r['outcome']})
            if on_result is not None:
                on_result(r)
            for ch in r.get('children', ()):
                nxt.append((byname[r['spec']], ch, None, judge, bound,
                            model, kinds))
        if n_done < len(frontier):
            completed_all = False
            ctx.cap(f'{part or judge}: time cap at level {level} '
                    f'({n_done}/{len(frontier)} of that level executed)')
            break
        # Deal the next level out scenario by scenario (round robin, each
        # scenario's schedules in canonical order): if a time cap interrupts
        # the level, every scenario has had its share instead of the first
        # scenarios of the table having had everything.
        groups: dict = collections.OrderedDict(
            (s['name'], collections.deque()) for s in specs)
        for it_ in sorted(nxt, key=lambda x: repr(x[1])):
            groups[it_[0]['name']].append(it_)
        frontier = []
        queues = [q_ for q_ in groups.values() if q_]
        while queues:
            for q_ in queues:
                frontier.append(q_.popleft())
            queues = [q_ for q_ in queues if q_]
        level += 1
    stats['levels_completed'] = level
    stats['complete'] = completed_all
    if stats['horizon_caps']:
        ctx.cap(f'{part or judge}: {stats["horizon_caps"]} executions hit '
                'the step horizon')
    if stats['diverged_numeric']:
        ctx.cap(f'{part or judge}: {stats["diverged_numeric"]} schedules of '
                'numerical scenarios could not be replayed (optimiser results '
                'not bit-reproducible across processes) and were not judged')
    out = dict(stats)
    out['per_scenario'] = {k: dict(v) for k, v in per_spec.items()}
    return out


def replay_item(spec: dict, choices: list, fault: Any, judge: str) -> list:
    if not _JUDGES:
        _import_judges()
    rec = execute(spec, choices, fault, monitors=_mon(spec))
    if rec['sched_error'] is not None:
        raise HarnessError(f'replay diverged: {rec["sched_error"]}')
    v1 = _JUDGES[judge](spec, rec, fault)
    rec2 = execute(spec, choices, fault, expect=rec["trace"], monitors=_mon(spec))
    if rec2['sched_error'] is not None:
        raise HarnessError(f'second replay diverged: {rec2["sched_error"]}')
    v2 = _JUDGES[judge](spec, rec2, fault)
    if sorted(s for s, _ in v1) != sorted(s for s, _ in v2):
        raise HarnessError(f'non-deterministic verdicts: {v1} vs {v2}')
    return v1


def _mon(spec: dict) -> list:
    if spec.get('monitor') == 'c15':
        from vf import judges
        return [judges.c15_monitor]
    return []


def selftest_item(item: tuple) -> dict:
    """Determinism self-test: run one schedule twice (the second time with
    the first run's (thread, kind) trace as an expectation) and require
    identical observations.  Any difference is a harness error."""
    spec, choices = item[0], item[1]
    if not _JUDGES:
        _import_judges()
    r1 = execute(spec, choices)
    r2 = execute(spec, choices, expect=r1['trace'])
    for r in (r1, r2):
        if r['sched_error'] is not None:
            raise HarnessError(f'selftest {spec["name"]} {choices}: '
                               f'{r["sched_error"]}')
    keys = ('trace', 'log', 'steps', 'clients', 'exits', 'errors_sent')
    for k in keys:
        if r1[k] != r2[k]:
            raise HarnessError(
                f'selftest {spec["name"]} {choices}: {k} differs between two '
                f'runs of the same schedule')
    return {'children': children(choices, r1['log_entries'], item[4],
                                 item[5], None), 'steps': r1['steps']}
