"""Oracles of C19, part B: Circuit.instantiate (and the async multi-start
variant on the loop-back runtime).

The multi-start generator is replaced by a scripted list (module globals
`RandomStartGenerator` of bqskit.ir.opt.instantiater and
bqskit.ir.opt.instantiaters.minimization are rebound for the duration of one
call), the instantiater's single-start `instantiate` is wrapped at class
level to record every candidate, the cost of every candidate is computed here
from `circuit.get_unitary(candidate)`, and the stored parameters must be
those of a candidate of least cost (ties within 1e-12).
"""
from __future__ import annotations

from typing import Any

import numpy as np

import vf.common  # noqa: F401
import bqskit.ir.opt.instantiater as INST_BASE
import bqskit.ir.opt.instantiaters.minimization as INST_MIN
from bqskit.ir.opt.cost.functions import HilbertSchmidtCostGenerator
from bqskit.ir.opt.cost.functions import HilbertSchmidtResidualsGenerator
from bqskit.ir.opt.instantiaters import Minimization
from bqskit.ir.opt.instantiaters import QFactor
from bqskit.ir.opt.minimizers import CeresMinimizer
from bqskit.ir.opt.minimizers import LBFGSMinimizer
from bqskit.ir.opt.minimizers import ScipyMinimizer
from vf.c06_gates import build_circuit
from vf.c06_gates import generic_params
from vf.c06_oracle import Findings
from vf.c06_oracle import scrambled
from vf.c06_ref import reference_unitary
from vf.c19_gates import AsyncInstantiatePass
from vf.c19_gates import ScriptedStarts
from vf.c19_oracle import make_target
from vf.c19_oracle import ref_values

TIE = 1e-12

CONFIGS = {
    # name: (method argument, kwargs factory, instantiater class)
    'default': (None, lambda: {}, None),
    'minimization-ceres': ('minimization', lambda: {}, Minimization),
    'minimization-lbfgs': ('minimization', lambda: {
        'minimizer': LBFGSMinimizer(),
        'cost_fn_gen': HilbertSchmidtCostGenerator()}, Minimization),
    'minimization-scipy': ('minimization', lambda: {
        'minimizer': ScipyMinimizer(),
        'cost_fn_gen': HilbertSchmidtCostGenerator()}, Minimization),
    'minimization-ceres-instance': ('instance', lambda: {
        'minimizer': CeresMinimizer(),
        'cost_fn_gen': HilbertSchmidtResidualsGenerator()}, Minimization),
    'qfactor': ('qfactor', lambda: {}, QFactor),
    'qfactor-instance': ('instance', lambda: {}, QFactor),
}


def structure(circuit: Any) -> list:
    """The grid of (cycle, location, gate), read through the public API."""
    out = []
    for c in range(circuit.num_cycles):
        seen: set[int] = set()
        for q in range(circuit.num_qudits):
            if q in seen or circuit.is_point_idle((c, q)):
                continue
            op = circuit[c, q]
            seen.update(op.location)
            out.append((c, tuple(op.location), op.gate))
    return out


def scripted_starts(P: int, q: list, n: int, seed: int) -> list:
    """n scripted starts; the exact solution of 'own' targets is second."""
    out = []
    for i in range(n):
        if i == 1 and P:
            out.append([float(x) for x in q])
        else:
            out.append(generic_params(P, seed, ('start', i)))
    return out


_REC: list = []
_ORIG: dict = {}


def _record(key: str, inst: Any, circuit: Any, target: Any, x0: Any) -> Any:
    out = _ORIG[key](inst, circuit, target, x0)
    _REC.append((np.array(x0, dtype=np.float64, copy=True),
                 np.array(out, dtype=np.float64, copy=True)))
    return out


def _rec_minimization(inst: Any, circuit: Any, target: Any, x0: Any) -> Any:
    return _record('Minimization', inst, circuit, target, x0)


def _rec_qfactor(inst: Any, circuit: Any, target: Any, x0: Any) -> Any:
    return _record('QFactor', inst, circuit, target, x0)


class _Recorder:
    """Class-level wrappers around Instantiater.instantiate (module-level
    functions, so that runtime tasks pickle them by reference)."""

    def __init__(self) -> None:
        self.rec = _REC

    def __enter__(self) -> '_Recorder':
        del _REC[:]
        _ORIG['Minimization'] = Minimization.instantiate
        _ORIG['QFactor'] = QFactor.instantiate
        Minimization.instantiate = _rec_minimization
        QFactor.instantiate = _rec_qfactor
        self.gen = (INST_BASE.RandomStartGenerator,
                    INST_MIN.RandomStartGenerator)
        INST_BASE.RandomStartGenerator = ScriptedStarts
        INST_MIN.RandomStartGenerator = ScriptedStarts
        return self

    def __exit__(self, *a: Any) -> None:
        Minimization.instantiate = _ORIG['Minimization']
        QFactor.instantiate = _ORIG['QFactor']
        INST_BASE.RandomStartGenerator, INST_MIN.RandomStartGenerator = \
            self.gen


def check_instantiate(case: dict, tspec: list, config: str, nstarts: int,
                      path: str = 'inplace') -> tuple[Findings, str]:
    """One instantiate call; returns (findings, observed outcome label)."""
    seed = int(case['seed'])
    f = Findings(f'{config.split("-")[0]}-{path}')
    circuit = build_circuit(case)
    rad = tuple(int(r) for r in circuit.radixes)
    p0 = [float(x) for x in circuit.params]
    P = len(p0)
    q = scrambled(p0)
    U_other = reference_unitary(circuit, q if P else None)
    kind, target, data = make_target(tspec, rad, seed, U_other)
    before = structure(circuit)
    method, kwf, cls = CONFIGS[config]
    kwargs = kwf()
    if method == 'instance':
        inst = cls(**kwargs)
        call_method, call_kwargs = inst, {}
    else:
        inst = None
        call_method, call_kwargs = method, kwargs
    if cls is not None and not cls.is_capable(circuit):
        return f, 'not-capable'
    ScriptedStarts.script = scripted_starts(P, q, nstarts, seed)
    ScriptedStarts.calls = []
    out_circuit = circuit
    same_object = None
    with _Recorder() as R:
        try:
            if path == 'inplace':
                ret = circuit.instantiate(
                    target, method=call_method, multistarts=nstarts,
                    seed=seed, **call_kwargs,
                )
                same_object = ret is circuit
            else:
                from vf.loopback import run_workflow
                if inst is not None:
                    the_inst = inst
                elif cls is not None:
                    the_inst = cls(**kwargs)
                else:       # default selection: first capable, as the library
                    the_inst = Minimization() \
                        if Minimization.is_capable(circuit) else QFactor()
                out_circuit, pdata = run_workflow(
                    circuit,
                    [AsyncInstantiatePass(the_inst, target, nstarts)],
                )
                same_object = bool(pdata.get('c19_same_object', False))
        except (KeyboardInterrupt, SystemExit):
            raise
        except BaseException as e:  # noqa  (pyo3 panics are BaseExceptions)
            f.add(f'instantiate-raised-{type(e).__name__}',
                  f'{type(e).__name__}: {str(e)[:300]}')
            return f, 'raised'
    rec = list(R.rec)
    if not same_object:
        f.add('instantiate-returns-a-different-object',
              'the returned circuit is not the circuit instantiate was '
              'called on')
    after = structure(out_circuit)
    if tuple(out_circuit.radixes) != rad or len(after) != len(before) or any(
        a[0] != b[0] or a[1] != b[1] or a[2] != b[2]
        for a, b in zip(after, before)
    ):
        f.add('instantiate-changed-structure',
              f'grid before {before!r}, after {after!r}')
        return f, 'structure-changed'
    final = np.array([float(x) for x in out_circuit.params])
    if len(final) != P or not np.all(np.isfinite(final)):
        f.add('instantiate-parameter-vector-invalid',
              f'{P} parameters before, after: {final.tolist()}')
        return f, 'bad-params'
    if ScriptedStarts.calls != [nstarts]:
        f.add('start-generator-not-asked-for-multistarts-points',
              f'gen_starting_points calls: {ScriptedStarts.calls}, '
              f'multistarts={nstarts}')
    if len(rec) != nstarts:
        f.add('number-of-candidates-ne-multistarts',
              f'{len(rec)} single-start instantiations for multistarts='
              f'{nstarts}')
    if not rec:
        return f, 'no-candidates'
    used = sorted(tuple(x0.tolist()) for x0, _ in rec)
    want = sorted(tuple(float(v) for v in s)
                  for s in ScriptedStarts.script[:nstarts])
    if used != want:
        f.add('candidates-not-started-from-the-generated-points',
              f'starts used {used}, generated {want}')
    costs = []
    for _, cand in rec:
        if len(cand) != P:
            f.add('candidate-has-wrong-length', f'{len(cand)} != {P}')
            return f, 'bad-candidate'
        U = np.asarray(out_circuit.get_unitary(list(cand))) if P \
            else np.asarray(out_circuit.get_unitary())
        costs.append(ref_values(kind, data, U)[0])
    best = min(costs)
    chosen = [i for i, (_, cand) in enumerate(rec)
              if np.array_equal(cand, final)]
    if not chosen:
        f.add('stored-parameters-are-no-candidate',
              f'stored {final.tolist()} equals none of the {len(rec)} '
              f'candidates')
        return f, 'not-a-candidate'
    if min(costs[i] for i in chosen) > best + TIE:
        f.add('stored-candidate-not-of-least-cost',
              f'candidate costs {costs}, stored candidate(s) {chosen} with '
              f'cost {[costs[i] for i in chosen]}')
        return f, 'not-least-cost'
    distinct = len({round(c, 9) for c in costs})
    label = ('one-start' if nstarts == 1 else
             'all-candidates-tie' if distinct == 1 else
             'least-cost-kept-first' if chosen[0] == 0 else
             'least-cost-kept-not-first')
    if best <= 1e-8:
        label += '-converged'
    return f, label
