"""Case specifications, builders, the one-compile worker and the result cache
shared by the C01, C02 and C03 checks.

A *case* is a JSON object
    {"input": <input spec>, "model": <model spec or null>,
     "level": 1..4, "mss": max_synthesis_size, "eps": synthesis_epsilon}
`run_case((case, seed, use_cache))` performs ONE `bqskit.compile` through the
loop-back runtime and judges the result with every oracle of
`vf.c01_oracle`; the three checks differ in which cases they enumerate and
which fields of the record they read.
"""
from __future__ import annotations

import hashlib
import itertools as it
import json
import os
import re
import signal
import time
from pathlib import Path
from typing import Any

import numpy as np

import vf.common  # noqa: F401  (repo selection)
from vf import c01_oracle as O
from vf.common import VERIF
from vf.common import stable_hash

# `seed_random_sources` resolves libc with ctypes.util.find_library on every
# pass and every instantiation call; that forks `ldconfig -p` (50 ms+ each,
# 2 s of a 2.6 s trivial compile).  The answer is a constant of the machine:
# memoise it in this process.  Semantics of the code under test unchanged.
import functools  # noqa: E402
import bqskit.utils.random as _R  # noqa: E402

if not hasattr(_R.find_library, 'cache_info'):
    _R.find_library = functools.lru_cache(maxsize=None)(_R.find_library)

# The workflows log warnings ("may have trouble targeting gate sets ...");
# without a handler they reach stderr through logging.lastResort.
import logging  # noqa: E402

logging.getLogger('bqskit').addHandler(logging.NullHandler())

# =========================================================== gate registry


def _gates() -> dict:
    from bqskit.ir import gates as G
    from bqskit.ir.gates.parameterized.u1q import U1qPi2Gate, U1qPiGate
    return {
        'U3': G.U3Gate(), 'T': G.TGate(), 'H': G.HGate(), 'S': G.SGate(),
        'X': G.XGate(), 'SX': G.SXGate(), 'RZ': G.RZGate(),
        'RX': G.RXGate(), 'RY': G.RYGate(), 'Z': G.ZGate(),
        'U1': G.U1Gate(),
        'CNOT': G.CNOTGate(), 'CZ': G.CZGate(), 'ISWAP': G.ISwapGate(),
        'SWAP': G.SwapGate(), 'CCX': G.CCXGate(), 'RZZ': G.RZZGate(),
        'U1qPi': U1qPiGate, 'U1qPi2': U1qPi2Gate,
        'PhasedXZ': G.PhasedXZGate(), 'SYC': G.SycamoreGate(),
        'SqrtISWAP': G.SqrtISwapGate(),
        'CSUM3': G.CSUMGate(3), 'SHIFT3': G.ShiftGate(3),
        'CLOCK3': G.ClockGate(3), 'H3': G.HGate(3),
        'VU3': G.VariableUnitaryGate(1, [3]),
        'CPHASE3': G.ArbitraryCPhaseGate([3, 3]),
    }


_GATES: dict | None = None


def gate(name: str) -> Any:
    global _GATES
    if _GATES is None:
        _GATES = _gates()
    return _GATES[name]


# ============================================================ model specs
LINE3 = [[0, 1], [1, 2]]
LINE4 = [[0, 1], [1, 2], [2, 3]]
STAR4 = [[0, 1], [0, 2], [0, 3]]
RING4 = [[0, 1], [1, 2], [2, 3], [0, 3]]
ALL3 = [[0, 1], [0, 2], [1, 2]]
TREE5 = [[0, 1], [0, 2], [1, 3], [1, 4]]
GRID22 = [[0, 1], [2, 3], [0, 2], [1, 3]]

GS_DEFAULT = ['CNOT', 'U3']
GS_ZX = ['CZ', 'RZ', 'SX']
GS_ISWAP = ['ISWAP', 'U3']
GS_CONST = ['CNOT', 'H', 'T']
GS_CZ_ONLY = ['CZ']
GS_CZ_U3 = ['CZ', 'U3']
GS_QUTRIT = ['CSUM3', 'VU3']
GS_RIGETTI = ['SX', 'X', 'RZ', 'CZ', 'ISWAP']       # bqskit.ext ankaa_gate_set
GS_QUANTINUUM = ['U1qPi', 'U1qPi2', 'RZ', 'RZZ']    # quantinuum_gate_set


def model_spec(n: int, edges: list | None, gates: list, d: int = 2,
               name: str = '', vendor: str | None = None) -> dict:
    if edges is None:
        edges = [[a, b] for a in range(n) for b in range(a + 1, n)]
    m = {'n': n, 'edges': edges, 'gates': list(gates), 'd': d,
         'name': name or f'{n}q'}
    if vendor:
        m['vendor'] = vendor
    return m


def connected_graphs(n: int) -> list:
    """Every connected graph on n labelled vertices, up to isomorphism
    (brute force over edge subsets, canonical form by vertex permutation)."""
    pairs = [(a, b) for a in range(n) for b in range(a + 1, n)]
    seen: dict = {}
    for r in range(n - 1, len(pairs) + 1):
        for es in it.combinations(pairs, r):
            adj = {v: set() for v in range(n)}
            for a, b in es:
                adj[a].add(b)
                adj[b].add(a)
            todo, got = [0], {0}
            while todo:
                v = todo.pop()
                for w in adj[v]:
                    if w not in got:
                        got.add(w)
                        todo.append(w)
            if len(got) != n:
                continue
            canon = min(
                tuple(sorted(tuple(sorted((p[a], p[b]))) for a, b in es))
                for p in it.permutations(range(n))
            )
            seen.setdefault(canon, [list(e) for e in canon])
    return [seen[k] for k in sorted(seen, key=lambda c: (len(c), c))]


def build_model(ms: dict | None) -> tuple:
    """(MachineModel | None, list of the native gate objects)."""
    if ms is None:
        return None, None
    from bqskit.compiler.machine import MachineModel
    if ms.get('vendor') == 'rigetti-ankaa':
        from bqskit.ext.rigetti import ankaa_gate_set
        gs = list(ankaa_gate_set)
    elif ms.get('vendor') == 'quantinuum':
        from bqskit.ext.quantinuum import quantinuum_gate_set
        gs = list(quantinuum_gate_set)
    else:
        gs = [gate(g) for g in ms['gates']]
    model = MachineModel(
        ms['n'], [tuple(e) for e in ms['edges']], set(gs),
        [ms['d']] * ms['n'],
    )
    return model, gs


# ============================================================ input specs
def generic_angles(seed: int, idx: int, k: int = 3) -> list:
    """The few "generic" constants of the alphabet (AUTHORING rule 1): they
    depend on the seed, never on which cases run."""
    rng = np.random.default_rng([12345, int(seed), int(idx)])
    return [round(float(x), 6) for x in rng.uniform(0.3, 2.8, size=k)]


def circuit_spec(n: int, ops: list, d: int = 2, barrier: int | None = None,
                 measure: list | None = None, blocked: bool = False) -> dict:
    s: dict = {'kind': 'circuit', 'n': n, 'd': d, 'ops': ops}
    if barrier is not None:
        s['barrier'] = barrier
    if measure is not None:
        s['measure'] = measure
    if blocked:
        s['blocked'] = True
    return s


def build_circuit(s: dict) -> Any:
    from bqskit.ir.circuit import Circuit
    from bqskit.ir.gates.barrier import BarrierPlaceholder
    from bqskit.ir.gates.measure import MeasurementPlaceholder
    n, d = s['n'], s.get('d', 2)
    c = Circuit(n, [d] * n)
    for i, op in enumerate(s['ops']):
        if s.get('barrier') == i:
            c.append_gate(BarrierPlaceholder(n, [d] * n), list(range(n)))
        name, loc = op[0], op[1]
        params = op[2] if len(op) > 2 else []
        c.append_gate(gate(name), loc, params)
    if s.get('barrier') is not None and s['barrier'] >= len(s['ops']):
        c.append_gate(BarrierPlaceholder(n, [d] * n), list(range(n)))
    if s.get('blocked'):
        from vf.loopback import run_workflow
        from bqskit.passes.partitioning.quick import QuickPartitioner
        c, _ = run_workflow(c, [QuickPartitioner(2)])
    if s.get('measure') is not None:
        qs = list(s['measure'])
        meas = {q: ('c', i) for i, q in enumerate(qs)}
        c.append_gate(MeasurementPlaceholder([('c', len(qs))], meas), qs)
    return c


# ---- unitary catalogue (each entry rebuildable from its JSON "gen")
_H = np.array([[1, 1], [1, -1]]) / np.sqrt(2)
_S = np.diag([1, 1j])
_I2 = np.eye(2)
_CNOT = np.eye(4)[[0, 1, 3, 2]]
_CZ = np.diag([1, 1, 1, -1])
_SWAP = np.eye(4)[[0, 2, 1, 3]]
_GEN2 = {
    'HI': np.kron(_H, _I2), 'IH': np.kron(_I2, _H), 'SI': np.kron(_S, _I2),
    'CNOT': _CNOT, 'CZ': _CZ, 'SWAP': _SWAP,
}


def _cliffords1() -> list:
    """The 24 single-qubit Cliffords modulo phase (closure of H, S)."""
    found: list = []

    def key(u: np.ndarray) -> tuple:
        flat = u.flatten()
        k = next(i for i, z in enumerate(flat) if abs(z) > 1e-9)
        u = u * (abs(flat[k]) / flat[k])
        return tuple(np.round(u.flatten(), 6).tolist())
    seen = {key(np.eye(2)): np.eye(2, dtype=complex)}
    todo = [np.eye(2, dtype=complex)]
    while todo:
        u = todo.pop(0)
        found.append(u)
        for g in (_H, _S):
            v = g @ u
            if key(v) not in seen:
                seen[key(v)] = v
                todo.append(v)
    assert len(found) == 24
    return found


def _haar(dim: int, seed: int, idx: int) -> np.ndarray:
    rng = np.random.default_rng([777, int(seed), int(idx), dim])
    z = rng.normal(size=(dim, dim)) + 1j * rng.normal(size=(dim, dim))
    q, r = np.linalg.qr(z)
    return q * (np.diag(r) / np.abs(np.diag(r)))


def _qft(dim: int) -> np.ndarray:
    w = np.exp(2j * np.pi / dim)
    return np.array([[w ** (i * j) for j in range(dim)]
                     for i in range(dim)]) / np.sqrt(dim)


def build_unitary(gen: list, seed: int) -> tuple:
    """(matrix, n, d) for a catalogue entry."""
    k = gen[0]
    if k == 'clifford1':
        return _cliffords1()[gen[1]], 1, 2
    if k == 'T':
        return np.diag([1, np.exp(1j * np.pi / 4)]), 1, 2
    if k == 'generic':
        _, n, d, idx = gen
        return _haar(d ** n, seed, idx), n, d
    if k == 'perm':
        p = gen[1]
        dim = len(p)
        n = {2: 1, 4: 2, 8: 3, 16: 4}[dim]
        return np.eye(dim)[:, p], n, 2
    if k == 'diag':
        v = [complex(*x) if isinstance(x, list) else x for x in gen[1]]
        return np.diag(v), int(np.log2(len(v))), 2
    if k == 'prod2':
        u = np.eye(4, dtype=complex)
        for g in gen[1]:
            u = _GEN2[g] @ u
        return u, 2, 2
    if k == 'identity':
        _, n, d = gen
        return np.eye(d ** n), n, d
    if k == 'nearid':
        _, n, e = gen
        dim = 2 ** n
        rng = np.random.default_rng([99, dim])
        a = rng.normal(size=(dim, dim)) + 1j * rng.normal(size=(dim, dim))
        h = (a + a.conj().T) / 2
        h = h / np.linalg.norm(h, 2)
        w, v = np.linalg.eigh(h)
        return (v * np.exp(1j * e * w)) @ v.conj().T, n, 2
    if k in ('qperm', 'qperm_cx'):
        # the unitary that moves qubit q to position p[q] (a relabelling of
        # the wires: costs nothing once the output permutation is free),
        # optionally preceded by CNOT(0,1); 3-cycles are the smallest qudit
        # permutations that differ from their inverses
        p = gen[1]
        n = len(p)
        u = np.zeros((2 ** n, 2 ** n))
        for x in range(2 ** n):
            bits = [(x >> (n - 1 - q)) & 1 for q in range(n)]
            y = [0] * n
            for q in range(n):
                y[p[q]] = bits[q]
            u[sum(b << (n - 1 - i) for i, b in enumerate(y)), x] = 1
        if k == 'qperm_cx':
            cx = np.eye(4)[[0, 1, 3, 2]]
            u = u @ np.kron(cx, np.eye(2 ** (n - 2)))
        return u, n, 2
    if k == 'toffoli':
        return np.eye(8)[[0, 1, 2, 3, 4, 5, 7, 6]], 3, 2
    if k == 'fredkin':
        return np.eye(8)[[0, 1, 2, 3, 4, 6, 5, 7]], 3, 2
    if k == 'qft':
        _, n = gen
        return _qft(2 ** n), n, 2
    if k == 'shift3':
        return np.roll(np.eye(3), 1, axis=0), 1, 3
    if k == 'clock3':
        w = np.exp(2j * np.pi / 3)
        return np.diag([1, w, w * w]), 1, 3
    if k == 'fourier3':
        return _qft(3), 1, 3
    if k == 'csum3':
        u = np.zeros((9, 9))
        for a in range(3):
            for b in range(3):
                u[3 * a + (a + b) % 3, 3 * a + b] = 1
        return u, 2, 3
    raise ValueError(f'unknown unitary generator {gen}')


def build_state(gen: list, seed: int) -> tuple:
    k = gen[0]
    if k == 'basis':
        _, n, d, x = gen
        v = np.zeros(d ** n, dtype=complex)
        v[x] = 1
        return v, n, d
    if k == 'bell':
        return np.array([1, 0, 0, 1]) / np.sqrt(2), 2, 2
    if k == 'ghz':
        n = gen[1]
        v = np.zeros(2 ** n, dtype=complex)
        v[0] = v[-1] = 1 / np.sqrt(2)
        return v, n, 2
    if k == 'w':
        n = gen[1]
        v = np.zeros(2 ** n, dtype=complex)
        for i in range(n):
            v[1 << i] = 1 / np.sqrt(n)
        return v, n, 2
    if k == 'plus':
        _, n, d = gen
        return np.ones(d ** n, dtype=complex) / np.sqrt(d ** n), n, d
    if k == 'generic':
        _, n, d, idx = gen
        return _haar(d ** n, seed, 1000 + idx)[:, 0], n, d
    raise ValueError(f'unknown state generator {gen}')


def build_input(s: dict, seed: int) -> tuple:
    """(bqskit input object, reference) where reference is
    ('circuit', in_ops, U) | ('unitary', U) | ('state', psi) |
    ('system', ins, outs), plus (n, d)."""
    kind = s['kind']
    if kind == 'circuit':
        c = build_circuit(s)
        ops = O.flat_ops(c)
        U = O.unitary_of(ops, [s.get('d', 2)] * s['n'])
        return c, ('circuit', ops, U), s['n'], s.get('d', 2)
    if kind == 'unitary':
        from bqskit.qis.unitary.unitarymatrix import UnitaryMatrix
        U, n, d = build_unitary(s['gen'], seed)
        return UnitaryMatrix(U, [d] * n), ('unitary', U), n, d
    if kind == 'state':
        from bqskit.qis.state.state import StateVector
        v, n, d = build_state(s['gen'], seed)
        return StateVector(v, [d] * n), ('state', v), n, d
    if kind == 'system':
        from bqskit.qis.state.state import StateVector
        from bqskit.qis.state.system import StateSystem
        U, n, d = build_unitary(s['u'], seed)
        k = s['k']
        ins = np.eye(d ** n, dtype=complex)[:, :k]
        outs = U[:, :k].astype(complex)
        sysd = {
            StateVector(ins[:, j], [d] * n): StateVector(outs[:, j], [d] * n)
            for j in range(k)
        }
        return StateSystem(sysd), ('system', ins, outs), n, d
    raise ValueError(f'unknown input kind {kind}')


# ================================================================= hashing
_TREE_HASH: str | None = None


def tree_hash() -> str:
    """Hash of (path, mtime_ns, size) of every *.py under the selected
    repo's bqskit/ and of this harness: any source edit invalidates the
    cache."""
    global _TREE_HASH
    if _TREE_HASH is None:
        import bqskit
        root = Path(bqskit.__file__).resolve().parent
        h = hashlib.sha1(str(root).encode())
        files = sorted(root.rglob('*.py'))
        files += [Path(__file__).resolve(), Path(O.__file__).resolve(),
                  VERIF / 'vf' / 'loopback.py']
        for f in files:
            st = f.stat()
            h.update(f'{f}|{st.st_mtime_ns}|{st.st_size}\n'.encode())
        for so in sorted(root.parent.glob('bqskitrs*')):
            h.update(str(so).encode())
        try:
            import bqskitrs
            st = Path(bqskitrs.__file__).stat()
            h.update(f'{bqskitrs.__file__}|{st.st_mtime_ns}|{st.st_size}'
                     .encode())
        except Exception:
            pass
        _TREE_HASH = h.hexdigest()[:16]
    return _TREE_HASH


CACHE_DIR = VERIF / 'cache' / 'c0123'


def _cache_path(case: dict, seed: int) -> Path:
    return CACHE_DIR / (stable_hash([case, seed, tree_hash()]) + '.json')


# ================================================================ timeouts
class CaseTimeout(BaseException):
    """Raised by SIGALRM inside a compile (BaseException: the runtime's own
    `except Exception` handlers must not swallow it)."""


def _alarm(signum: int, frame: Any) -> None:
    raise CaseTimeout()


def time_limit(tier: str) -> int:
    """Per-compile limit in CPU seconds of the worker process (user+sys,
    ITIMER_PROF): independent of how many other jobs share the machine.  A
    wall-clock alarm at 6x the limit backs it up."""
    env = os.environ.get('VERIF_CASE_TIMEOUT')
    if env:
        return int(env)
    return 90 if tier == 'quick' else 600


# ============================================================= the worker
_FRAME = re.compile(r'File ".*?/bqskit/([\w/]+)\.py", line \d+, in (\w+)')


def crash_signature(tb: str) -> str:
    """Causal, position-free signature of a traceback: innermost frame in
    bqskit/passes (else innermost bqskit frame) + exception type + message
    with numbers removed."""
    frames = _FRAME.findall(tb)
    pick = None
    for mod, fn in frames:
        if mod.startswith('passes/') or mod.startswith('compiler/compile'):
            pick = (mod, fn)
    if pick is None and frames:
        pick = frames[-1]
    lines = [ln.strip() for ln in tb.strip().splitlines() if ln.strip()]
    etype, msg = 'Exception', lines[-1] if lines else ''
    for ln in reversed(lines):
        m = re.match(
            r'([A-Za-z_][\w.]*(?:Error|Exception|Exit|Interrupt|Deadlock))'
            r'(?::\s*(.*))?$', ln,
        )
        if m:
            etype = m.group(1).split('.')[-1]
            msg = m.group(2) or ''
            break
    msg = re.sub(r'<[^>]*>', 'T', msg)
    msg = re.sub(r'[-+]?\d+(\.\d+)?(e[-+]?\d+)?', 'N', msg)[:60].strip()
    where = f'{pick[0]}:{pick[1]}' if pick else 'unknown'
    return f'{where}:{etype}:{msg}'


def _strip_placeholders(circ: Any) -> Any:
    from bqskit.ir.circuit import Circuit
    out = Circuit(circ.num_qudits, circ.radixes)
    for op in circ:
        if not isinstance(op.gate, O.PLACEHOLDERS):
            out.append(op)
    return out


def _judge_output(
    out: Any, pi: Any, pf: Any, ref: tuple, n: int, d: int, ms: dict | None,
    model: Any, native: list | None, eps: float,
) -> dict:
    rec: dict = {}
    m = out.num_qudits
    radixes = tuple(int(r) for r in out.radixes)
    out_ops = O.flat_ops(out)
    rec['width'] = m
    rec['radixes'] = list(radixes)
    rec['pi'] = [int(x) for x in pi] if O.valid_mapping(pi, n, m) else repr(pi)
    rec['pf'] = [int(x) for x in pf] if O.valid_mapping(pf, n, m) else repr(pf)
    rec['gates_out'] = {}
    for g, _, _ in out_ops:
        rec['gates_out'][g.name] = rec['gates_out'].get(g.name, 0) + 1
    ops_in = O.count_ops(ref[1]) if ref[0] == 'circuit' else 1
    ops_out = O.count_ops(out_ops)
    rec['ops_in'], rec['ops_out'] = ops_in, ops_out
    rec['budget'] = O.budget(eps, ops_in, ops_out)

    # ---- semantics (C01 / C03)
    maps_ok = (
        O.valid_mapping(pi, n, m) and O.valid_mapping(pf, n, m)
        and all(r == d for r in radixes)
    )
    rec['maps_ok'] = bool(maps_ok)
    if maps_ok:
        V = O.unitary_of(out_ops, radixes)
        if ref[0] in ('circuit', 'unitary'):
            U = ref[2] if ref[0] == 'circuit' else ref[1]
            rec.update(O.judge_unitary(U, V, pi, pf, n, m, d))
        elif ref[0] == 'state':
            rec.update(O.judge_state(ref[1], V, pf, n, m, d))
        else:
            rec.update(O.judge_system(ref[1], ref[2], V, pi, pf, n, m, d))
        if ref[0] == 'circuit':
            rec['meas'] = O.judge_measurements(ref[1], out_ops, pf)
    if m == n and all(r == d for r in radixes):
        # the circuit as it stands, no mappings (what C03 literally states)
        V = O.unitary_of(out_ops, radixes)
        idm = list(range(n))
        if ref[0] in ('circuit', 'unitary'):
            U = ref[2] if ref[0] == 'circuit' else ref[1]
            rec['dist_plain'] = O.judge_unitary(U, V, idm, idm, n, m, d)['dist']
        elif ref[0] == 'state':
            rec['dist_plain'] = O.judge_state(ref[1], V, idm, n, m, d)['dist']
        else:
            rec['dist_plain'] = O.judge_system(
                ref[1], ref[2], V, idm, idm, n, m, d)['dist']

    # ---- executability (C02)
    if ms is None:
        # compile() documents the default: all-to-all CNOT+U3 (qubits) /
        # CSUM+VariableUnitary (qudits) of the input's width
        ms = model_spec(n, None, GS_DEFAULT if d == 2 else GS_QUTRIT, d)
        model, native = build_model(ms)
    ex = O.judge_executable(
        out_ops, m, radixes, ms['n'], [ms['d']] * ms['n'], ms['edges'],
        native, exact_width=True,
    )
    fit = O.judge_executable(
        out_ops, m, radixes, ms['n'], [ms['d']] * ms['n'], ms['edges'],
        native, exact_width=False,
    )
    rec['exec'] = ex
    rec['fits'] = fit['ok']
    try:
        rec['compat'] = bool(model.is_compatible(_strip_placeholders(out)))
    except Exception as e:  # noqa
        rec['compat'] = f'raised {type(e).__name__}: {e}'[:120]
    return rec


def _compile_once(case: dict, seed: int, limit: int) -> dict:
    import bqskit
    from vf.loopback import LoopbackCompiler, TaskError, LoopbackDeadlock
    t0 = time.time()
    c0 = time.process_time()
    spec = case['input']
    eps = case.get('eps', 1e-8)
    rec: dict = {}
    items = spec['items'] if spec['kind'] == 'list' else [spec]
    built = [build_input(s, seed) for s in items]
    model, native = build_model(case.get('model'))
    arg: Any = [b[0] for b in built] if spec['kind'] == 'list' else built[0][0]
    kwargs = dict(
        optimization_level=case['level'], max_synthesis_size=case.get('mss', 3),
        synthesis_epsilon=eps, seed=int(seed), with_mapping=True,
        compiler=LoopbackCompiler(),
    )
    old = signal.signal(signal.SIGALRM, _alarm)
    oldp = signal.signal(signal.SIGPROF, _alarm)
    signal.alarm(limit * 6)
    signal.setitimer(signal.ITIMER_PROF, limit)
    try:
        try:
            res = bqskit.compile(arg, model, **kwargs)
        finally:
            signal.setitimer(signal.ITIMER_PROF, 0)
            signal.alarm(0)
            signal.signal(signal.SIGALRM, old)
            signal.signal(signal.SIGPROF, oldp)
    except CaseTimeout:
        return {'status': 'timeout', 'limit': limit,
                'secs': round(time.time() - t0, 2)}
    except TaskError as e:
        tb = str(e.args[0]) if e.args else ''
        return {'status': 'crash', 'sig': crash_signature(tb),
                'tb': tb[-1500:], 'secs': round(time.time() - t0, 2)}
    except LoopbackDeadlock as e:
        return {'status': 'crash', 'sig': 'runtime:deadlock', 'tb': str(e),
                'secs': round(time.time() - t0, 2)}
    except (ValueError, TypeError) as e:
        # raised by compile()/build_workflow before any compilation started:
        # the input is not accepted -- outside every property
        import traceback
        return {'status': 'rejected', 'why': f'{type(e).__name__}: {e}'[:200],
                'tb': traceback.format_exc()[-600:],
                'secs': round(time.time() - t0, 2)}
    except Exception as e:  # noqa
        import traceback
        tb = traceback.format_exc()
        return {'status': 'crash', 'sig': crash_signature(tb), 'tb': tb[-1500:],
                'secs': round(time.time() - t0, 2)}
    rec['status'] = 'ok'
    rec['secs'] = round(time.time() - t0, 2)
    rec['cpu'] = round(time.process_time() - c0, 2)
    if spec['kind'] == 'list':
        rec['n_results'] = len(res) if isinstance(res, list) else -1
        rec['items'] = []
        if isinstance(res, list) and len(res) == len(items):
            for (obj, ref, n, d), r in zip(built, res):
                out, pi, pf = r
                rec['items'].append(_judge_output(
                    out, pi, pf, ref, n, d, case.get('model'), model, native,
                    eps,
                ))
    else:
        obj, ref, n, d = built[0]
        out, pi, pf = res
        rec.update(_judge_output(
            out, pi, pf, ref, n, d, case.get('model'), model, native, eps,
        ))
    return rec


def run_case(arg: tuple) -> tuple:
    """pmap worker: (case, seed, tier, use_cache) -> (case, record)."""
    case, seed, tier, use_cache = arg
    path = _cache_path(case, seed)
    if use_cache and path.exists():
        try:
            rec = json.loads(path.read_text())
            if rec.get('status') != 'timeout':
                rec['cached'] = True
                return case, rec
        except Exception:
            pass
    rec = _compile_once(case, seed, time_limit(tier))
    if use_cache and rec.get('status') != 'timeout':
        try:
            CACHE_DIR.mkdir(parents=True, exist_ok=True)
            tmp = path.with_suffix(f'.{os.getpid()}.tmp')
            tmp.write_text(json.dumps(vf.common.jsonable(rec)))
            os.replace(tmp, path)
        except Exception:
            pass
    return case, rec


def run_fresh(case: dict, seed: int, tier: str = 'thorough') -> dict:
    return _compile_once(case, seed, time_limit(tier))


# ================================================== branch classification
def branches(case: dict) -> list:
    """Which sides of the workflow's predicates this case selects (computed
    from the specification, independent of the run)."""
    s, ms = case['input'], case.get('model')
    out = [f'level{case["level"]}', f'mss{case.get("mss", 3)}',
           f'kind:{s["kind"]}']
    gs = (ms or {}).get('gates') or GS_DEFAULT
    sq = [g for g in gs if gate(g).num_qudits == 1]
    if ms is not None and ms.get('vendor'):
        out.append('vendor:' + ms['vendor'])
    if not sq:
        out.append('sq:none-in-model')
    elif 'U3' in sq or 'VU3' in sq:
        out.append('sq:general-gate')
    elif ('RZ' in sq) and ('SX' in sq or 'RX' in sq):
        out.append('sq:zx')
    elif all(gate(g).num_params == 0 for g in sq):
        out.append('sq:constant-qsearch')
    else:
        out.append('sq:qsearch')
    if s['kind'] == 'circuit':
        names = {op[0] for op in s['ops']}
        mq = {g for g in names if gate(g).num_qudits >= 2}
        out.append('many-qudit-gate' if any(
            gate(g).num_qudits > 2 for g in names) else 'no-many-qudit-gate')
        out.append('mq-native' if mq <= set(gs) else 'mq-retarget')
        out.append('width1' if s['n'] == 1 else 'width>=2')
        if ms is not None:
            out.append('machine-wider' if ms['n'] > s['n'] else 'machine-fit')
            full = ms['n'] * (ms['n'] - 1) // 2
            out.append('all-to-all' if len(ms['edges']) == full else 'sparse')
        else:
            out.append('model-none')
        for k in ('barrier', 'measure', 'blocked'):
            if s.get(k) is not None and s.get(k) is not False:
                out.append(k)
    return out


def nontrivial(case: dict) -> bool:
    """Circuits: at least one multi-qudit gate.  Targets: anything but an
    identity (for a list: any non-trivial item)."""
    s = case['input']
    if s['kind'] == 'circuit':
        return any(gate(op[0]).num_qudits >= 2 for op in s['ops'])
    if s['kind'] == 'list':
        return any(nontrivial({'input': x}) for x in s['items'])
    gen = s.get('gen') or s.get('u')
    return gen[0] != 'identity'
