"""C01, schedules quantifier: whole `bqskit.compile()` runs executed by the
real runtime (AttachedServer + 1..3 workers, or managers) inside the E1 world
under every schedule within a deviation bound; same mapping-aware unitary
oracle as the loop-back part of C01."""
from __future__ import annotations

import time
from typing import Any

import numpy as np

from vf import c01_oracle as O
from vf.explore import register_judge
from vf.scenarios import TOPOS

EPS = 1e-8


def _circuits() -> dict:
    from bqskit import Circuit
    from bqskit.ir.gates import CNOTGate, CZGate, HGate, TGate, U3Gate
    out = {}
    c = Circuit(2)
    c.append_gate(HGate(), 0)
    c.append_gate(CZGate(), (0, 1))
    c.append_gate(U3Gate(), 1, [0.3, 0.2, 0.1])
    out['h-cz-u3'] = c
    c = Circuit(3)
    c.append_gate(U3Gate(), 0, [1.1, -0.4, 2.0])
    c.append_gate(CNOTGate(), (0, 2))
    c.append_gate(TGate(), 2)
    c.append_gate(CNOTGate(), (2, 1))
    out['cx02-t-cx21'] = c
    return out


def _models() -> dict:
    from bqskit import MachineModel
    from bqskit.qis.graph import CouplingGraph
    return {
        'line2': MachineModel(2, CouplingGraph.linear(2)),
        'line3': MachineModel(3, CouplingGraph.linear(3)),
        'line4': MachineModel(4, CouplingGraph.linear(4)),
    }


CASES = {
    'c2-line2-l1': ('h-cz-u3', 'line2', 1),
    'c3-line3-l1': ('cx02-t-cx21', 'line3', 1),
    'c3-line4-l1': ('cx02-t-cx21', 'line4', 1),
    'c2-line2-l2': ('h-cz-u3', 'line2', 2),
}


def run_case(comp: Any, name: str) -> dict:
    """Called from a client script inside the world."""
    import bqskit
    cname, mname, level = CASES[name]
    circ = _circuits()[cname]
    model = _models()[mname]
    U = np.array(circ.get_unitary())
    n_in = circ.num_operations
    out, pi, pf = bqskit.compile(
        circ.copy(), model, optimization_level=level, with_mapping=True,
        compiler=comp, seed=0, synthesis_epsilon=EPS,
    )
    n, m, d = circ.num_qudits, model.num_qudits, 2
    res: dict = {'pi': list(pi), 'pf': list(pf),
                 'ops_in': n_in, 'ops_out': out.num_operations,
                 'width': out.num_qudits}
    if out.num_qudits != m or not O.valid_mapping(pi, n, m) \
            or not O.valid_mapping(pf, n, m):
        res['bad_mapping'] = True
        return res
    V = np.array(out.get_unitary())
    res.update(O.judge_unitary(U, V, pi, pf, n, m, d))
    res['compatible'] = bool(model.is_compatible(out))
    return res


def judge_c01w(spec: dict, rec: dict, fault: Any) -> list:
    v: list = []
    for name, tb in rec['thread_errors']:
        v.append(('world:thread-died', f'{name}: {tb[-500:]}'))
    evs = rec['clients'].get('cli0', {}).get('events', [])
    if not evs:
        v.append(('world:client-hang',
                  f'compile never returned; alive {rec["alive"]}'))
        return v
    ev = evs[0]
    if ev[2] == 'exc':
        v.append(('world:compile-raised', f'{ev[3]}: {ev[4][-600:]}'))
        return v
    r = ev[3]
    if r.get('bad_mapping'):
        v.append(('world:invalid-mapping', f'{r}'))
        return v
    bud = O.budget(EPS, r['ops_in'], r['ops_out'])
    if r['dist'] > max(bud, 1e-6) or r['leak'] > max(bud, 1e-6) ** 0.5:
        v.append(('world:semantics-changed-under-schedule',
                  f'{spec["name"]}: dist={r["dist"]:.3g} leak={r["leak"]:.3g}'
                  f' budget={bud:.3g} pi={r["pi"]} pf={r["pf"]}'))
    if not r['compatible']:
        v.append(('world:not-executable-under-schedule', f'{spec["name"]}'))
    return v


register_judge('c01w', judge_c01w)


def specs(quick: bool) -> list:
    combos = [('a1', 'c2-line2-l1'), ('a2', 'c2-line2-l1'),
              ('a3', 'c3-line3-l1')]
    if not quick:
        combos += [('a2', 'c3-line4-l1'), ('d11', 'c2-line2-l1'),
                   ('a2', 'c2-line2-l2'), ('a3', 'c3-line4-l1')]
    return [{'name': f'{tp}/bqcompile/{cs}', 'topo': TOPOS[tp],
             'clients': [[['bqcompile', cs], ['close']]], 'numeric': True}
            for tp, cs in combos]


def run_part(ctx: Any, seconds: float | None = None) -> dict:
    from vf import explore
    t0 = time.time()
    secs = seconds or (60 if ctx.quick else 1500)
    st = explore.explore(ctx, specs(ctx.quick), 'c01w', 1, 'deviation',
                         deadline=t0 + secs, part='world-schedules')
    ctx.part('world-schedules(deviation<=1)', scenarios=len(specs(ctx.quick)),
             executions=st['executions'], complete=st['complete'],
             wall_s=round(time.time() - t0, 1))
    return st
