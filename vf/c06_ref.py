"""Numpy-only reference simulator for BQSKit circuits (property C06).

The reference knows nothing about tensor contraction: every operation is
lifted to the full Hilbert space as ``P (G (x) I) P^T`` with an *explicit*
permutation matrix ``P`` built digit by digit for the convention "qudit 0 is
the most significant tensor factor", and the lifted matrices are multiplied
in the circuit's iteration order.  The only things read from the circuit are

* ``circuit.radixes``,
* the operations in iteration order (``for op in circuit``) or, with
  ``order='grid'``, in row-major order of the public grid ``circuit[c, q]``,
* per operation ``op.location``, ``op.num_params``, ``op.params`` and the
  operation's own matrix ``op.gate.get_unitary(<its own parameter slice>)``.
"""
from __future__ import annotations

from functools import lru_cache
from typing import Any, Sequence

import numpy as np


def _digits(index: int, radixes: Sequence[int]) -> list[int]:
    """Mixed-radix digits of `index`, most significant (first radix) first."""
    out = [0] * len(radixes)
    for k in range(len(radixes) - 1, -1, -1):
        out[k] = index % radixes[k]
        index //= radixes[k]
    return out


def _index(digits: Sequence[int], radixes: Sequence[int]) -> int:
    idx = 0
    for d, r in zip(digits, radixes):
        idx = idx * r + d
    return idx


@lru_cache(maxsize=4096)
def perm_matrix(radixes: tuple[int, ...], location: tuple[int, ...]) -> Any:
    """P with P[i, j] = 1 iff natural index i and arranged index j agree.

    The *arranged* space is ordered (location[0], location[1], ..., then the
    remaining qudits ascending); the *natural* space is (0, 1, ..., n-1), each
    with the first factor most significant.
    """
    n = len(radixes)
    rest = [q for q in range(n) if q not in location]
    order = list(location) + rest
    arr_radixes = [radixes[q] for q in order]
    dim = int(np.prod(radixes))
    P = np.zeros((dim, dim))
    for j in range(dim):
        dj = _digits(j, arr_radixes)        # dj[k] = level of qudit order[k]
        nat = [0] * n
        for k, q in enumerate(order):
            nat[q] = dj[k]
        P[_index(nat, radixes), j] = 1.0
    P.setflags(write=False)
    return P


def lift(G: Any, radixes: Sequence[int], location: Sequence[int]) -> Any:
    """Full-space matrix of `G` acting on `location` of a `radixes` system."""
    radixes = tuple(int(r) for r in radixes)
    location = tuple(int(q) for q in location)
    G = np.asarray(G, dtype=np.complex128)
    dim = int(np.prod(radixes))
    gdim = int(np.prod([radixes[q] for q in location]))
    if G.shape != (gdim, gdim):
        raise ValueError(
            f'operation matrix {G.shape} does not fit location {location} '
            f'of radixes {radixes}',
        )
    P = perm_matrix(radixes, location)
    return P @ np.kron(G, np.eye(dim // gdim)) @ P.T


def ordered_ops(circuit: Any, order: str = 'iter') -> list:
    """Operations of `circuit`, each exactly once, in a simulation order."""
    if order == 'iter':
        return list(circuit)
    if order == 'grid':
        ops = []
        for c in range(circuit.num_cycles):
            seen: set[int] = set()
            for q in range(circuit.num_qudits):
                if q in seen or circuit.is_point_idle((c, q)):
                    continue
                op = circuit[c, q]
                seen.update(op.location)
                ops.append(op)
        return ops
    raise ValueError(order)


def op_slices(ops: Sequence[Any], params: Any = None) -> list[list[float]]:
    """Each operation's own parameter slice (stored, or cut from `params`)."""
    if params is None:
        return [[float(x) for x in op.params] for op in ops]
    out, i = [], 0
    for op in ops:
        k = int(op.num_params)
        out.append([float(x) for x in params[i:i + k]])
        i += k
    if i != len(params):
        raise ValueError('parameter vector length does not match circuit')
    return out


def op_matrices(circuit: Any, params: Any = None, order: str = 'iter',
                memo: dict | None = None) -> list:
    """[(lifted matrix, op)] in simulation order.

    `memo` (optional dict) memoises lifted matrices by (gate object,
    location, parameter slice) -- pure memoisation, used by the finite
    differences where all but one slice repeat.
    """
    ops = ordered_ops(circuit, order)
    sl = op_slices(ops, params)
    rad = tuple(int(r) for r in circuit.radixes)
    out = []
    for op, p in zip(ops, sl):
        key = (id(op.gate), tuple(op.location), tuple(p))
        M = memo.get(key) if memo is not None else None
        if M is None:
            M = lift(np.asarray(op.gate.get_unitary(p)), rad,
                     tuple(op.location))
            if memo is not None:
                memo[key] = M
        out.append((M, op))
    return out


def reference_unitary(circuit: Any, params: Any = None,
                      order: str = 'iter', memo: dict | None = None) -> Any:
    """The ordered product of the operations' lifted matrices (ndarray)."""
    dim = int(np.prod(circuit.radixes))
    U = np.eye(dim, dtype=np.complex128)
    for M, _ in op_matrices(circuit, params, order, memo):
        U = M @ U
    return U


def reference_statevector(circuit: Any, state: Any, params: Any = None) -> Any:
    v = np.asarray(state, dtype=np.complex128).reshape(-1)
    for M, _ in op_matrices(circuit, params):
        v = M @ v
    return v


def reference_grad(circuit: Any, params: Sequence[float],
                   h: float = 1e-6) -> Any:
    """Central differences of `reference_unitary` (shape: params x D x D)."""
    params = [float(x) for x in params]
    dim = int(np.prod(circuit.radixes))
    out = np.zeros((len(params), dim, dim), dtype=np.complex128)
    memo: dict = {}
    for i in range(len(params)):
        up = list(params)
        dn = list(params)
        up[i] += h
        dn[i] -= h
        out[i] = (reference_unitary(circuit, up, memo=memo)
                  - reference_unitary(circuit, dn, memo=memo)) / (2 * h)
    return out


def hs_cost(T: Any, U: Any) -> float:
    """1 - |tr(T^dagger U)| / N."""
    T = np.asarray(T)
    U = np.asarray(U)
    return float(1.0 - abs(np.trace(T.conj().T @ U)) / U.shape[0])
