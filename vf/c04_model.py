"""C04 / C05: the Circuit editing alphabet, the per-qudit-timeline reference
model, the unitary-product oracle and the view-consistency invariant.

Everything that reads a circuit does so through the public read API
(`circuit[c, q]`, `is_point_idle`, `next`, `prev`, `first_on`, ...).  The two
places that need something the public API does not offer are isolated in
`block_body` (the circuit inside a CircuitGate) and `hidden_digest` (a
merge-refinement of the BFS key, never judged).

Configuration dict (cfg): {'radixes': [...]} plus optional 'lean' (reduced
argument sets: fewer cycle indices / regions / sub-circuit shapes), 'long'
(argument sets for wide, deep circuits: samples of operations, cycles and
regions), 'max_ops' / 'max_cycles' (growth calls are disabled beyond).

Signatures: transition findings are '<method>/<argument class>/<kind>'
(e.g. 'unfold/in-range/order-differs'), state findings
'state-after-<last method>/<view or probe that disagrees>'.

Layout of this module
    1. gate universe and call descriptors (JSON)          -> build_op, build_sub
    2. observation of a real circuit                      -> observe, Obs, Rec
    3. unfolded per-qudit timelines                       -> timeline_signature
    4. numpy unitary product oracle                       -> oracle_unitary
    5. executing one call on the real Circuit             -> apply_call
    6. the reference model                                -> predict
    7. judging a transition / a state                     -> judge_transition,
                                                             judge_state
    8. the alphabet                                       -> alphabet
    9. the histbfs Space                                  -> SPACE
"""
from __future__ import annotations

import hashlib
import itertools
import operator
import re
import traceback
from collections import Counter
from typing import Any, Iterable, Sequence

import numpy as np

import vf.common  # noqa: F401  (selects the repo under test)
from bqskit.ir.circuit import Circuit
from bqskit.ir.gates import CircuitGate
from bqskit.ir.gates import ControlledGate
from bqskit.ir.gates import CRZGate
from bqskit.ir.gates import DaggerGate
from bqskit.ir.gates import FrozenParameterGate
from bqskit.ir.gates import EmbeddedGate
from bqskit.ir.gates import RZGate
from bqskit.ir.gates import U3Gate
from bqskit.ir.operation import Operation
from bqskit.ir.point import CircuitPoint

TOL = 1e-9
INF = 10 ** 9
DOCUMENTED = ('IndexError', 'ValueError', 'TypeError')
MAX_OPS = 6       # growth calls are disabled beyond this many operations
MAX_CYCLES = 6

# --------------------------------------------------------------------------
# 1. gate universe and descriptors
# --------------------------------------------------------------------------
_GATES: dict[tuple, Any] = {}


def gate_for(radixes: Sequence[int]) -> Any:
    """The one parameterised gate the alphabet uses for a radix tuple."""
    r = tuple(int(x) for x in radixes)
    if r in _GATES:
        return _GATES[r]

    def target(rr: int) -> Any:
        return RZGate() if rr == 2 else EmbeddedGate(RZGate(), rr, [0, rr - 1])
    if len(r) == 1:
        g = U3Gate() if r[0] == 2 else EmbeddedGate(U3Gate(), r[0], [0, r[0] - 1])
    elif r == (2, 2):
        g = CRZGate()
    else:
        g = ControlledGate(target(r[-1]), len(r) - 1, list(r[:-1]))
    _GATES[r] = g
    return g


def params_for(gate: Any, k: int) -> list[float]:
    """Parameter vector that carries the identity `k` of an operation."""
    v = 0.25 * k
    if gate.num_params == 3:
        return [v, 0.5 * v, -0.25 * v]
    return [v] * gate.num_params


def build_op(d: Sequence) -> Operation:
    """d = [radixes, location, k]  ->  a fresh Operation."""
    g = gate_for(d[0])
    return Operation(g, [int(q) for q in d[1]], params_for(g, int(d[2])))


def build_sub(d: Sequence) -> Circuit:
    """d = [radixes, [[location, k], ...]]  ->  a fresh small Circuit."""
    radixes = [int(r) for r in d[0]]
    c = Circuit(len(radixes), radixes)
    for loc, k in d[1]:
        g = gate_for([radixes[q] for q in loc])
        c.append(Operation(g, [int(q) for q in loc], params_for(g, int(k))))
    return c


def block_body(gate: Any) -> Circuit:
    """ADAPTER: the circuit inside a CircuitGate (no public accessor)."""
    return gate._circuit


def hidden_digest(c: Circuit) -> str:
    """ADAPTER: refinement of the BFS merge key by the counters the public
    API does not expose (edge multiplicities).  Never judged; '' if absent."""
    try:
        gi = sorted((repr(k), v) for k, v in c._graph_info.items())
        return repr(gi)
    except Exception:
        return ''


def gate_desc(g: Any) -> str:
    if isinstance(g, CircuitGate):
        return 'Block<' + obs_desc(observe(block_body(g)), False) + '>'
    if isinstance(g, FrozenParameterGate):
        fz = sorted((int(i), round(float(v), 9) + 0.0)
                    for i, v in g.frozen_params.items())
        return f'Frozen<{gate_desc(g.gate)},{fz}>'
    if isinstance(g, DaggerGate):
        return f'Dagger<{gate_desc(g.gate)}>'
    return f'{g.name}{list(g.radixes)}'


# --------------------------------------------------------------------------
# 2. observation
# --------------------------------------------------------------------------
class Rec:
    """One operation as seen in the grid (or as expected by the model)."""
    __slots__ = ('gate', 'loc', 'params', 'cyc', 'key', '_desc', '_leaves', '_sig')

    def __init__(self, gate: Any, loc: Sequence[int], params: Sequence[float],
                 cyc: int = -1, key: tuple | None = None) -> None:
        self.gate = gate
        self.loc = tuple(int(q) for q in loc)
        self.params = tuple(float(p) for p in params)
        self.cyc = cyc
        self.key = key if key is not None else (cyc, 0)
        self._desc: str | None = None
        self._leaves: list | None = None
        self._sig: str | None = None

    @property
    def desc(self) -> str:
        if self._desc is None:
            self._desc = gate_desc(self.gate)
        return self._desc

    @property
    def is_block(self) -> bool:
        return isinstance(self.gate, CircuitGate)

    def sig(self) -> str:
        if self._sig is None:
            self._sig = f'{self.desc}@{list(self.loc)}{_rp(self.params)}'
        return self._sig

    def moved(self, loc: Sequence[int], key: tuple | None = None) -> 'Rec':
        r = Rec(self.gate, loc, self.params, self.cyc,
                self.key if key is None else key)
        r._desc = self._desc
        return r

    def leaves(self) -> list['Rec']:
        """Fully unfolded operations in program order, outer locations."""
        if self._leaves is not None:
            return self._leaves
        if not self.is_block:
            self._leaves = [self]
            return self._leaves
        inner = observe(block_body(self.gate))
        out: list[Rec] = []
        i = 0
        # a block's parameter vector follows the body's iteration order,
        # which is (cycle, first qudit of the location)
        for r in sorted(inner.recs, key=lambda r: (r.cyc, r.loc[0])):
            npar = len(r.params)
            sub = Rec(r.gate, [self.loc[q] for q in r.loc],
                      self.params[i:i + npar])
            i += npar
            out.extend(sub.leaves())
        self._leaves = out
        return out


def _rp(params: Iterable[float]) -> str:
    return '(' + ','.join(f'{round(float(p), 9) + 0.0:g}' for p in params) + ')'


class Obs:
    __slots__ = ('radixes', 'n', 'grid', 'recs', 'problems')

    def __init__(self) -> None:
        self.radixes: tuple = ()
        self.n = 0
        self.grid: list[list[Rec | None]] = []
        self.recs: list[Rec] = []
        self.problems: list[tuple[str, str]] = []

    @property
    def nq(self) -> int:
        return len(self.radixes)

    def timeline(self, q: int) -> list[Rec]:
        return [row[q] for row in self.grid if row[q] is not None]

    def program(self) -> list[Rec]:
        return sorted(self.recs, key=lambda r: (r.cyc, r.loc[0]))


def observe(c: Circuit) -> Obs:
    """Read the whole grid through `circuit[cycle, qudit]`."""
    o = Obs()
    o.radixes = tuple(int(r) for r in c.radixes)
    o.n = int(c.num_cycles)
    nq = int(c.num_qudits)
    if nq != len(o.radixes):
        o.problems.append(('radixes-length', f'{nq} qudits, radixes {o.radixes}'))
    seen: dict[tuple, Rec] = {}
    for cy in range(o.n):
        row: list[Rec | None] = []
        for q in range(nq):
            if c.is_point_idle((cy, q)):
                row.append(None)
                continue
            op = c[cy, q]
            loc = tuple(int(x) for x in op.location)
            k = (cy, loc)
            r = seen.get(k)
            if r is None:
                r = Rec(op.gate, loc, op.params, cy)
                seen[k] = r
                o.recs.append(r)
                if q not in loc:
                    o.problems.append((
                        'op-outside-its-location',
                        f'cell ({cy},{q}) holds {op!r}',
                    ))
            else:
                if not (op.gate == r.gate
                        and tuple(float(p) for p in op.params) == r.params):
                    o.problems.append((
                        'cells-of-one-op-disagree',
                        f'cell ({cy},{q}) holds {op!r}',
                    ))
            row.append(r)
        o.grid.append(row)
    for r in o.recs:
        for q in r.loc:
            if q >= nq or o.grid[r.cyc][q] is not r:
                o.problems.append((
                    'op-missing-from-a-cell-of-its-location',
                    f'{r.sig()} in cycle {r.cyc}, qudit {q}',
                ))
    return o


def obs_desc(o: Obs, with_params: bool = True) -> str:
    rows = []
    for row in o.grid:
        cells = []
        done = set()
        for r in row:
            if r is None or id(r) in done:
                continue
            done.add(id(r))
            cells.append(r.sig() if with_params
                         else f'{r.desc}@{list(r.loc)}')
        rows.append(' '.join(cells))
    return f'{list(o.radixes)}:' + ' | '.join(rows)


# --------------------------------------------------------------------------
# 3. timelines
# --------------------------------------------------------------------------
def unfolded_timelines(o: Obs) -> list[list[str]]:
    out = []
    for q in range(o.nq):
        tl: list[str] = []
        for r in o.timeline(q):
            tl.extend(lf.sig() for lf in r.leaves() if q in lf.loc)
        out.append(tl)
    return out


def timeline_signature(circuit: Circuit) -> list[list[tuple]]:
    """Per qudit, the ordered list of (gate, location, rounded params) of the
    fully unfolded operations touching it (shared with C08 / C11)."""
    o = observe(circuit)
    out = []
    for q in range(o.nq):
        tl = []
        for r in o.timeline(q):
            for lf in r.leaves():
                if q in lf.loc:
                    tl.append((
                        lf.gate, lf.loc,
                        tuple(round(p, 9) + 0.0 for p in lf.params),
                    ))
        out.append(tl)
    return out


# --------------------------------------------------------------------------
# 4. numpy product oracle
# --------------------------------------------------------------------------
def _apply(T: np.ndarray, G: np.ndarray, loc: Sequence[int],
           radixes: Sequence[int]) -> np.ndarray:
    """T has shape radixes + (D,) (row index split per qudit); returns G·T
    with G acting on the qudits in `loc` (first qudit most significant)."""
    k = len(loc)
    rl = [radixes[q] for q in loc]
    Gt = np.asarray(G, dtype=np.complex128).reshape(rl + rl)
    R = np.tensordot(Gt, T, axes=(list(range(k, 2 * k)), list(loc)))
    # axes of R: loc[0..k-1], then the remaining axes of T in order
    rest = [a for a in range(T.ndim) if a not in loc]
    order = list(loc) + rest
    inv = np.argsort(order)
    return np.transpose(R, inv)


def oracle_unitary(o: Obs) -> np.ndarray:
    """Ordered product of the unfolded operations, cycle by cycle."""
    radixes = list(o.radixes)
    D = int(np.prod(radixes))
    T = np.eye(D, dtype=np.complex128).reshape(radixes + [D])
    for r in sorted(o.recs, key=lambda r: (r.cyc, min(r.loc))):
        for lf in r.leaves():
            T = _apply(T, _mat(lf), lf.loc, radixes)
    return T.reshape(D, D)


def perm_matrix(perm: Sequence[int], radixes: Sequence[int]) -> np.ndarray:
    """P|x_0..x_{n-1}> = |y> with y[perm[i]] = x[i]  (old radixes given)."""
    n = len(perm)
    new_rad = [0] * n
    for i, p in enumerate(perm):
        new_rad[p] = radixes[i]
    D = int(np.prod(radixes))
    P = np.zeros((D, D))
    for x in itertools.product(*[range(r) for r in radixes]):
        y = [0] * n
        for i, p in enumerate(perm):
            y[p] = x[i]
        P[np.ravel_multi_index(y, new_rad), np.ravel_multi_index(x, radixes)] = 1
    return P


# --------------------------------------------------------------------------
# 5. executing one call on the real Circuit
# --------------------------------------------------------------------------
class Outcome:
    __slots__ = ('ok', 'ret', 'exc', 'msg', 'origin', 'extra')

    def __init__(self) -> None:
        self.ok = True
        self.ret: Any = None
        self.exc = ''
        self.msg = ''
        self.origin = ''
        self.extra: Any = None

    def label(self) -> str:
        return 'ok' if self.ok else f'raise:{self.exc}'


def _origin(tb: Any) -> str:
    """Innermost library frame of a traceback: 'function[:attribute]'."""
    fn, line = '?', ''
    for fs in traceback.extract_tb(tb):
        if '/bqskit/' in fs.filename:
            fn, line = fs.name, fs.line or ''
    m = re.search(r'self\.(_\w+)\[', line)
    return fn + (':' + m.group(1) if m else '')


def _pt(p: Any) -> Any:
    return None if p is None else (int(p[0]), int(p[1]))


def _region(r: Sequence) -> dict:
    return {int(q): (int(lo), int(hi)) for q, lo, hi in r}


def _fresh_copy_of(op: Operation) -> Operation:
    return Operation(op.gate, op.location, list(op.params))


def apply_call(c: Circuit, call: Sequence) -> tuple[Circuit, Outcome]:
    """Run one alphabet call on the real circuit.  Arguments are built
    outside the guarded region; only the Circuit method itself is judged."""
    m = call[0]
    a = call[1:]
    out = Outcome()
    new = c
    # ---- build arguments (harness code; a failure here is a harness error)
    if m in ('append', 'append_gate'):
        arg = build_op(a[0])
    elif m == 'extend':
        arg = [build_op(d) for d in a[0]]
    elif m in ('append_circuit',):
        arg = build_sub(a[0])
    elif m in ('insert', 'insert_gate', 'replace', 'replace_gate'):
        arg = build_op(a[1])
    elif m in ('insert_circuit', 'replace_with_circuit'):
        arg = build_sub(a[1])
    elif m == 'batch_replace':
        arg = [build_op(d) for d in a[1]]
    elif m == 'remove_op':
        arg = build_op(a[0])
    elif m == 'remove_gate':
        arg = gate_for(a[0])
    elif m in ('remove_op_at', 'remove_gate_at'):
        op = c[_pt(a[0])]
        arg = _fresh_copy_of(op) if m == 'remove_op_at' else op.gate
    elif m in ('add', 'iadd'):
        arg = c if a[0] == 'self' else build_sub(a[0])
    else:
        arg = None
    # ---- the call
    try:
        if m == 'append':
            out.ret = c.append(arg)
        elif m == 'append_gate':
            out.ret = c.append_gate(arg.gate, tuple(arg.location), list(arg.params))
        elif m == 'extend':
            out.ret = c.extend(arg)
        elif m == 'append_circuit':
            out.ret = c.append_circuit(arg, list(a[1]), bool(a[2]))
        elif m == 'insert':
            out.ret = c.insert(int(a[0]), arg)
        elif m == 'insert_gate':
            out.ret = c.insert_gate(int(a[0]), arg.gate, tuple(arg.location), list(arg.params))
        elif m == 'insert_circuit':
            out.ret = c.insert_circuit(int(a[0]), arg, list(a[2]), bool(a[3]))
        elif m == 'pop':
            out.ret = c.pop(_pt(a[0])) if a[0] is not None else c.pop()
        elif m == 'batch_pop':
            out.ret = c.batch_pop([_pt(p) for p in a[0]])
        elif m in ('remove_op', 'remove_gate', 'remove_op_at', 'remove_gate_at'):
            out.ret = c.remove(arg)
        elif m == 'replace':
            out.ret = c.replace(_pt(a[0]), arg)
        elif m == 'replace_gate':
            out.ret = c.replace_gate(_pt(a[0]), arg.gate, tuple(arg.location), list(arg.params))
        elif m == 'replace_with_circuit':
            out.ret = c.replace_with_circuit(_pt(a[0]), arg, bool(a[2]))
        elif m == 'batch_replace':
            out.ret = c.batch_replace([_pt(p) for p in a[0]], arg)
        elif m == 'pop_cycle':
            out.ret = c.pop_cycle(int(a[0]))
        elif m == 'insert_qudit':
            out.ret = c.insert_qudit(int(a[0]), int(a[1]))
        elif m == 'append_qudit':
            out.ret = c.append_qudit(int(a[0]))
        elif m == 'pop_qudit':
            out.ret = c.pop_qudit(int(a[0]))
        elif m == 'renumber_qudits':
            out.ret = c.renumber_qudits([int(x) for x in a[0]])
        elif m == 'fold':
            out.ret = c.fold(_region(a[0]))
        elif m == 'straighten':
            out.ret = c.straighten(_region(a[0]))
        elif m == 'unfold':
            out.ret = c.unfold(_pt(a[0]))
        elif m == 'batch_unfold':
            out.ret = c.batch_unfold([_pt(p) for p in a[0]])
        elif m == 'unfold_all':
            out.ret = c.unfold_all()
        elif m == 'compress':
            out.ret = c.compress()
        elif m == 'copy':
            new = c.copy()
            out.ret = new
        elif m == 'add':
            new = c + arg
            out.ret = new
        elif m == 'mul':
            new = c * int(a[0])
            out.ret = new
        elif m == 'iadd':
            out.ret = operator.iadd(c, arg)
        elif m == 'imul':
            out.ret = operator.imul(c, int(a[0]))
        elif m == 'get_inverse':
            new = c.get_inverse()
            out.ret = new
        elif m == 'freeze_param':
            out.ret = c.freeze_param(int(a[0]))
        else:
            raise vf.common.HarnessError(f'unknown call {m}')
    except vf.common.HarnessError:
        raise
    except Exception as e:  # judged by the caller
        out.ok = False
        out.exc = type(e).__name__
        out.msg = str(e)[:200]
        out.origin = _origin(e.__traceback__)
        return c, out
    if not isinstance(new, Circuit):
        out.extra = 'result-not-a-circuit'
        new = c
    return new, out


# --------------------------------------------------------------------------
# 6. the reference model: per-qudit timelines with order keys
# --------------------------------------------------------------------------
# Every operation of the pre-state gets the order key (cycle, 0).  The
# docstrings are translated into keys for the new operations:
#   append            -> (INF, j)          after everything, in call order
#   insert at cycle c -> (c - 0.5, j)      after cycles < c, before cycles >= c
#   replace at cycle c-> (c, j)            in place of the old operation
# The expected timeline of a qudit is its operations sorted by key; equal
# keys on one qudit (a replacement that grew onto a qudit which holds another
# operation of the same cycle) mean that both orders are acceptable.
class Pred:
    __slots__ = ('mode', 'argclass', 'radixes', 'items', 'seq', 'special',
                 'ret', 'urel', 'data')

    def __init__(self, pre: Obs) -> None:
        self.mode = 'ok'          # ok | raise | either | skip
        self.argclass = 'plain'
        self.radixes = pre.radixes
        self.items: list[Rec] = list(pre.recs)
        self.seq: list[Rec] | None = None
        self.special: str | None = None
        self.ret: tuple | None = None
        self.urel: str | None = None   # same | renumber | inverse
        self.data: Any = None

    def reject(self, argclass: str) -> 'Pred':
        self.mode = 'raise'
        self.argclass = argclass
        return self


def _op_problem(pre: Obs, opd: Sequence) -> str | None:
    rad, loc = opd[0], opd[1]
    if any(q >= pre.nq or q < 0 for q in loc):
        return 'location-off-circuit'
    if any(pre.radixes[q] != r for q, r in zip(loc, rad)):
        return 'radix-mismatch'
    return None


def _rec(opd: Sequence, key: tuple) -> Rec:
    g = gate_for(opd[0])
    return Rec(g, opd[1], params_for(g, int(opd[2])), -1, key)


def _sub_recs(subd: Sequence, loc: Sequence[int], major: float,
              j0: int = 0) -> list[Rec]:
    rad = subd[0]
    out = []
    for j, (l, k) in enumerate(subd[1]):
        g = gate_for([rad[q] for q in l])
        out.append(Rec(g, [loc[q] for q in l], params_for(g, int(k)), -1,
                       (major, j0 + j)))
    return out


def _sub_problem(pre: Obs, subd: Sequence, loc: Sequence[int]) -> str | None:
    if len(subd[0]) != len(loc):
        return 'size-mismatch'
    if any(q >= pre.nq or q < 0 for q in loc):
        return 'location-off-circuit'
    if any(pre.radixes[q] != r for q, r in zip(loc, subd[0])):
        return 'radix-mismatch'
    return None


def _norm_insert(n: int, c: int) -> tuple[Any, str]:
    """-> (cycle or 'append', argclass) following Circuit.insert's docstring."""
    if n == 0:
        return 'append', 'empty-circuit'
    if c >= n:
        return 'append', 'past-end'
    if c < -n:
        return 0, 'below-range'
    if c < 0:
        return c + n, 'negative'
    return c, 'in-range'


def _point(pre: Obs, p: Sequence[int]) -> tuple[str, int, int, Rec | None, str]:
    """-> (status, cycle, qudit, rec, argclass); status ok | idle | oor."""
    c, q = int(p[0]), int(p[1])
    if not (-pre.n <= c < pre.n and -pre.nq <= q < pre.nq):
        return 'oor', c, q, None, 'point-out-of-range'
    neg = c < 0 or q < 0
    cn = c + pre.n if c < 0 else c
    qn = q + pre.nq if q < 0 else q
    r = pre.grid[cn][qn]
    if r is None:
        return 'idle', cn, qn, None, 'idle-point'
    return 'ok', cn, qn, r, 'negative' if neg else 'in-range'


def _same_op(r: Rec, gate: Any, loc: Sequence[int], params: Sequence[float]) -> bool:
    return (r.loc == tuple(loc) and r.gate == gate
            and r.params == tuple(float(p) for p in params))


def predict(pre: Obs, call: Sequence) -> Pred:
    m, a = call[0], call[1:]
    P = Pred(pre)
    n, nq = pre.n, pre.nq

    if m in ('append', 'append_gate'):
        bad = _op_problem(pre, a[0])
        if bad:
            return P.reject(bad)
        r = _rec(a[0], (INF, 0))
        P.items.append(r)
        P.ret = ('cycle-of', r)
        return P

    if m == 'extend':
        for j, d in enumerate(a[0]):
            bad = _op_problem(pre, d)
            if bad:
                return P.reject(bad)
            P.items.append(_rec(d, (INF, j)))
        P.argclass = 'empty-list' if not a[0] else 'plain'
        return P

    if m in ('append_circuit', 'iadd'):
        if m == 'iadd':
            subd, loc, as_gate = a[0], list(range(nq)), False
        else:
            subd, loc, as_gate = a[0], a[1], bool(a[2])
        bad = _sub_problem(pre, subd, loc)
        if bad == 'radix-mismatch' and not subd[1]:
            P.mode = 'skip'
            return P
        if bad:
            return P.reject(bad)
        recs = _sub_recs(subd, loc, INF)
        P.items.extend(recs)
        P.seq = recs
        P.argclass = ('as-block' if as_gate else 'flat') + \
            ('-empty' if not recs else '')
        if m == 'append_circuit':
            P.ret = ('append-circuit', recs, as_gate, list(loc))
        else:
            P.ret = ('is-circuit',)
        return P

    if m in ('insert', 'insert_gate'):
        bad = _op_problem(pre, a[1])
        if bad:
            return P.reject(bad)
        cn, P.argclass = _norm_insert(n, int(a[0]))
        if m == 'insert_gate' and P.argclass in ('past-end', 'below-range'):
            P.mode = 'either'    # its docstring announces IndexError
        if cn == 'append':
            r = _rec(a[1], (INF, 0))
        else:
            r = _rec(a[1], (cn - 0.5, 0))
            if P.argclass == 'in-range':
                P.ret = ('at-cycle', cn, r)
        P.items.append(r)
        return P

    if m == 'insert_circuit':
        subd, loc, as_gate = a[1], a[2], bool(a[3])
        bad = _sub_problem(pre, subd, loc)
        if bad == 'radix-mismatch' and not subd[1]:
            P.mode = 'skip'
            return P
        if bad:
            return P.reject(bad)
        cn, P.argclass = _norm_insert(n, int(a[0]))
        recs = _sub_recs(subd, loc, INF if cn == 'append' else cn - 0.5)
        P.items.extend(recs)
        P.seq = recs
        P.argclass = ('in-range' if P.argclass == 'in-range'
                      else 'index-outside-0..n-1') + ('-block' if as_gate else '-flat')
        return P

    if m == 'pop':
        if a[0] is None:
            if n == 0:
                return P.reject('empty-circuit')
            P.special = 'pop-default'
            P.argclass = 'default'
            return P
        st, cn, qn, r, P.argclass = _point(pre, a[0])
        if st != 'ok':
            return P.reject(P.argclass)
        P.items.remove(r)
        P.ret = ('op-equals', r)
        return P

    if m == 'batch_pop':
        sts = [_point(pre, p) for p in a[0]]
        if any(s[0] == 'oor' for s in sts):
            return P.reject('point-out-of-range')
        gone = []
        for s in sts:
            if s[0] == 'ok' and not any(s[3] is g for g in gone):
                gone.append(s[3])
        if not gone:
            return P.reject('no-operation-at-any-point')
        P.argclass = 'negative' if any(s[4] == 'negative' for s in sts) else (
            'with-idle-points' if any(s[0] == 'idle' for s in sts) else 'in-range')
        for g in gone:
            P.items.remove(g)
        P.ret = ('popped-circuit', gone)
        return P

    if m in ('remove_op', 'remove_gate', 'remove_op_at', 'remove_gate_at'):
        if m.endswith('_at'):
            st, cn, qn, r, _ = _point(pre, a[0])
            if st != 'ok':
                P.mode = 'skip'
                return P
            gate, loc, params = r.gate, r.loc, r.params
        elif m == 'remove_op':
            bad = _op_problem(pre, a[0])
            if bad:
                return P.reject(bad)
            t = _rec(a[0], (0, 0))
            gate, loc, params = t.gate, t.loc, t.params
        else:
            gate, loc, params = gate_for(a[0]), None, None
        if 'gate' in m:
            cands = [r for r in pre.recs if r.gate == gate]
            cands.sort(key=lambda r: (r.cyc, min(r.loc)))
            P.argclass = 'gate'
        else:
            cands = [r for r in pre.recs if _same_op(r, gate, loc, params)]
            cands.sort(key=lambda r: r.cyc)
            P.argclass = 'operation'
        if not cands:
            return P.reject(P.argclass + '-absent')
        P.items.remove(cands[0])
        return P

    if m in ('replace', 'replace_gate'):
        st, cn, qn, old, P.argclass = _point(pre, a[0])
        if st != 'ok':
            return P.reject(P.argclass)
        bad = _op_problem(pre, a[1])
        if bad:
            return P.reject(bad)
        newloc = list(a[1][1])
        if not set(newloc) & set(old.loc):
            return P.reject('disjoint-location')
        if qn not in newloc:
            P.mode = 'either'
            P.argclass += '-point-qudit-not-in-new-location'
        P.items.remove(old)
        P.items.append(_rec(a[1], (old.cyc, 0)))
        P.argclass += ('' if set(newloc) == set(old.loc) else
                       '-grow' if set(newloc) > set(old.loc) else
                       '-shrink' if set(newloc) < set(old.loc) else '-move')
        return P

    if m == 'replace_with_circuit':
        st, cn, qn, old, P.argclass = _point(pre, a[0])
        if st != 'ok':
            return P.reject(P.argclass)
        subd, as_gate = a[1], bool(a[2])
        if len(subd[0]) != len(old.loc):
            return P.reject('size-mismatch')
        if tuple(subd[0]) != tuple(pre.radixes[q] for q in old.loc):
            return P.reject('radix-mismatch')
        recs = _sub_recs(subd, old.loc, old.cyc)
        P.items.remove(old)
        P.items.extend(recs)
        P.seq = recs
        P.argclass += '-block' if as_gate else '-flat'
        return P

    if m == 'batch_replace':
        pts, opds = a[0], a[1]
        if len(pts) != len(opds):
            return P.reject('length-mismatch')
        olds = []
        for p, d in zip(pts, opds):
            st, cn, qn, old, ac = _point(pre, p)
            if st != 'ok':
                return P.reject(ac)
            if ac == 'negative' or any(old is o for o in olds):
                P.mode = 'skip'
                return P
            bad = _op_problem(pre, d)
            if bad:
                return P.reject(bad)
            if not set(d[1]) & set(old.loc):
                return P.reject('disjoint-location')
            if qn not in d[1]:
                P.mode = 'either'
            olds.append(old)
        floating = []
        for old, d in zip(olds, opds):
            P.items.remove(old)
            r = _rec(d, (old.cyc, 0))
            P.items.append(r)
            if not set(d[1]) <= set(old.loc):
                floating.append(r)
        if floating:
            P.data = floating
        P.argclass = 'same-locations' if all(
            set(d[1]) == set(o.loc) for o, d in zip(olds, opds)
        ) else 'changed-locations'
        return P

    if m == 'pop_cycle':
        c = int(a[0])
        if not -n <= c < n:
            return P.reject('cycle-out-of-range')
        P.argclass = 'negative' if c < 0 else 'in-range'
        cn = c + n if c < 0 else c
        P.items = [r for r in P.items if r.cyc != cn]
        return P

    if m in ('insert_qudit', 'append_qudit'):
        radix = int(a[-1])
        if radix < 2:
            return P.reject('radix-below-2')
        if m == 'append_qudit':
            idx = nq
        else:
            q = int(a[0])
            P.argclass = ('past-end' if q > nq else 'below-range' if q < -nq
                          else 'negative' if q < 0 else 'in-range')
            idx = nq if q >= nq else max(0, q + nq) if q < 0 else q
        rad = list(pre.radixes)
        rad.insert(idx, radix)
        P.radixes = tuple(rad)
        P.items = [r.moved([q if q < idx else q + 1 for q in r.loc])
                   for r in P.items]
        return P

    if m == 'pop_qudit':
        q = int(a[0])
        if not -nq <= q < nq:
            return P.reject('qudit-out-of-range')
        if nq == 1:
            return P.reject('only-qudit')
        P.argclass = 'negative' if q < 0 else 'in-range'
        qn = q + nq if q < 0 else q
        rad = list(pre.radixes)
        rad.pop(qn)
        P.radixes = tuple(rad)
        P.items = [r.moved([x if x < qn else x - 1 for x in r.loc])
                   for r in P.items if qn not in r.loc]
        return P

    if m == 'renumber_qudits':
        perm = [int(x) for x in a[0]]
        if len(perm) != nq:
            return P.reject('wrong-length')
        if len(set(perm)) != len(perm):
            return P.reject('duplicate-index')
        if any(not 0 <= x < nq for x in perm):
            return P.reject('index-out-of-range')
        rad = [0] * nq
        for i, p in enumerate(perm):
            rad[p] = pre.radixes[i]
        P.radixes = tuple(rad)
        P.argclass = 'same-radix-permutation' if P.radixes == pre.radixes \
            else 'mixed-radix-permutation'
        P.items = [r.moved([perm[q] for q in r.loc]) for r in P.items]
        P.urel = 'renumber'
        P.data = perm
        return P

    if m in ('fold', 'straighten'):
        reg = a[0]
        if not reg:
            P.argclass = 'empty-region'
            P.mode = 'raise' if m == 'fold' else 'either'
            return P
        off = any(q >= nq or q < 0 or hi >= n or lo < 0 or lo > hi
                  for q, lo, hi in reg)
        if off:
            return P.reject('region-off-grid')
        P.mode = 'either'
        P.argclass = 'region'
        P.urel = 'same'
        P.ret = ('fold-point',) if m == 'fold' else ('straighten-stats',)
        return P

    if m == 'unfold':
        st, cn, qn, r, P.argclass = _point(pre, a[0])
        if st != 'ok':
            return P.reject(P.argclass)
        if not r.is_block:
            return P.reject('not-a-block')
        P.urel = 'same'
        return P

    if m == 'batch_unfold':
        for p in a[0]:
            st, cn, qn, r, ac = _point(pre, p)
            if st != 'ok':
                return P.reject(ac)
            if not r.is_block:
                return P.reject('not-a-block')
            if ac == 'negative':
                P.mode = 'skip'
                return P
        P.argclass = f'{min(len(a[0]), 2)}-blocks' if a[0] else 'no-points'
        P.urel = 'same'
        return P

    if m in ('unfold_all', 'compress', 'copy'):
        P.urel = 'same'
        if m == 'unfold_all':
            P.ret = ('no-blocks',)
        if m == 'copy':
            P.ret = ('new-object',)
        return P

    if m == 'add':
        if a[0] == 'self':
            other = [r.moved(r.loc, (INF, j))
                     for j, r in enumerate(pre.program())]
            P.argclass = 'self'
        else:
            bad = _sub_problem(pre, a[0], list(range(nq)))
            if bad:
                return P.reject(bad)
            other = _sub_recs(a[0], list(range(nq)), INF)
        P.items.extend(other)
        P.ret = ('new-object',)
        return P

    if m in ('mul', 'imul'):
        k = int(a[0])
        if k < 1:
            P.mode = 'skip'
            return P
        prog = pre.program()
        reps = k if m == 'mul' else k - 1
        base = [] if m == 'mul' else list(pre.recs)
        P.items = base + [
            r.moved(r.loc, (INF, i * len(prog) + j))
            for i in range(reps) for j, r in enumerate(prog)
        ]
        P.argclass = 'times-k'
        P.ret = ('new-object',) if m == 'mul' else ('is-circuit',)
        return P

    if m == 'get_inverse':
        P.special = 'inverse'
        P.urel = 'inverse'
        P.ret = ('new-object',)
        return P

    if m == 'freeze_param':
        i = int(a[0])
        prog = pre.program()
        total = sum(len(r.params) for r in prog)
        if i < 0 or i >= total:
            return P.reject('param-index-out-of-range')
        acc = 0
        for r in prog:
            if i < acc + len(r.params):
                j = i - acc
                break
            acc += len(r.params)
        if r.is_block:
            P.mode = 'skip'
            return P
        g = r.gate.with_frozen_params({j: r.params[j]})
        P.items.remove(r)
        P.items.append(Rec(g, r.loc, r.params[:j] + r.params[j + 1:],
                           r.cyc, r.key))
        P.urel = 'same'
        return P

    raise vf.common.HarnessError(f'no model for {m}')


# --------------------------------------------------------------------------
# 7. judging
# --------------------------------------------------------------------------
def _leaf_sigs(r: Rec, q: int) -> list[str]:
    return [lf.sig() for lf in r.leaves() if q in lf.loc]


def match_timelines(actual: list[list[str]], items: list[Rec], nq: int) -> bool:
    """Do the unfolded timelines equal the expected operations sorted by key
    (operations with equal keys on one qudit in either order)?"""
    if len(actual) != nq:
        return False
    for q in range(nq):
        its = sorted((r for r in items if q in r.loc), key=lambda r: r.key)
        pos = 0
        act = actual[q]
        i = 0
        while i < len(its):
            j = i
            while j < len(its) and its[j].key == its[i].key:
                j += 1
            group = its[i:j]
            ok = False
            for perm in itertools.permutations(group):
                seq: list[str] = []
                for r in perm:
                    seq.extend(_leaf_sigs(r, q))
                if act[pos:pos + len(seq)] == seq:
                    ok = True
                    pos += len(seq)
                    break
            if not ok:
                return False
            i = j
        if pos != len(act):
            return False
    return True


def _all_leaf_sigs(items: Iterable[Rec]) -> Counter:
    c: Counter = Counter()
    for r in items:
        for lf in r.leaves():
            c[lf.sig()] += 1
    return c


_MATS: dict = {}


def _mat(r: Rec) -> np.ndarray:
    k = (r.desc, r.params)
    m = _MATS.get(k)
    if m is None:
        if len(_MATS) > 20000:
            _MATS.clear()
        m = _MATS[k] = np.asarray(r.gate.get_unitary(list(r.params)))
    return m


def _close(a: np.ndarray, b: np.ndarray) -> bool:
    return a.shape == b.shape and bool(np.max(np.abs(a - b), initial=0.0) <= TOL)


def _sig_of_op(op: Any) -> str:
    return Rec(op.gate, op.location, op.params).sig()


def _check_ret(P: Pred, pre: Obs, post: Obs, out: Outcome,
               pre_c: Circuit, post_c: Circuit) -> str | None:
    """-> description of a return-value mismatch, or None."""
    kind = P.ret[0]
    ret = out.ret
    if kind in ('cycle-of', 'at-cycle'):
        r = P.ret[-1]
        cyc = ret if kind == 'cycle-of' else P.ret[1]
        if kind == 'cycle-of' and not (isinstance(ret, (int, np.integer))
                                        and 0 <= ret < post.n):
            return f'returned {ret!r}, not a cycle index'
        for q in r.loc:
            cell = post.grid[cyc][q] if cyc < post.n else None
            if cell is None or cell.sig() != r.sig():
                return (f'operation {r.sig()} is not at cycle {cyc} '
                        f'(qudit {q} holds {cell.sig() if cell else None})')
        return None
    if kind == 'append-circuit':
        recs, as_gate = P.ret[1], P.ret[2]
        if not recs:
            if not as_gate and ret != -1:
                return f'empty circuit appended but {ret!r} returned, not -1'
            return None
        if as_gate:
            want = {post.timeline(P.ret[3][0])[-1].cyc}
        else:
            cycs = []
            seen: Counter = Counter()
            for r in recs:
                q = r.loc[0]
                idx = len(pre.timeline(q)) + seen[q]
                tl = post.timeline(q)
                if idx >= len(tl):
                    return None
                cycs.append(tl[idx].cyc)
                for x in r.loc:
                    seen[x] += 1
            want = {cycs[0], min(cycs)}
        if ret not in want:
            return (f'returned {ret!r}; the appended circuit starts at cycle '
                    f'{sorted(want)}')
        return None
    if kind == 'op-equals':
        r = P.ret[1]
        try:
            s = _sig_of_op(ret)
        except Exception:
            return f'returned {ret!r}, not an operation'
        return None if s == r.sig() else f'returned {s}, popped {r.sig()}'
    if kind == 'popped-circuit':
        gone = P.ret[1]
        if not isinstance(ret, Circuit):
            return f'returned {type(ret).__name__}, not a Circuit'
        qs = sorted({q for g in gone for q in g.loc})
        items = [g.moved([qs.index(q) for q in g.loc]) for g in gone]
        ro = observe(ret)
        if ro.radixes != tuple(pre.radixes[q] for q in qs):
            return f'returned circuit has radixes {ro.radixes}'
        if not match_timelines(unfolded_timelines(ro), items, len(qs)):
            return ('returned circuit does not hold the popped operations in '
                    f'their order: {obs_desc(ro)}')
        return None
    if kind == 'fold-point':
        try:
            cell = post.grid[ret[0]][ret[1]]
        except Exception:
            return f'returned {ret!r}, not a point of the circuit'
        if cell is None or not cell.is_block:
            return f'no CircuitGate at the returned point {tuple(ret)}'
        return None
    if kind == 'straighten-stats':
        try:
            net = int(ret[1])
        except Exception:
            return f'returned {ret!r}'
        if net != post.n - pre.n:
            return (f'reports {net} net new cycles, the circuit went from '
                    f'{pre.n} to {post.n} cycles')
        return None
    if kind == 'no-blocks':
        if any(r.is_block for r in post.recs):
            return 'a CircuitGate is left after unfold_all'
        return None
    if kind == 'new-object':
        return 'returned the same object' if post_c is pre_c else None
    if kind == 'is-circuit':
        if out.ret is not post_c:
            return f'in-place operator returned {out.ret!r}; `c op= x` rebinds c to it'
        return None
    raise vf.common.HarnessError(kind)


def judge_transition(pre: Obs, pre_c: Circuit, call: Sequence, out: Outcome,
                     post_c: Circuit, cache: dict) -> tuple[list, Obs | None, bool]:
    """-> (findings [(property, signature, text)], post observation, go_on)."""
    m = call[0]
    P = predict(pre, call)
    F: list[tuple[str, str, str]] = []
    head = f'{m}/{P.argclass}'
    if not out.ok:
        internal = out.exc not in DOCUMENTED or (
            out.exc == 'TypeError' and P.mode in ('ok', 'either'))
        if P.mode == 'skip':
            pass
        elif internal and P.mode in ('ok', 'either'):
            F.append(('C05', f'{head}/internal-error-{out.exc}@{out.origin}',
                      f'{m} with valid arguments raised {out.exc}({out.msg}) '
                      f'in {out.origin}'))
        elif internal:
            F.append(('C04', f'{head}/undocumented-{out.exc}@{out.origin}',
                      f'{m} with {P.argclass} arguments raised {out.exc}'
                      f'({out.msg}) in {out.origin}, not one of '
                      'IndexError/ValueError/TypeError'))
        elif P.mode == 'ok':
            F.append(('C04', f'{head}/valid-call-raised-{out.exc}@{out.origin}',
                      f'{m} with valid arguments raised {out.exc}({out.msg})'))
        return F, None, False

    post = observe(post_c)
    if P.mode == 'raise':
        F.append(('C04', f'{head}/invalid-argument-accepted',
                  f'{m} accepted {P.argclass} arguments without raising; '
                  f'circuit afterwards {obs_desc(post)}'))
        return F, post, False
    if P.mode == 'skip':
        return F, post, True
    if out.extra:
        F.append(('C04', f'{head}/{out.extra}', f'{m} returned {out.ret!r}'))
        return F, post, False

    actual = unfolded_timelines(post)
    good = True
    if P.special == 'pop-default':
        try:
            s = _sig_of_op(out.ret)
        except Exception:
            s = None
        cands = [r for r in pre.recs if r.sig() == s
                 and all(pre.timeline(q)[-1] is r for q in r.loc)]
        if not cands:
            F.append(('C04', f'{head}/popped-operation-not-last',
                      f'pop() returned {s}, which is not a last operation of '
                      f'{obs_desc(pre)}'))
            return F, post, True
        P.items.remove(cands[0])
    if P.special == 'inverse':
        bad = None
        if post.radixes != pre.radixes:
            bad = f'radixes {post.radixes}'
        for q in range(pre.nq):
            if bad:
                break
            a_, b_ = post.timeline(q), pre.timeline(q)[::-1]
            if len(a_) != len(b_):
                bad = f'qudit {q}: {len(a_)} operations, expected {len(b_)}'
                break
            for x, y in zip(a_, b_):
                if x.loc != y.loc or not _close(_mat(x), _mat(y).conj().T):
                    bad = (f'qudit {q}: {x.sig()} is not the inverse of '
                           f'{y.sig()} at the mirrored position')
                    break
        if bad:
            good = False
            F.append(('C04', f'{head}/not-the-reversed-inverses', bad))
    else:
        if post.radixes != P.radixes:
            good = False
            F.append(('C04', f'{head}/radixes-differ',
                      f'radixes {post.radixes}, expected {P.radixes}'))
            return F, post, False
        elif m == 'batch_replace' and P.data:
            # replacements that grow onto further qudits: the docstring does
            # not say where they go relative to the other replacements, so
            # only their presence and the order of everything else is judged
            fl = {x for r in P.data for x in (lf.sig() for lf in r.leaves())}
            rest = [r for r in P.items if not any(r is f for f in P.data)]
            act2 = [[x for x in tl if x not in fl] for tl in actual]
            if _all_leaf_sigs(P.items) != _all_leaf_sigs(post.recs):
                good = False
                F.append(('C04', f'{head}/operations-differ',
                          f'after {m}: per-qudit order {actual}'))
            elif not match_timelines(act2, rest, post.nq):
                good = False
                F.append(('C04', f'{head}/order-differs',
                          f'after {m}: per-qudit order {actual} (ignoring the '
                          'grown replacements) differs from the reference'))
        elif not match_timelines(actual, P.items, post.nq):
            good = False
            kind = 'order-differs'
            if _all_leaf_sigs(P.items) != _all_leaf_sigs(post.recs):
                kind = 'operations-differ'
            elif P.seq:
                kind = 'sequence-misplaced'
                for q in range(post.nq):
                    want = [x for r in P.seq for x in _leaf_sigs(r, q)]
                    have = [x for x in actual[q] if x in set(want)]
                    if have != want:
                        kind = 'sequence-misordered'
            exp = [[s for r in sorted((r for r in P.items if q in r.loc),
                                      key=lambda r: r.key)
                    for s in _leaf_sigs(r, q)] for q in range(post.nq)]
            F.append(('C04', f'{head}/{kind}',
                      f'after {m}: per-qudit order {actual}, the reference '
                      f'model expects {exp}'))
    if good and P.ret is not None:
        msg = _check_ret(P, pre, post, out, pre_c, post_c)
        if msg:
            F.append(('C04', f'{head}/return-value', f'{m}: {msg}'))
    if good and P.urel is not None and not post.problems:
        try:
            if 'U' not in cache:
                cache['U'] = np.asarray(pre_c.get_unitary())
            U0 = cache['U']
            U1 = np.asarray(post_c.get_unitary())
        except Exception:
            U0 = U1 = None
        if U0 is not None:
            if P.urel == 'same' and not _close(U0, U1):
                F.append(('C04', f'{head}/unitary-changed',
                          f'{m} changed the unitary by '
                          f'{np.max(np.abs(U0 - U1)):.2e}'))
            if P.urel == 'renumber':
                Pm = perm_matrix(P.data, pre.radixes)
                if not _close(Pm @ U0 @ Pm.T, U1):
                    F.append(('C04', f'{head}/unitary-not-conjugated',
                              'renumber_qudits: unitary is not P U P^T'))
            if P.urel == 'inverse' and not _close(U1 @ U0, np.eye(len(U0))):
                F.append(('C04', f'{head}/inverse-times-original-not-identity',
                          'get_inverse() @ original != identity'))
    return F, post, True


def check_views(c: Circuit, o: Obs) -> list[tuple[str, str]]:
    """C05 invariant: every public view agrees with the grid `o`."""
    B: list[tuple[str, str]] = list(o.problems)
    nq, n = o.nq, o.n

    def bad(kind: str, text: str) -> None:
        B.append((kind, text))

    for cy, row in enumerate(o.grid):
        if all(r is None for r in row):
            bad('idle-cycle', f'cycle {cy} of {n} holds no operation')
    for r in o.recs:
        rad = tuple(int(x) for x in r.gate.radixes)
        if any(q >= nq for q in r.loc) or \
                rad != tuple(o.radixes[q] for q in r.loc if q < nq):
            bad('op-radix-mismatch',
                f'{r.sig()} on qudits of radix '
                f'{[o.radixes[q] for q in r.loc if q < nq]}')
    if B:
        return B   # the remaining views are read relative to a sane grid

    pt = {id(r): CircuitPoint(r.cyc, r.loc[0]) for r in o.recs}
    tls = [o.timeline(q) for q in range(nq)]
    # ---- counters
    if c.num_operations != len(o.recs) or len(c) != len(o.recs):
        bad('num_operations', f'{c.num_operations}/{len(c)} vs {len(o.recs)} in the grid')
    want_counts: dict = {}
    for r in o.recs:
        want_counts[r.gate] = want_counts.get(r.gate, 0) + 1
    got_counts = c.gate_counts
    if got_counts != want_counts:
        bad('gate_counts', f'{got_counts} vs {want_counts} in the grid')
    for g, k in want_counts.items():
        if c.count(g) != k or g not in c:
            bad('count-gate', f'count({g})={c.count(g)}, {k} in the grid')
    npar = sum(len(r.params) for r in o.recs)
    if c.num_params != npar or len(c.params) != npar:
        bad('num_params', f'{c.num_params}/{len(c.params)} vs {npar} in the grid')
    edges = {tuple(sorted((a, b))) for r in o.recs
             for a in r.loc for b in r.loc if a != b}
    got_edges = {tuple(sorted(e)) for e in c.coupling_graph}
    if got_edges != edges:
        bad('coupling_graph', f'{sorted(got_edges)} vs {sorted(edges)} in the grid')
    act = [q for q in range(nq) if tls[q]]
    if list(c.active_qudits) != act:
        bad('active_qudits', f'{c.active_qudits} vs {act}')
    d = [0] * nq
    for r in sorted(o.recs, key=lambda r: r.cyc):
        v = max(d[q] for q in r.loc) + 1
        for q in r.loc:
            d[q] = v
    if c.depth != (max(d) if d else 0):
        bad('depth', f'{c.depth} vs {max(d) if d else 0}')
    if c.num_cycles != n:
        bad('num_cycles', f'{c.num_cycles} vs {n}')
    # ---- links
    for q in range(nq):
        f = pt[id(tls[q][0])] if tls[q] else None
        l = pt[id(tls[q][-1])] if tls[q] else None
        if c.first_on(q) != f:
            bad('first_on', f'first_on({q})={c.first_on(q)} vs {f}')
        if c.last_on(q) != l:
            bad('last_on', f'last_on({q})={c.last_on(q)} vs {l}')
    nxt: dict[int, set] = {id(r): set() for r in o.recs}
    prv: dict[int, set] = {id(r): set() for r in o.recs}
    for q in range(nq):
        for x, y in zip(tls[q], tls[q][1:]):
            nxt[id(x)].add(pt[id(y)])
            prv[id(y)].add(pt[id(x)])
    for r in o.recs:
        p = pt[id(r)]
        try:
            gn, gp = set(c.next(p)), set(c.prev(p))
        except Exception as e:
            bad('next-prev-raise', f'next/prev({p}) raised {type(e).__name__}({e})')
            continue
        if gn != nxt[id(r)]:
            bad('next', f'next({p})={sorted(gn)} vs {sorted(nxt[id(r)])}')
        if gp != prv[id(r)]:
            bad('prev', f'prev({p})={sorted(gp)} vs {sorted(prv[id(r)])}')
    if B:
        return B
    wf = {pt[id(r)] for r in o.recs if not prv[id(r)]}
    wr = {pt[id(r)] for r in o.recs if not nxt[id(r)]}
    if set(c.front) != wf:
        bad('front', f'{sorted(c.front)} vs {sorted(wf)}')
    if set(c.rear) != wr:
        bad('rear', f'{sorted(c.rear)} vs {sorted(wr)}')
    # ---- iteration
    want_tl = [[(r.cyc, r.sig()) for r in tl] for tl in tls]
    for name, it, rev in (
        ('iteration', lambda: c.operations_with_cycles(), False),
        ('reverse-iteration', lambda: c.operations_with_cycles(reverse=True), True),
    ):
        try:
            seq = [(int(cy), Rec(op.gate, op.location, op.params))
                   for cy, op in it()]
        except Exception as e:
            bad(name + '-raise', f'{type(e).__name__}({e})')
            continue
        if len(seq) != len(o.recs):
            bad(name + '-count', f'{len(seq)} operations yielded, {len(o.recs)} in the grid')
            continue
        got = [[(cy, r.sig()) for cy, r in seq if q in r.loc] for q in range(nq)]
        if rev:
            got = [g[::-1] for g in got]
        if got != want_tl:
            bad(name + '-order', f'{got} vs timelines {want_tl}')
    try:
        plain = [_sig_of_op(op) for op in c]
        if Counter(plain) != Counter(r.sig() for r in o.recs):
            bad('iter-multiset', f'{plain}')
    except Exception as e:
        bad('iteration-raise', f'{type(e).__name__}({e})')
    # ---- membership / point / count of operations
    sigs = Counter(r.sig() for r in o.recs)
    for r in o.recs:
        op = Operation(r.gate, r.loc, list(r.params))
        if op not in c:
            bad('contains', f'{r.sig()} not `in` circuit')
        same = [t for t in o.recs if _same_op(t, r.gate, r.loc, r.params)]
        if c.count(op) != len(same):
            bad('count-op', f'count({r.sig()})={c.count(op)} vs {len(same)}')
        try:
            p = c.point(op)
            first = min(same, key=lambda t: t.cyc)
            if tuple(p) != (first.cyc, r.loc[0]):
                bad('point', f'point({r.sig()})={tuple(p)} vs {(first.cyc, r.loc[0])}')
        except Exception as e:
            bad('point-raise', f'point({r.sig()}) raised {type(e).__name__}({e})')
    del sigs
    return B


def drain_probe(c: Circuit, n_ops: int) -> tuple[str, str] | None:
    """Pop everything with pop(); exposes stale hidden counters.  Mutates c."""
    try:
        for _ in range(n_ops):
            c.pop()
    except Exception as e:
        return (f'drain-{type(e).__name__}@{_origin(e.__traceback__)}',
                f'pop() of the remaining operations raised '
                f'{type(e).__name__}({e})')
    left = (c.num_operations, c.num_cycles, sorted(map(tuple, c.coupling_graph)),
            dict(c.gate_counts), list(c.active_qudits))
    if left != (0, 0, [], {}, []):
        return ('drain-leftover',
                'after popping every operation: (num_operations, num_cycles, '
                f'edges, gate_counts, active_qudits) = {left}')
    return None


def judge_state(c: Circuit, o: Obs, last: str) -> tuple[list, bool]:
    """State-level oracles.  -> (findings, broken).  Destroys `c`."""
    F: list[tuple[str, str, str]] = []
    B = check_views(c, o)
    for kind, text in B[:3]:
        F.append(('C05', f'state-after-{last}/{kind}',
                  f'{text}; circuit {obs_desc(o)}'))
    if B:
        return F, True
    try:
        U = np.asarray(c.get_unitary())
        err = None
    except Exception as e:
        U, err = None, f'{type(e).__name__}({e})'
    if err:
        F.append(('C04', f'state-after-{last}/get_unitary-raised',
                  f'get_unitary raised {err} on {obs_desc(o)}'))
        return F, True
    W = oracle_unitary(o)
    if not _close(U, W):
        F.append(('C04', f'state-after-{last}/unitary-not-the-ordered-product',
                  f'get_unitary differs from the product of the operations in '
                  f'grid order by {np.max(np.abs(U - W)):.2e}; {obs_desc(o)}'))
        return F, True
    d = drain_probe(c, len(o.recs))
    if d:
        F.append(('C05', f'state-after-{last}/{d[0]}', f'{d[1]}; circuit {obs_desc(o)}'))
        return F, True
    return F, False


def views_digest(c: Circuit, o: Obs) -> str:
    """The dependency view and the counters as the public API reports them."""
    out = []
    for r in o.recs:
        p = (r.cyc, r.loc[0])
        try:
            out.append((sorted(map(tuple, c.next(p))), sorted(map(tuple, c.prev(p)))))
        except Exception as e:
            out.append(type(e).__name__)
    try:
        for q in range(o.nq):
            out.append((c.first_on(q), c.last_on(q)))
    except Exception as e:
        out.append(type(e).__name__)
    try:
        out.append(sorted((repr(g), k) for g, k in c.gate_counts.items()))
        out.append(sorted(map(tuple, c.coupling_graph)))
    except Exception as e:
        out.append(type(e).__name__)
    return repr(out)


def state_key(c: Circuit, o: Obs) -> bytes:
    """Canonical key from the public read API: the full grid (block bodies
    and parameters included), the links and the counters; refined by
    hidden_digest (edge multiplicities, which no public call reports)."""
    h = hashlib.blake2b(digest_size=12)
    h.update(obs_desc(o).encode())
    h.update(b'#')
    h.update(views_digest(c, o).encode())
    h.update(b'#')
    h.update(hidden_digest(c).encode())
    return h.digest()


# --------------------------------------------------------------------------
# 8. the alphabet: every public editing call, arguments from the current state
# --------------------------------------------------------------------------
def universe_locs(nq: int) -> list[tuple]:
    locs: list[tuple] = [(q,) for q in range(nq)]
    if nq <= 3:
        locs += [(a, b) for a in range(nq) for b in range(nq) if a != b]
    else:
        for a in range(nq - 1):
            locs += [(a, a + 1), (a + 1, a)]
        locs += [(0, nq - 1), (nq - 1, 0)]
    if nq >= 3:
        locs += [(0, 1, 2), (2, 0, 1)]
    if nq >= 4:
        locs += [(nq - 1, 1, 0)]
    return locs


def _fresh_ks(o: Obs, count: int = 4) -> list[int]:
    used = set()
    for r in o.recs:
        for lf in r.leaves():
            if lf.params:
                used.add(int(round(abs(lf.params[0]) * 4)))
    out, k = [], 1
    while len(out) < count:
        if k not in used:
            out.append(k)
        k += 1
    return out


def _shape(arity: int, ks: Sequence[int], small: bool = False) -> list:
    if arity == 2 and small:
        return [[[0], ks[0]], [[0, 1], ks[1]]]
    if arity == 1:
        return [[[0], ks[0]], [[0], ks[1]]]
    if arity == 2:
        return [[[0], ks[0]], [[0, 1], ks[1]], [[1], ks[2]]]
    return [[[0, 1], ks[0]], [[1, 2], ks[1]]]


def op_regions(o: Obs, rectangles: bool = True) -> list[list]:
    """Bounding regions of every non-empty subset of operations (<= 6 ops:
    all subsets; more: all pairs and contiguous runs), plus all rectangles."""
    regs: dict[tuple, list] = {}
    recs = o.recs
    if len(recs) <= 6:
        subsets: Iterable = itertools.chain.from_iterable(
            itertools.combinations(recs, k) for k in range(1, len(recs) + 1))
    else:
        subsets = itertools.chain(
            ((r,) for r in recs), itertools.combinations(recs, 2),
            (tuple(recs[i:j]) for i in range(len(recs))
             for j in range(i + 3, len(recs) + 1)))
    for sub in subsets:
        b: dict[int, list] = {}
        for r in sub:
            for q in r.loc:
                if q not in b:
                    b[q] = [r.cyc, r.cyc]
                b[q][0] = min(b[q][0], r.cyc)
                b[q][1] = max(b[q][1], r.cyc)
        reg = [[q, b[q][0], b[q][1]] for q in sorted(b)]
        regs.setdefault(tuple(map(tuple, reg)), reg)
    for k in range(1, o.nq + 1 if rectangles else 0):
        for qs in itertools.combinations(range(o.nq), k):
            for lo in range(o.n):
                for hi in range(lo, o.n):
                    reg = [[q, lo, hi] for q in qs]
                    regs.setdefault(tuple(map(tuple, reg)), reg)
    return list(regs.values())


def long_regions(o: Obs) -> list[list]:
    """Regions for wide, deep circuits: bounding regions of runs of 1..4
    consecutive operations (program order) on a window of start positions,
    and 1-2 cycle wide rectangles on single qudits and adjacent pairs."""
    prog = o.program()
    starts = sorted({0, 1, len(prog) // 3, len(prog) // 2, 2 * len(prog) // 3,
                     max(0, len(prog) - 4), max(0, len(prog) - 2)})
    regs: dict[tuple, list] = {}
    for i in starts:
        for k in range(1, 5):
            sub = prog[i:i + k]
            if len(sub) < k:
                continue
            b: dict[int, list] = {}
            for r in sub:
                for q in r.loc:
                    b.setdefault(q, [r.cyc, r.cyc])
                    b[q][0] = min(b[q][0], r.cyc)
                    b[q][1] = max(b[q][1], r.cyc)
            reg = [[q, b[q][0], b[q][1]] for q in sorted(b)]
            regs.setdefault(tuple(map(tuple, reg)), reg)
    # staggered regions: bounding regions of pairs of sampled operations
    for x, y in itertools.combinations([prog[i] for i in starts if i < len(prog)], 2):
        b = {}
        for r in (x, y):
            for q in r.loc:
                b.setdefault(q, [r.cyc, r.cyc])
                b[q][0] = min(b[q][0], r.cyc)
                b[q][1] = max(b[q][1], r.cyc)
        reg = [[q, b[q][0], b[q][1]] for q in sorted(b)]
        regs.setdefault(tuple(map(tuple, reg)), reg)
    for lo in sorted({0, o.n // 2, max(0, o.n - 2)}):
        for w in (0, 1):
            if lo + w >= o.n:
                continue
            for q in range(o.nq):
                for qs in ((q,), (q, q + 1)):
                    if qs[-1] < o.nq:
                        reg = [[x, lo, lo + w] for x in qs]
                        regs.setdefault(tuple(map(tuple, reg)), reg)
    return list(regs.values())


def alphabet(o: Obs, cfg: dict) -> list[list]:
    nq, n, recs = o.nq, o.n, o.recs
    rad = list(o.radixes)
    base_nq = len(cfg['radixes'])
    lean = bool(cfg.get('lean'))
    ks = _fresh_ks(o)
    k0 = ks[0]
    long = bool(cfg.get('long'))
    lean = lean or long
    max_ops = int(cfg.get('max_ops', MAX_OPS))
    grow = len(recs) < max_ops and n < int(cfg.get('max_cycles', MAX_CYCLES))
    all_recs = recs
    if long and len(recs) > 5:
        multi = [r for r in recs if len(r.loc) > 1]
        pick = [recs[0], recs[len(recs) // 2], recs[-1]] + multi[:1] + multi[-1:]
        recs = [r for i, r in enumerate(recs) if any(r is x for x in pick)]
    A: list[list] = []

    def opd(loc: Sequence[int], k: int = k0) -> list:
        return [[rad[q] for q in loc], list(loc), k]

    def subd(loc: Sequence[int], empty: bool = False) -> list:
        return [[rad[q] for q in loc],
                [] if empty else _shape(len(loc), ks, lean)]

    locs = universe_locs(nq)
    if long and nq > 3:
        locs = [(0,), (nq - 1,), (0, 1), (1, 0), (nq - 2, nq - 1),
                (nq // 2, nq // 2 - 1), (0, 1, 2), (nq - 1, 1, 0)]
    F = [opd(l) for l in locs]
    one = [f for f in F if len(f[1]) == 1]
    two = [f for f in F if len(f[1]) == 2]
    bad_ops = [[[2], [nq], k0], [[5 - rad[0]], [0], k0]]   # off circuit, wrong radix
    probe_bad = not (lean and len(recs) >= 3)
    cyc_all = list(range(-n - 1, n + 2))
    cyc_red = sorted({-n - 1, -1, *range(n), n, n + 1})
    cyc_in = list(range(n))
    if long and n > 4:
        cyc_in = sorted({0, n // 2, n - 1})
        cyc_red = sorted({-n - 1, -1, *cyc_in, n, n + 1})
        cyc_all = cyc_red
    occ = [(r.cyc, r.loc[0]) for r in recs]
    sub_locs = [(0,), (nq - 1,)] if nq > 1 else [(0,)]
    if nq >= 2:
        sub_locs += [(0, 1), (1, 0)]
    if nq >= 3:
        sub_locs += [(nq - 1, 0), (0, 1, 2), (2, 0, 1)]
    sub_locs = list(dict.fromkeys(sub_locs))

    if grow:
        # ---- append family
        for f in F + (bad_ops if probe_bad else []):
            A.append(['append', f])
        for f in (one[:1] + two[:1]):
            A.append(['append_gate', f])
        A.append(['extend', []])
        if two:
            A.append(['extend', [opd(one[0][1], ks[0]), opd(two[0][1], ks[1])]])
            A.append(['extend', [opd(two[-1][1], ks[0]), opd(one[-1][1], ks[1])]])
        for l in sub_locs:
            for blk in (False, True):
                A.append(['append_circuit', subd(l), list(l), blk])
        A.append(['append_circuit', subd((0,), True), [0], False])
        A.append(['append_circuit', subd((0,), True), [0], True])
        if nq >= 2:
            A.append(['append_circuit', subd((0,)), [0, 1], False])   # size mismatch
        # ---- insert family
        for c in (cyc_red if lean else cyc_all):
            for f in F:
                A.append(['insert', c, f])
        if probe_bad:
            A.append(['insert', 0, bad_ops[0]])
            A.append(['insert', 0, bad_ops[1]])
        for c in sorted({0, n, n + 1}):
            A.append(['insert_gate', c, (two or one)[0]])
        ic_locs = [l for l in sub_locs if len(l) <= 2]
        if lean:
            ic_locs = ic_locs[:1] + ic_locs[-1:]
        for c in cyc_red:
            for l in ic_locs:
                for blk in (False, True):
                    if lean and blk and c not in (0, n):
                        continue
                    A.append(['insert_circuit', c, subd(l), list(l), blk])
        A.append(['insert_circuit', 0, subd((0,), True), [0], False])
        if nq >= 2:
            A.append(['insert_circuit', 0, subd((0,)), [0, 1], False])
        # ---- concatenation
        if recs and len(all_recs) * 2 <= max_ops + 2:
            A.append(['add', 'self'])
        full = tuple(range(nq))
        whole = [rad, [[list(l), ks[i]] for i, l in enumerate(
            [locs[0], locs[-1]] if len(locs) > 1 else [locs[0]])]]
        A.append(['add', whole])
        A.append(['iadd', whole])
        A.append(['add', [rad[:1], []]] if nq > 1 else ['add', [rad + [2], []]])
        for k in (1, 2, 3):
            if len(all_recs) * k <= max_ops + 2:
                A.append(['mul', k])
                A.append(['imul', k])
        del full
    # ---- pop family
    A.append(['pop', None])
    for c in cyc_in:
        for q in range(nq):
            if lean and o.grid[c][q] is not None and q not in (
                    o.grid[c][q].loc[0], o.grid[c][q].loc[-1]):
                continue
            A.append(['pop', [c, q]])
    for p in ([-1, -1], [-n, 0], [n, 0], [0, nq], [-n - 1, 0], [0, -nq - 1]):
        A.append(['pop', p])
    pairs = list(itertools.combinations(occ, 2))
    for x, y in pairs:
        A.append(['batch_pop', [list(x), list(y)]])
    if len(occ) > 2:
        A.append(['batch_pop', [[r.cyc, r.loc[-1]] for r in all_recs]])
    idle = [[c, q] for c in range(n) for q in range(nq) if o.grid[c][q] is None]
    A.append(['batch_pop', []])
    if occ:
        A.append(['batch_pop', [list(occ[-1]), [n, 0]]])
        A.append(['batch_pop', [[-1, recs[-1].loc[-1] - nq]]])
        if idle:
            A.append(['batch_pop', [list(occ[0]), idle[0]]])
    if idle:
        A.append(['batch_pop', [idle[0]]])
    seen_sig = set()
    seen_gate = []
    for r in recs:
        if r.sig() not in seen_sig:
            seen_sig.add(r.sig())
            A.append(['remove_op_at', [r.cyc, r.loc[0]]])
        if not any(r.gate == g for g in seen_gate):
            seen_gate.append(r.gate)
            A.append(['remove_gate_at', [r.cyc, r.loc[0]]])
    A.append(['remove_op', F[0]])
    A.append(['remove_op', bad_ops[0]])
    A.append(['remove_gate', [3, 3, 3]])
    for c in (range(-n - 1, n + 1) if not long else
              sorted({-n - 1, -n, -1, *cyc_in, n})):
        A.append(['pop_cycle', c])
    # ---- replace family
    for r in recs:
        pts = [[r.cyc, r.loc[0]]] + ([[r.cyc, r.loc[-1]]] if len(r.loc) > 1 else [])
        for p in pts[:1] if lean else pts:
            for f in F:
                if set(f[1]) & set(r.loc):
                    A.append(['replace', p, f])
        subs = [subd(r.loc)]
        for s in subs:
            for blk in (False, True):
                A.append(['replace_with_circuit', pts[-1], s, blk])
        if len(r.loc) <= 2:
            A.append(['replace_with_circuit', pts[0], subd(r.loc, True), False])
    if recs:
        r = recs[-1]
        lastp = [r.cyc, r.loc[0]]
        negp = [r.cyc - n, r.loc[0] - nq]
        disj = [f for f in F if not set(f[1]) & set(r.loc)]
        if disj:
            A.append(['replace', lastp, disj[0]])
        A.append(['replace', lastp, bad_ops[0]])
        A.append(['replace', lastp, [[5 - rad[q] for q in r.loc], list(r.loc), k0]])
        A.append(['replace', negp, opd(r.loc)])
        bigger = [f for f in F if set(f[1]) > set(r.loc)]
        if bigger:
            A.append(['replace', negp, bigger[0]])
        A.append(['replace_gate', lastp, opd(r.loc)])
        A.append(['replace_gate', [recs[0].cyc, recs[0].loc[0]],
                  opd(tuple(reversed(recs[0].loc)))])
        A.append(['replace_with_circuit', negp, subd(r.loc), False])
        wrong = len(r.loc) % 2 + 1
        A.append(['replace_with_circuit', lastp,
                  [[2] * wrong, _shape(wrong, ks)], False])   # wrong size
        if idle:
            A.append(['replace', idle[0], opd((idle[0][1],))])
            A.append(['replace_with_circuit', idle[0], subd((idle[0][1],)), False])
        A.append(['replace', [n, 0], F[0]])
    for (x, rx), (y, ry) in itertools.combinations(list(zip(occ, recs)), 2):
        if rx.cyc == ry.cyc and lean:
            continue
        same = [opd(rx.loc, ks[0]), opd(ry.loc, ks[1])]
        A.append(['batch_replace', [list(x), list(y)], same])
        altx = [f for f in F if set(f[1]) & set(rx.loc) and set(f[1]) != set(rx.loc)
                and rx.loc[0] in f[1]]
        alty = [f for f in F if set(f[1]) & set(ry.loc) and set(f[1]) != set(ry.loc)
                and ry.loc[0] in f[1]]
        if altx and not lean:
            A.append(['batch_replace', [list(y), list(x)],
                      [opd(ry.loc, ks[1]), opd(altx[0][1], ks[0])]])
        if altx and alty:
            A.append(['batch_replace', [list(x), list(y)],
                      [opd(altx[-1][1], ks[0]), opd(alty[0][1], ks[1])]])
    if occ:
        A.append(['batch_replace', [list(occ[0])], []])
    # ---- qudit calls
    if nq <= base_nq:
        for q in sorted({-nq - 1, -nq, -1, 0, nq - 1, nq, nq + 1}):
            A.append(['insert_qudit', q, 2])
        A.append(['insert_qudit', 0, 3])
        A.append(['insert_qudit', nq, 3])
        A.append(['append_qudit', 2])
        A.append(['append_qudit', 3])
    A.append(['insert_qudit', 0, 1])
    A.append(['append_qudit', 1])
    for q in range(-nq - 1, nq + 1):
        A.append(['pop_qudit', q])
    perms = list(itertools.permutations(range(nq)))
    if nq > 3:
        perms = [p for p in perms if sum(i != x for i, x in enumerate(p)) <= 2] \
            + [tuple(list(range(1, nq)) + [0])]
    for p in perms:
        A.append(['renumber_qudits', list(p)])
    A.append(['renumber_qudits', list(range(nq)) + [nq]])
    if nq >= 2:
        A.append(['renumber_qudits', [0] * nq])
        A.append(['renumber_qudits', list(range(1, nq)) + [nq]])
    # ---- regions and blocks
    regs = op_regions(o, rectangles=not lean) if not long else long_regions(o)
    for reg in regs:
        A.append(['fold', reg])
        A.append(['straighten', reg])
    A.append(['fold', []])
    A.append(['straighten', []])
    A.append(['fold', [[0, 0, n]]])
    A.append(['straighten', [[nq, 0, 0]]])
    blocks = [r for r in all_recs if r.is_block]
    for r in blocks:
        for q in dict.fromkeys((r.loc[0], r.loc[-1])):
            A.append(['unfold', [r.cyc, q]])
    if blocks:
        b = blocks[-1]
        A.append(['unfold', [b.cyc - n, b.loc[0]]])
        A.append(['batch_unfold', [[r.cyc, r.loc[-1]] for r in blocks]])
        for x, y in itertools.combinations(blocks, 2):
            A.append(['batch_unfold', [[y.cyc, y.loc[0]], [x.cyc, x.loc[0]]]])
    plain = [r for r in recs if not r.is_block]
    if plain:
        A.append(['unfold', [plain[0].cyc, plain[0].loc[0]]])
    if idle:
        A.append(['unfold', idle[0]])
    A.append(['unfold_all'])
    A.append(['compress'])
    A.append(['copy'])
    A.append(['get_inverse'])
    # ---- parameters
    acc = 0
    firsts = []
    for r in o.program():
        if r.params and not r.is_block:
            firsts.append(acc)
            if len(r.params) > 1 and len(firsts) == 1:
                firsts.append(acc + len(r.params) - 1)
        acc += len(r.params)
    for i in firsts:
        A.append(['freeze_param', i])
    A.append(['freeze_param', acc])
    A.append(['freeze_param', -1])
    return A


# --------------------------------------------------------------------------
# 9. the histbfs Space
# --------------------------------------------------------------------------
class CircuitSpace:
    name = 'bqskit.ir.Circuit editing calls'

    def replay(self, cfg: dict, history: Sequence) -> Circuit:
        rad = [int(r) for r in cfg['radixes']]
        c = Circuit(len(rad), rad)
        for i, call in enumerate(history):
            c, out = apply_call(c, call)
            if not out.ok:
                raise vf.common.HarnessError(
                    f'replay diverged at step {i} {call}: {out.exc}({out.msg})')
        return c

    observe = staticmethod(observe)
    alphabet = staticmethod(alphabet)
    apply = staticmethod(apply_call)
    judge_transition = staticmethod(judge_transition)
    judge_state = staticmethod(judge_state)
    key = staticmethod(state_key)
    describe = staticmethod(obs_desc)

    @staticmethod
    def nontrivial(o: Obs) -> bool:
        return len(o.recs) >= 2 and any(
            len(r.loc) > 1 or r.is_block for r in o.recs)


SPACE = CircuitSpace()
MOD = 'vf.c04_model'
NONTRIVIAL_RULE = ('a distinct state (canonical key) holding >= 2 operations '
                   'of which at least one is multi-qudit or a CircuitGate')


def enumerate_states(config: Sequence[int] | dict, depth: int, procs: int = 16,
                     deadline: float | None = None, lean: bool = False):
    """Yield (history, circuit) for every distinct sane state the C04 search
    reaches within `depth` calls on `config` (a radix tuple); used by C16."""
    from vf import histbfs
    cfg = config if isinstance(config, dict) else {
        'radixes': [int(r) for r in config], 'lean': lean}
    return histbfs.enumerate_states(MOD, cfg, depth, procs=procs, deadline=deadline)


def replay_case(rp: dict) -> list[tuple[str, str, str]]:
    """Re-run one recorded case (history + last call); -> findings."""
    cfg, h, call = rp['config'], rp['history'], rp['call']
    pre_c = SPACE.replay(cfg, h)
    pre = observe(pre_c)
    c2, out = apply_call(SPACE.replay(cfg, h), call)
    F, post, go = judge_transition(pre, pre_c, call, out, c2, {})
    if post is not None and go:
        F2, _ = judge_state(c2, post, call[0])
        F = F + F2
    return F
