"""C17 helpers: oracles, gate registry, case execution for the QASM checks.

Three kinds of cases, each a JSON object (also the replay object):

  {'family': 'rt',   'n': 3, 'ops': [[key, [loc...], [params...]], ...]}
  {'family': 'prog', 'text': '<OpenQASM 2 program>', 'sub': 'expr'|... }
  {'family': 'tr',   'lib': 'qiskit'|'cirq'|'pytket', 'n':.., 'ops': [...]}
  {'family': 'trq',  'gate': '<qiskit std gate name>', 'loc': [...], 'n': n}

Every verdict is taken against something that is not BQSKit's QASM code:
numpy embeddings of the gate matrices for the round trip, Qiskit's
`qasm2.loads` + `Operator` for programs, each library's own simulator for
the translators.
"""
from __future__ import annotations

import ast
import inspect
import itertools
import math
import re
from typing import Any
from typing import Callable

import numpy as np

import os

import vf.common  # noqa: F401  (selects the repository under test)

# a gate matrix that fails its unitarity assertion panics inside a Rust
# extension; formatting the backtrace costs ~0.5 s each and tells nothing
os.environ['RUST_BACKTRACE'] = '0'

HDR = 'OPENQASM 2.0;\ninclude "qelib1.inc";\n'
TOL_RT = 1e-7        # max-abs entry difference after a text round trip
TOL_PARAM = 1e-12    # relative: str(float) is a shortest exact repr
TOL_PROG = 1e-10     # phase-invariant cost 1-|tr(B^H K)|/N  (angle err 1e-5)

FUNCS = ('sin', 'cos', 'tan', 'exp', 'ln', 'sqrt')


# --------------------------------------------------------------------------
# generic constants (the only use of the seed)
# --------------------------------------------------------------------------
def generic(seed: int, i: int) -> float:
    """i-th generic angle in (0.2, 2.9), four decimals."""
    rng = np.random.default_rng(170000 + int(seed))
    vals = rng.uniform(0.2, 2.9, size=97)
    return round(float(vals[i % 97]), 4)


# --------------------------------------------------------------------------
# numpy reference semantics: ordered product, qubit 0 most significant
# --------------------------------------------------------------------------
def apply_left(U: np.ndarray, M: np.ndarray, loc: tuple, n: int) -> np.ndarray:
    """Return embed(M, loc) @ U for a 2^n x 2^n matrix U."""
    k = len(loc)
    T = U.reshape([2] * n + [-1])
    Mt = np.asarray(M, dtype=np.complex128).reshape([2] * (2 * k))
    T = np.tensordot(Mt, T, axes=(list(range(k, 2 * k)), list(loc)))
    T = np.moveaxis(T, list(range(k)), list(loc))
    return T.reshape(2 ** n, -1)


def product(n: int, mats: list) -> np.ndarray:
    U = np.eye(2 ** n, dtype=np.complex128)
    for M, loc in mats:
        U = apply_left(U, M, tuple(loc), n)
    return U


def phase_cost(A: np.ndarray, B: np.ndarray) -> float:
    return float(1.0 - abs(np.trace(A.conj().T @ B)) / A.shape[0])


def is_identity_up_to_phase(U: np.ndarray) -> bool:
    return 1.0 - abs(np.trace(U)) / U.shape[0] < 1e-9


# --------------------------------------------------------------------------
# BQSKit side
# --------------------------------------------------------------------------
_LANG = None


def lang():
    global _LANG
    if _LANG is None:
        from bqskit.ir.lang.qasm2 import OPENQASM2Language
        _LANG = OPENQASM2Language()
    return _LANG


def op_kind(gate: Any) -> str:
    from bqskit.ir.gates import BarrierPlaceholder
    from bqskit.ir.gates import MeasurementPlaceholder
    from bqskit.ir.gates import Reset
    if isinstance(gate, MeasurementPlaceholder):
        return 'measure'
    if isinstance(gate, Reset):
        return 'reset'
    if isinstance(gate, BarrierPlaceholder):
        return 'barrier'
    return 'u'


def circuit_ops(circuit: Any) -> list:
    """(gate, location, params) of a BQSKit circuit in iteration order."""
    return [(op.gate, tuple(op.location), list(op.params)) for op in circuit]


def ops_unitary(n: int, ops: list) -> np.ndarray:
    mats = []
    for gate, loc, params in ops:
        if op_kind(gate) != 'u':
            continue
        mats.append((gate.get_unitary(params).numpy, loc))
    return product(n, mats)


def analyse(n: int, ops: list) -> tuple:
    """(unitary, per-qubit descriptors) with one matrix evaluation per op."""
    per: list = [[] for _ in range(n)]
    mats = []
    for gate, loc, params in ops:
        kind = op_kind(gate)
        if kind == 'u':
            M = gate.get_unitary(params).numpy
            mats.append((M, loc))
            for q in loc:
                per[q].append(('u', tuple(loc), M))
        elif kind == 'measure':
            for q, (r, i) in gate.measurements.items():
                per[int(q)].append(('measure', str(r), int(i)))
        elif kind == 'reset':
            per[loc[0]].append(('reset',))
        else:
            for q in loc:
                per[q].append(('barrier', tuple(loc)))
    return product(n, mats), per


def per_qubit(n: int, ops: list) -> list:
    per: list = [[] for _ in range(n)]
    for gate, loc, params in ops:
        kind = op_kind(gate)
        if kind == 'measure':
            for q, (r, i) in gate.measurements.items():
                per[int(q)].append(('measure', str(r), int(i)))
        elif kind == 'reset':
            per[loc[0]].append(('reset',))
        elif kind == 'barrier':
            for q in loc:
                per[q].append(('barrier', tuple(loc)))
        else:
            M = gate.get_unitary(params).numpy
            for q in loc:
                per[q].append(('u', tuple(loc), M))
    return per


def same_order(a: list, b: list) -> bool:
    if len(a) != len(b):
        return False
    for x, y in zip(a, b):
        if len(x) != len(y):
            return False
        for p, q in zip(x, y):
            if p[0] != q[0]:
                return False
            if p[0] == 'u':
                if p[1] != q[1] or p[2].shape != q[2].shape \
                        or np.abs(p[2] - q[2]).max() > TOL_RT:
                    return False
            elif p != q:
                return False
    return True


# --------------------------------------------------------------------------
# round-trip gate registry: key -> (factory(loc) -> gate, num_qudits, kind)
# --------------------------------------------------------------------------
_REG: dict | None = None
_REG_INFO: dict = {}


def _circuit_gates() -> dict:
    from bqskit.ir import Circuit
    from bqskit.ir.gates import CircuitGate
    from bqskit.ir.gates import ControlledGate
    from bqskit.ir.gates import CXGate
    from bqskit.ir.gates import FrozenParameterGate
    from bqskit.ir.gates import HGate
    from bqskit.ir.gates import IdentityGate
    from bqskit.ir.gates import RXGate
    from bqskit.ir.gates import RYGate
    from bqskit.ir.gates import RZGate
    from bqskit.ir.gates import SGate
    from bqskit.ir.gates import U3Gate
    from bqskit.ir.gates import XXGate

    a = Circuit(2)
    a.append_gate(RXGate(), 0, [0.0])
    a.append_gate(CXGate(), (0, 1))
    a.append_gate(RZGate(), 1, [0.0])
    cga = CircuitGate(a)
    b = Circuit(1)
    b.append_gate(HGate(), 0)
    b.append_gate(SGate(), 0)
    cgb = CircuitGate(b)
    nst = Circuit(2)
    nst.append_gate(cga, (1, 0), [0.0, 0.0])
    nst.append_gate(RYGate(), 0, [0.0])
    cgn = CircuitGate(nst)
    c = Circuit(2)
    c.append_gate(XXGate(), (0, 1))
    c.append_gate(IdentityGate(1), 0)
    c.append_gate(ControlledGate(U3Gate()), (1, 0), [0.0, 0.0, 0.0])
    cgc = CircuitGate(c)
    f = Circuit(1)
    f.append_gate(FrozenParameterGate(U3Gate(), {1: 0.3}), 0, [0.0, 0.0])
    cgf = CircuitGate(f)
    return {
        'CircuitGate[rx,cx,rz]': cga,
        'CircuitGate[h,s]': cgb,
        'CircuitGate[CircuitGate[rx,cx,rz],ry]': cgn,
        'CircuitGate[xx,identity1,cu3]': cgc,
        'CircuitGate[FrozenParameterGate(u3)]': cgf,
    }


def registry() -> dict:
    """Discover every exported gate that claims a QASM spelling."""
    global _REG
    if _REG is not None:
        return _REG
    import bqskit.ir.gates as G
    from bqskit.ir.gate import Gate

    g = G
    args: dict[str, list] = {
        'ControlledGate': [
            ('U1Gate', lambda: (g.U1Gate(),)),
            ('U2Gate', lambda: (g.U2Gate(),)),
            ('U3Gate', lambda: (g.U3Gate(),)),
            ('SwapGate', lambda: (g.SwapGate(),)),
            ('XGate,3', lambda: (g.XGate(), 3)),
            ('XGate,4', lambda: (g.XGate(), 4)),
            ('XGate', lambda: (g.XGate(),)),
            ('RZGate', lambda: (g.RZGate(),)),
        ],
        'PowerGate': [('XGate,2', lambda: (g.XGate(), 2))],
        'DaggerGate': [
            ('SXGate', lambda: (g.SXGate(),)),
            ('U3Gate', lambda: (g.U3Gate(),)),
        ],
        'FrozenParameterGate': [
            ('U3Gate,{1:0.3}', lambda: (g.U3Gate(), {1: 0.3})),
            ('CUGate,{0:0.3,3:1.0}', lambda: (g.CUGate(), {0: 0.3, 3: 1.0})),
            ('RZGate,{0:-0.25}', lambda: (g.RZGate(), {0: -0.25})),
        ],
        'TaggedGate': [('XGate,tag', lambda: (g.XGate(), 'tag'))],
        'IdentityGate': [(str(k), (lambda k=k: (k,))) for k in (1, 2, 3)],
        'DiagonalGate': [(str(k), (lambda k=k: (k,))) for k in (1, 2)],
        'MPRYGate': [(str(k), (lambda k=k: (k,))) for k in (2, 3)],
        'MPRZGate': [(str(k), (lambda k=k: (k,))) for k in (2, 3)],
        'PauliGate': [('1', lambda: (1,))],
        'PauliZGate': [('1', lambda: (1,))],
        'VariableUnitaryGate': [('1', lambda: (1,))],
        'ConstantUnitaryGate': [('eye2', lambda: (np.eye(2),))],
        'PermutationGate': [('2,(1,0)', lambda: (2, (1, 0)))],
        'BarrierPlaceholder': [
            (str(k), (lambda k=k: (k,))) for k in (1, 2, 3)
        ],
    }
    reg: dict = {}
    no_spelling: list = []
    unconstructed: list = []
    seen_classes: dict = {}

    def consider(key: str, gate: Any) -> None:
        try:
            if gate.num_qudits < 1 or any(r != 2 for r in gate.radixes):
                no_spelling.append(key)
                return
        except Exception:
            unconstructed.append(key)
            return
        try:
            gate.qasm_name
        except Exception:
            no_spelling.append(key)
            return
        reg[key] = {
            'factory': (lambda loc, gate=gate: gate),
            'nq': gate.num_qudits, 'np': gate.num_params,
            'kind': op_kind(gate),
        }

    for name in sorted(G.__all__):
        obj = getattr(G, name)
        if isinstance(obj, Gate):
            consider(name, obj)
            continue
        if not (inspect.isclass(obj) and issubclass(obj, Gate)):
            continue
        if name in ('CircuitGate', 'MeasurementPlaceholder'):
            continue
        if obj in seen_classes:      # alias (CNOTGate is CXGate)
            continue
        seen_classes[obj] = name
        if name in args:
            for label, mk in args[name]:
                key = f'{name}({label})'
                try:
                    gate = obj(*mk())
                except Exception:
                    unconstructed.append(key)
                    continue
                consider(key, gate)
            continue
        try:
            gate = obj()
        except Exception:
            unconstructed.append(name)
            continue
        consider(name, gate)

    for key, gate in _circuit_gates().items():
        reg[key] = {
            'factory': (lambda loc, gate=gate: gate),
            'nq': gate.num_qudits, 'np': gate.num_params, 'kind': 'u',
        }

    def mk_measure(loc: tuple) -> Any:
        return G.MeasurementPlaceholder(
            [('c', 3)], {int(q): ('c', i) for i, q in enumerate(loc)},
        )
    for k in (1, 2):
        reg[f'MeasurementPlaceholder({k})'] = {
            'factory': mk_measure, 'nq': k, 'np': 0, 'kind': 'measure',
        }
    _REG = reg
    _REG_INFO['no_spelling'] = sorted(no_spelling)
    _REG_INFO['unconstructed'] = sorted(unconstructed)
    return reg


def registry_info() -> dict:
    registry()
    return _REG_INFO


def spelling(key: str, loc: tuple = (0,)) -> str:
    """Name used in signatures: the gate's own qasm name when it has one."""
    ent = registry()[key]
    if key.startswith('CircuitGate'):
        return key
    try:
        return str(ent['factory'](tuple(loc)).qasm_name)
    except Exception:
        return key


def placed_ops(n: int, keys: list) -> list:
    out = []
    reg = registry()
    for key in keys:
        nq = reg[key]['nq']
        if nq > n:
            continue
        for loc in itertools.permutations(range(n), nq):
            out.append((key, loc))
    return out


# --------------------------------------------------------------------------
# round trip case
# --------------------------------------------------------------------------
def build_circuit(n: int, ops: list) -> tuple:
    from bqskit.ir import Circuit
    reg = registry()
    c = Circuit(n)
    lst = []
    for key, loc, params in ops:
        loc = tuple(int(q) for q in loc)
        gate = reg[key]['factory'](loc)
        params = [float(p) for p in params]
        c.append_gate(gate, loc, params)
        lst.append((gate, loc, params))
    return c, lst


def full_params(gate: Any, params: list) -> list:
    from bqskit.ir.gates import FrozenParameterGate
    if isinstance(gate, FrozenParameterGate):
        return [float(p) for p in gate.get_full_params(params)]
    return [float(p) for p in params]


def run_rt(n: int, ops: list) -> tuple:
    """Return (status, detail). status 'ok' means the property holds."""
    return _run_rt(n, ops)[:2]


def run_rt_nt(n: int, ops: list) -> tuple:
    """(status, detail, non-trivial?): non-trivial = contains a non-unitary
    placeholder or is not the identity up to phase."""
    return _run_rt(n, ops)


def _run_rt(n: int, ops: list) -> tuple:
    c, orig = build_circuit(n, ops)
    try:
        u0, per0 = analyse(n, orig)
    except Exception as e:
        # the gate's own matrix is unavailable at these parameters (C18's
        # subject): nothing to compare a round trip against
        return 'skip-gate-matrix', f'{type(e).__name__}: {str(e)[:80]}', False
    nt = any(op_kind(g) != 'u' for g, _, _ in orig) \
        or not is_identity_up_to_phase(u0)
    st, d = _judge_rt(n, c, orig, u0, per0)
    return st, d, nt


def _judge_rt(n: int, c: Any, orig: list, u0: np.ndarray,
              per0: list) -> tuple:
    try:
        text = lang().encode(c)
    except Exception as e:   # code under test
        return 'encode-error', f'{type(e).__name__}: {str(e)[:160]}'
    try:
        d = lang().decode(text)
    except Exception as e:   # code under test
        return 'decode-error', f'{type(e).__name__}: {str(e)[:160]}'
    try:
        if d.num_qudits != n:
            return 'size-changed', f'{n} -> {d.num_qudits} qubits'
        dec = circuit_ops(d)
        u1, per1 = analyse(n, dec)
    except Exception as e:
        return 'decoded-unusable', f'{type(e).__name__}: {str(e)[:160]}'
    # parameters: compare op by op where the decoded gate keeps the arity
    o_u = [(g, l, p) for g, l, p in orig if op_kind(g) == 'u']
    d_u = [(g, l, p) for g, l, p in dec if op_kind(g) == 'u']
    if len(o_u) == len(d_u):
        used = [False] * len(d_u)
        for g, l, p in o_u:
            fp = full_params(g, p)
            for j, (g2, l2, p2) in enumerate(d_u):
                if used[j] or l2 != l:
                    continue
                used[j] = True
                if len(p2) == len(fp):
                    for a, b in zip(fp, p2):
                        err = abs(a - float(b))
                        if err > TOL_PARAM * max(1.0, abs(a)):
                            kind = 'param-precision-lost' \
                                if err <= 1e-4 * max(1.0, abs(a)) \
                                else 'param-changed'
                            return kind, f'{a!r} -> {float(b)!r}'
                break
    diff = float(np.abs(u0 - u1).max())
    if not diff <= TOL_RT:
        ph = np.trace(u0.conj().T @ u1)
        if abs(ph) > 1e-9:
            ph = ph / abs(ph)
            if float(np.abs(u0 * ph - u1).max()) <= TOL_RT:
                return 'global-phase-changed', f'max|dU|={diff:.3g}'
        return 'unitary-mismatch', f'max|dU|={diff:.3g}'
    if not same_order(per0, per1):
        return 'order-changed', 'per-qubit operation sequences differ'
    return 'ok', ''


def rt_signature(n: int, ops: list, status: str, detail: str) -> tuple:
    """Re-run, minimise to single operations, build the causal signature.

    Returns (signature or None if it did not reproduce, what, replay)."""
    s2, d2 = run_rt(n, ops)
    if s2 != status:
        return None, f'not reproducible: {status} then {s2}', None
    # greedy minimisation: drop operations while the same failure persists
    ops = [[k, list(l), list(p)] for k, l, p in ops]
    changed = True
    while changed and len(ops) > 1:
        changed = False
        for i in range(len(ops)):
            cand = ops[:i] + ops[i + 1:]
            s1, d1 = run_rt(n, cand)
            if s1 == status:
                ops, detail, changed = cand, d1, True
                break
    exc = detail.split(':')[0] if 'error' in status else ''
    if len(ops) == 1:
        key, loc, params = ops[0]
        d1 = detail
        if True:
            name = spelling(key, tuple(loc))
            if status == 'param-precision-lost':
                rep = {'family': 'rt', 'n': n,
                       'ops': [[key, list(loc), params]]}
                return ('roundtrip-param-precision-lost',
                        f'{key}@{tuple(loc)} {params}: {d1}', rep)
            sig = {
                'decode-error': 'roundtrip-unreadable-gate:',
                'encode-error': 'roundtrip-encode-error:',
            }.get(status, f'roundtrip-{status}:') + name
            rep = {'family': 'rt', 'n': n, 'ops': [[key, list(loc), params]]}
            return sig, f'{key}@{tuple(loc)} {params}: {status} ({d1})', rep
    names = '+'.join(spelling(k, tuple(l)) for k, l, p in ops)
    sig = {
        'decode-error': 'roundtrip-unreadable-combination:',
        'encode-error': 'roundtrip-encode-error:',
    }.get(status, f'roundtrip-{status}:') + names
    if exc:
        sig += ':' + exc
    rep = {'family': 'rt', 'n': n, 'ops': [[k, list(l), p] for k, l, p in ops]}
    return sig, f'{names} on {n} qubits: {status} ({detail})', rep


# --------------------------------------------------------------------------
# Qiskit oracle for programs
# --------------------------------------------------------------------------
_QK: dict = {}


def qk() -> dict:
    if not _QK:
        import qiskit.qasm2 as q2
        from qiskit import QuantumCircuit
        from qiskit.quantum_info import Operator
        _QK.update(
            q2=q2, QuantumCircuit=QuantumCircuit, Operator=Operator,
            lci=q2.LEGACY_CUSTOM_INSTRUCTIONS,
        )
    return _QK


STRIP = ('measure', 'reset', 'barrier')


def qiskit_strip(qc: Any) -> Any:
    Q = qk()['QuantumCircuit']
    out = Q(*qc.qregs)
    for inst in qc.data:
        if inst.operation.name in STRIP:
            continue
        out.append(inst.operation, inst.qubits)
    return out


def qiskit_unitary_of(qc: Any) -> np.ndarray:
    return np.asarray(qk()['Operator'](qiskit_strip(qc).reverse_bits()).data)


def qiskit_unitary(text: str) -> np.ndarray:
    q = qk()
    qc = q['q2'].loads(text, custom_instructions=q['lci'])
    return qiskit_unitary_of(qc)


def bqskit_unitary(text: str) -> np.ndarray:
    c = lang().decode(text)
    return ops_unitary(c.num_qudits, circuit_ops(c))


_DIFF_CACHE: dict = {}


def diff_cached(text: str) -> tuple:
    """diff() memoised per worker (minimisation re-visits the same small
    programs over and over)."""
    r = _DIFF_CACHE.get(text)
    if r is None:
        if len(_DIFF_CACHE) > 20000:
            _DIFF_CACHE.clear()
        r = diff(text)
        _DIFF_CACHE[text] = r
    return r


def _first(e: BaseException) -> str:
    lines = str(e).strip().splitlines()
    return (lines[0] if lines else '')[:160]


def diff(text: str) -> tuple:
    """Differential run of one program -> (status, detail, K, B)."""
    try:
        K = qiskit_unitary(text)
    except Exception as e:
        return 'oracle-reject', f'{type(e).__name__}: {str(e)[:120]}', None, None
    if not np.all(np.isfinite(K)):
        return 'oracle-reject', 'non-finite operator', None, None
    try:
        c = lang().decode(text)
    except Exception as e:   # code under test
        return ('bqskit-reject', f'{type(e).__name__}: {_first(e)}',
                K, None)
    ops = circuit_ops(c)
    for g, l, p in ops:
        if not all(math.isfinite(float(x)) for x in p):
            return 'mismatch', 'non-finite parameter decoded', K, None
    try:
        B = ops_unitary(c.num_qudits, ops)
    except (KeyboardInterrupt, SystemExit):
        raise
    except BaseException as e:   # gate matrix unavailable: C18's subject
        return ('gate-matrix-unavailable',
                f'{type(e).__name__}: {_first(e)}', K, None)
    if B.shape != K.shape:
        return 'mismatch', f'shape {B.shape} vs {K.shape}', K, B
    if not np.all(np.isfinite(B)):
        return 'mismatch', 'non-finite unitary', K, B
    cost = phase_cost(B, K)
    if not cost <= TOL_PROG:
        return 'mismatch', f'1-|tr|/N={cost:.3g}', K, B
    return 'agree', '', K, B


# --------------------------------------------------------------------------
# expressions: token-level trees, texts are plain concatenations
# --------------------------------------------------------------------------
def etext(t: tuple) -> str:
    k = t[0]
    if k == 'leaf':
        return t[1]
    if k == 'bin':
        return etext(t[2]) + t[1] + etext(t[3])
    if k == 'neg':
        return '-' + etext(t[1])
    if k == 'fn':
        return t[1] + '(' + etext(t[2]) + ')'
    if k == 'par':
        return '(' + etext(t[1]) + ')'
    raise ValueError(k)


def echildren(t: tuple) -> list:
    k = t[0]
    if k == 'leaf':
        return []
    if k == 'bin':
        return [t[2], t[3]]
    if k == 'neg':
        return [t[1]]
    if k == 'fn':
        return [t[2]]
    return [t[1]]


BINOPS = ('+', '-', '*', '/', '^')


def depth1(leaves: list) -> list:
    """All composite trees of depth exactly 1, simplest-first."""
    L = [('leaf', x) for x in leaves]
    out = [('neg', a) for a in L]
    out += [('fn', f, a) for f in FUNCS for a in L]
    out += [('bin', op, a, b) for op in BINOPS for a in L for b in L]
    return out


def operands(leaves: list) -> list:
    """Operand forms for depth-2 trees: leaf, bare depth-1, (depth-1)."""
    L = [('leaf', x) for x in leaves]
    d1 = depth1(leaves)
    return L + d1 + [('par', x) for x in d1]


def depth2_for_left(leaves: list, ai: int, ops: tuple = BINOPS) -> list:
    """Depth-2 binary trees whose left operand is operands()[ai]."""
    O = operands(leaves)
    nl = len(leaves)
    a = O[ai]
    out = []
    for op in ops:
        for bi, b in enumerate(O):
            if ai < nl and bi < nl:
                continue     # depth 1, enumerated elsewhere
            if ai < nl and b[0] == 'bin':
                # "x op y op' z" is the same text as (bare "x op y") op' z,
                # which is enumerated with a composite left operand
                continue
            out.append(('bin', op, a, b))
    return out


def eleaves(t: tuple) -> set:
    if t[0] == 'leaf':
        return {t[1]}
    out: set = set()
    for c in echildren(t):
        out |= eleaves(c)
    return out


def in_quick_core(t: tuple, core: tuple) -> bool:
    """Quick-tier rule for depth-2 binary trees: keep the tree if one of its
    operands is a leaf, or if it only uses the core leaves."""
    return t[2][0] == 'leaf' or t[3][0] == 'leaf' or eleaves(t) <= set(core)


def depth2_unary(leaves: list) -> list:
    O = operands(leaves)
    nl = len(leaves)
    # "-x op y" is the text of (neg x) op y, enumerated as a binary tree
    out = [('neg', a) for a in O[nl:] if a[0] != 'bin']
    out += [('fn', f, a) for f in FUNCS for a in depth1(leaves)]
    return out


class Skip(Exception):
    pass


_PYF: dict[str, Callable] = {
    'sin': math.sin, 'cos': math.cos, 'tan': math.tan,
    'exp': math.exp, 'ln': math.log, 'sqrt': math.sqrt,
}


def guarded_value(text: str, env: dict | None = None) -> float:
    """Value of an expression under the usual precedence, or raise Skip.

    Only used as the *skip rule* (and to name a cause); it never decides
    agreement.  Skip: any intermediate value that is not finite or exceeds
    1e6 in magnitude, division by |x|<1e-12, ln(x<=0), sqrt(x<0), negative
    base with non-integer exponent, 0 to a non-positive power, tan within
    1e-6 of a pole.
    """
    env = env or {}
    try:
        tree = ast.parse(text.replace('^', '**'), mode='eval').body
    except SyntaxError:
        raise Skip('unparsable')

    def chk(v: float) -> float:
        if not math.isfinite(v) or abs(v) > 1e6:
            raise Skip('magnitude')
        return v

    def ev(nd: ast.AST) -> float:
        if isinstance(nd, ast.Constant):
            return chk(float(nd.value))
        if isinstance(nd, ast.Name):
            if nd.id == 'pi':
                return math.pi
            if nd.id in env:
                return chk(float(env[nd.id]))
            raise Skip('name')
        if isinstance(nd, ast.UnaryOp) and isinstance(nd.op, ast.USub):
            return chk(-ev(nd.operand))
        if isinstance(nd, ast.UnaryOp) and isinstance(nd.op, ast.UAdd):
            return chk(ev(nd.operand))
        if isinstance(nd, ast.Call) and isinstance(nd.func, ast.Name) \
                and nd.func.id in _PYF and len(nd.args) == 1:
            x = ev(nd.args[0])
            f = nd.func.id
            if f == 'ln' and x <= 0:
                raise Skip('ln-domain')
            if f == 'sqrt' and x < 0:
                raise Skip('sqrt-domain')
            if f == 'tan' and abs(math.cos(x)) < 1e-3:
                raise Skip('tan-pole')
            try:
                return chk(_PYF[f](x))
            except (OverflowError, ValueError):
                raise Skip('overflow')
        if isinstance(nd, ast.BinOp):
            a, b = ev(nd.left), ev(nd.right)
            try:
                if isinstance(nd.op, ast.Add):
                    return chk(a + b)
                if isinstance(nd.op, ast.Sub):
                    return chk(a - b)
                if isinstance(nd.op, ast.Mult):
                    return chk(a * b)
                if isinstance(nd.op, ast.Div):
                    if abs(b) < 1e-12:
                        raise Skip('div-zero')
                    return chk(a / b)
                if isinstance(nd.op, ast.Pow):
                    if a < 0 and b != int(b):
                        raise Skip('pow-domain')
                    if a == 0 and b <= 0:
                        raise Skip('pow-zero')
                    return chk(math.pow(a, b))
            except (OverflowError, ValueError, ZeroDivisionError):
                raise Skip('overflow')
        raise Skip('construct')
    return ev(tree)


def strip_grouping_parens(text: str) -> str:
    """Remove every parenthesis pair that is not a function call's."""
    toks = re.findall(r'[A-Za-z_][A-Za-z0-9_]*|[0-9.]+(?:[eE][-+]?[0-9]+)?|.',
                      text)
    out: list = []
    stack: list = []
    for i, t in enumerate(toks):
        if t == '(':
            call = i > 0 and toks[i - 1] in FUNCS
            stack.append(call)
            if call:
                out.append(t)
        elif t == ')':
            call = stack.pop() if stack else True
            if call:
                out.append(t)
        else:
            out.append(t)
    return ''.join(out)


def skeleton(text: str) -> str:
    s = re.sub(r'[0-9.]+(?:[eE][-+]?[0-9]+)?', 'n', text)
    return re.sub(r'\bpi\b', 'n', s)


def askel(t: tuple) -> str:
    """Top operator of a minimal disagreeing tree; operands abstracted."""
    def ab(x: tuple) -> str:
        if x[0] == 'neg':
            return '-n'
        if x[0] == 'par':
            return '(' + ab(x[1]) + ')'
        return 'n'
    k = t[0]
    if k == 'bin':
        return ab(t[2]) + t[1] + ab(t[3])
    if k == 'neg':
        return '-' + ab(t[1])
    if k == 'fn':
        return t[1] + '(' + ab(t[2]) + ')'
    if k == 'par':
        return '(' + ab(t[1]) + ')'
    return 'n'


def expr_prog(e: str) -> str:
    return HDR + 'qreg q[1];\nrx(' + e + ') q[0];\n'


def classify_expr(tree: tuple, status: str, detail: str) -> tuple:
    """Minimise a disagreeing expression and name the cause."""
    # smallest sub-expression (in generation order) that still disagrees
    best = tree
    changed = True
    while changed:
        changed = False
        for ch in echildren(best):
            try:
                guarded_value(etext(ch))
            except Skip:
                continue
            s, d, _, _ = diff_cached(expr_prog(etext(ch)))
            if s == status:
                best, detail, changed = ch, d, True
                break
    text = etext(best)
    rep = {'family': 'prog', 'sub': 'expr', 'text': expr_prog(text)}
    if status == 'bqskit-reject':
        for f in FUNCS:
            if f + '(' in text:
                s, d, _, _ = diff_cached(expr_prog(f + '(0.5)'))
                if s == 'bqskit-reject':
                    rep['text'] = expr_prog(f + '(0.5)')
                    return (f'expr-function-rejected:{f}',
                            f'rx({f}(0.5)) q[0]; accepted by Qiskit, BQSKit '
                            f'raises {d}', rep)
        return (f'expr-rejected:{askel(best)}',
                f'rx({text}) q[0]; accepted by Qiskit, BQSKit raises '
                f'{detail}', rep)
    # mismatch: is BQSKit's value the one of the text without its grouping
    # parentheses (as evaluated by Qiskit)?
    stripped = strip_grouping_parens(text)
    if stripped != text:
        B = diff_cached(expr_prog(text))[3]
        if B is None:
            # BQSKit produced a non-finite value: consistent with ignored
            # parentheses iff the text without them has no finite value
            try:
                guarded_value(stripped)
            except Skip:
                return ('expr-parentheses-ignored',
                        f'rx({text}) decodes to the (undefined) value of '
                        f'{stripped} ({detail})', rep)
        else:
            try:
                Ks = qiskit_unitary(expr_prog(stripped))
                if phase_cost(B, Ks) <= TOL_PROG:
                    return ('expr-parentheses-ignored',
                            f'rx({text}) decodes to the value of {stripped} '
                            f'({detail})', rep)
            except Exception:
                pass
    return (f'expr-value-mismatch:{askel(best)}',
            f'rx({text}) q[0]; differs from Qiskit ({detail})', rep)


# --------------------------------------------------------------------------
# programs as (decls, defs, stmts)
# --------------------------------------------------------------------------
def ptext(p: tuple) -> str:
    decls, defs, stmts = p
    return HDR + ''.join(x + '\n' for x in (*decls, *defs, *stmts))


def stmt_name(line: str) -> str:
    m = re.match(r'\s*([A-Za-z_][A-Za-z0-9_]*)', line)
    return m.group(1) if m else '?'


def minimise_prog(p: tuple, status: str) -> tuple:
    """Greedy statement / definition dropping that keeps the same status."""
    decls, defs, stmts = list(p[0]), list(p[1]), list(p[2])

    def still(dc: list, df: list, st: list) -> bool:
        if not st:
            return False
        s, _, _, _ = diff_cached(ptext((dc, df, st)))
        return s == status
    changed = True
    while changed:
        changed = False
        for i in range(len(stmts)):
            cand = stmts[:i] + stmts[i + 1:]
            if still(decls, defs, cand):
                stmts, changed = cand, True
                break
        if changed:
            continue
        for i in reversed(range(len(defs))):
            cand = defs[:i] + defs[i + 1:]
            if still(decls, cand, stmts):
                defs, changed = cand, True
                break
        if changed:
            continue
        for i in range(len(decls)):
            if not decls[i].startswith('creg'):
                continue
            cand = decls[:i] + decls[i + 1:]
            if still(cand, defs, stmts):
                decls, changed = cand, True
                break
    return (tuple(decls), tuple(defs), tuple(stmts))


def classify_prog(p: tuple, status: str, detail: str, sub: str) -> tuple:
    m = minimise_prog(p, status)
    text = ptext(m)
    s, d, K, B = diff_cached(text)
    if s != status:          # cannot happen: minimise keeps the status
        m, text, d = p, ptext(p), detail
    rep = {'family': 'prog', 'sub': sub, 'text': text}
    names = ','.join(stmt_name(x) for x in m[2])
    layout = '+'.join(
        re.sub(r'qreg \w+\[(\d+)\];', r'\1', x) for x in m[0]
        if x.startswith('qreg')
    )
    body = ' '.join((*m[1], *m[2]))
    flat = flatten_registers(m)
    if flat is not None and diff_cached(ptext(flat))[0] == 'agree':
        if status == 'bqskit-reject':
            return (f'program-rejected:multi-register-layout:'
                    f'{d.split(":")[0]}',
                    f'{" ".join(m[0])} {body}: accepted by Qiskit and, over '
                    f'one flat register, by BQSKit; here BQSKit: {d}', rep)
        return ('program-mismatch:multi-register-layout',
                f'{" ".join(m[0])} {body}: agrees with Qiskit over one flat '
                f'register, differs with these registers ({d})', rep)
    if status == 'bqskit-reject':
        for f in FUNCS:
            if re.search(r'\b' + f + r'\(', body):
                s1, d1, _, _ = diff_cached(expr_prog(f + '(0.5)'))
                if s1 == 'bqskit-reject':
                    return (f'expr-function-rejected:{f}',
                            f'{f}() in a parameter expression: {d1}', rep)
        mm = re.search(r'Expected (\d+) params got (\d+) params for gate '
                       r'(\w+)', d)
        if mm:
            return (f'program-rejected:gate-arity:{mm.group(3)}',
                    f'{body} accepted by Qiskit, BQSKit: {d}', rep)
        exc = d.split(':')[0]
        return (f'program-rejected:{exc}:{names}',
                f'{body} accepted by Qiskit, BQSKit: {d}', rep)
    # mismatch
    stripped = strip_grouping_parens_prog(text)
    if stripped != text:
        try:
            Ks = qiskit_unitary(stripped)
            if B is not None and Ks.shape == B.shape \
                    and phase_cost(B, Ks) <= TOL_PROG:
                return ('expr-parentheses-ignored',
                        f'{body}: decoded as if grouping parentheses were '
                        f'absent ({d})', rep)
        except Exception:
            pass
    if m[1] and B is not None:
        for alt in permuted_calls(m):
            try:
                Ka = qiskit_unitary(ptext(alt))
            except Exception:
                continue
            if Ka.shape == B.shape and phase_cost(B, Ka) <= TOL_PROG:
                return ('gatedef-arguments-bound-to-wrong-formals',
                        f'{body}: decoded like {alt[2][-1]} ({d})', rep)
    if m[1]:
        hyp = _textual_substitution(m)
        if hyp is not None:
            for h, sg in ((hyp, 'gatedef-formal-substituted-as-text'),
                          (strip_grouping_parens_prog(hyp),
                           'expr-parentheses-ignored+'
                           'gatedef-formal-substituted-as-text')):
                try:
                    Kh = qiskit_unitary(h)
                    if B is not None and Kh.shape == B.shape \
                            and phase_cost(B, Kh) <= TOL_PROG:
                        return (sg,
                                f'{body}: decoded like '
                                f'{h.splitlines()[-1]} (the argument value '
                                f'is pasted into the body expression without '
                                f'parentheses; {d})', rep)
                except Exception:
                    pass
            E = re.search(r'rx\((.*)\) x;', m[1][0]).group(1)
            syms = ''.join(sorted(set(re.findall(r'[-+*/^()]|[a-z][a-z]+', E))))
            return (f'gatedef-mismatch:{sub}:{syms}',
                    f'{body}: differs from Qiskit ({d})', rep)
        return (f'gatedef-mismatch:{sub}:{names}',
                f'{body}: differs from Qiskit ({d})', rep)
    return (f'program-mismatch:{names}',
            f'{" ".join(m[0])} {body}: differs from Qiskit ({d})', rep)


def flatten_registers(m: tuple) -> tuple | None:
    """The same program over one quantum register (global indices)."""
    regs = []
    for x in m[0]:
        mm = re.match(r'qreg (\w+)\[(\d+)\];$', x)
        if mm:
            regs.append((mm.group(1), int(mm.group(2))))
    if len(regs) < 2:
        return None
    off = {}
    tot = 0
    for nm, sz in regs:
        off[nm] = tot
        tot += sz
    decls = [f'qreg zq[{tot}];'] + [x for x in m[0] if x.startswith('creg')]

    def sub(line: str) -> str:
        if line.lstrip().startswith('gate '):
            return line
        return re.sub(
            r'\b(' + '|'.join(re.escape(n) for n in off) + r')\[(\d+)\]',
            lambda g: f'zq[{off[g.group(1)] + int(g.group(2))}]', line)
    return (tuple(decls), tuple(m[1]), tuple(sub(x) for x in m[2]))


def permuted_calls(m: tuple) -> list:
    """Programs equal to m except that the arguments of the last call with
    >=2 arguments are permuted."""
    out = []
    for idx in reversed(range(len(m[2]))):
        mm = re.match(r'(\w+)\((.*)\)( .*;)$', m[2][idx])
        if not mm or ',' not in mm.group(2):
            continue
        args = mm.group(2).split(',')
        for perm in itertools.permutations(args):
            if list(perm) == args:
                continue
            st = list(m[2])
            st[idx] = f'{mm.group(1)}({",".join(perm)}){mm.group(3)}'
            out.append((m[0], m[1], tuple(st)))
        break
    return out


def _textual_substitution(m: tuple) -> str | None:
    """For `gate g(a[,b]) x { rx(E) x; }  g(v..) q[0];` return the program
    `rx(E') q[0];` where every formal in E is replaced by the printed float
    value of its argument, without parentheses (a suspected cause)."""
    if len(m[1]) != 1 or len(m[2]) != 1:
        return None
    d = re.match(r'gate g\(([a-z,]+)\) x \{ rx\((.*)\) x; \}$', m[1][0])
    c = re.match(r'g\((.*)\) (\w+\[\d+\]);$', m[2][0])
    if not d or not c:
        return None
    formals = d.group(1).split(',')
    args = c.group(1).split(',')
    if len(formals) != len(args):
        return None
    E = d.group(2)
    try:
        for f, a in zip(formals, args):
            E = re.sub(r'\b' + f + r'\b', '@' + f + '@', E)
        for f, a in zip(formals, args):
            E = E.replace('@' + f + '@', repr(float(guarded_value(a))))
    except Skip:
        return None
    return HDR + ''.join(x + '\n' for x in m[0]) + f'rx({E}) {c.group(2)};\n'


def strip_grouping_parens_prog(text: str) -> str:
    """Strip grouping parentheses inside the argument list of every gate
    application `name(<exprs>) qargs;` (outermost pair kept)."""
    out = []
    for line in text.split('\n'):
        out.append(_strip_line(line))
    return '\n'.join(out)


def _strip_line(line: str) -> str:
    # handle every "ident(" ... ")" application whose parens are not a
    # function call and not a gate declaration's formal list
    if line.lstrip().startswith('gate '):
        head, sep, body = line.partition('{')
        if not sep:
            return line
        body, sep2, tail = body.rpartition('}')
        parts = [_strip_line(s) for s in body.split(';')]
        return head + '{' + ';'.join(parts) + '}' + tail
    m = re.match(r'(\s*[A-Za-z_][A-Za-z0-9_]*\s*\()(.*)(\)[^()]*;?\s*)$', line)
    if not m:
        return line
    return m.group(1) + strip_grouping_parens(m.group(2)) + m.group(3)


# --------------------------------------------------------------------------
# translators
# --------------------------------------------------------------------------
def run_tr(lib: str, n: int, ops: list) -> tuple:
    """BQSKit -> library -> BQSKit on a unitary-only circuit.

    Returns (status, detail).  'external-reject' is not evidence."""
    import bqskit.ext as X
    c, orig = build_circuit(n, ops)
    U = ops_unitary(n, orig)
    try:
        text = lang().encode(c)
    except Exception as e:
        return 'encode-error', f'{type(e).__name__}: {str(e)[:120]}'
    if lib == 'qiskit':
        try:
            ext = X.bqskit_to_qiskit(c)
        except Exception as e:
            return _ext_or_bqskit(e, 'forward')
        K = qiskit_unitary_of(ext)
        n_ext = n
    elif lib == 'cirq':
        import cirq
        try:
            ext = X.bqskit_to_cirq(c)
        except Exception as e:
            return _ext_or_bqskit(e, 'forward')
        qs = [cirq.NamedQubit(f'q_{i}') for i in range(n)]
        try:
            K = ext.unitary(qubit_order=qs, qubits_that_should_be_present=qs)
        except Exception as e:
            return 'external-reject', f'cirq unitary: {str(e)[:80]}'
        n_ext = len(ext.all_qubits())
    else:
        try:
            ext = X.bqskit_to_pytket(c)
        except Exception as e:
            return _ext_or_bqskit(e, 'forward')
        try:
            K = ext.get_unitary()
        except Exception as e:
            return 'external-reject', f'pytket unitary: {str(e)[:80]}'
        n_ext = ext.n_qubits
    K = np.asarray(K)
    if K.shape != U.shape:
        return 'forward-mismatch', f'shape {K.shape}'
    cost = phase_cost(U, K)
    if not cost <= TOL_PROG:
        return 'forward-mismatch', f'1-|tr|/N={cost:.3g}'
    # back
    try:
        if lib == 'qiskit':
            back = X.qiskit_to_bqskit(ext)
            Kb = K
        elif lib == 'cirq':
            import cirq
            if n_ext == 0:
                return 'ok', ''
            back = X.cirq_to_bqskit(ext)
            Kb = np.asarray(ext.unitary())
        else:
            back = X.pytket_to_bqskit(ext)
            Kb = K
    except Exception as e:
        return _ext_or_bqskit(e, 'backward', lib, ext)
    Bb = ops_unitary(back.num_qudits, circuit_ops(back))
    if Bb.shape != Kb.shape:
        return 'backward-mismatch', f'shape {Bb.shape} vs {Kb.shape}'
    cost = phase_cost(Bb, Kb)
    if not cost <= TOL_PROG:
        return 'backward-mismatch', f'1-|tr|/N={cost:.3g}'
    return 'ok', ''


def _ext_or_bqskit(e: Exception, direction: str, lib: str = '',
                   ext: Any = None) -> tuple:
    mod = type(e).__module__ or ''
    name = type(e).__name__
    if mod.startswith(('qiskit', 'cirq', 'pytket', 'sympy')) \
            or name in ('QasmException', 'QASMParseError',
                        'QASMUnsupportedError', 'QASM2ParseError'):
        return 'external-reject', f'{name}: {str(e)[:100]}'
    if direction == 'backward':
        # BQSKit rejected the library's text: evidence only if Qiskit reads
        # that text
        try:
            if lib == 'qiskit':
                text = qk()['q2'].dumps(ext)
            elif lib == 'cirq':
                import cirq
                text = cirq.qasm(ext)
            else:
                from pytket.qasm import circuit_to_qasm_str
                text = circuit_to_qasm_str(ext)
            qiskit_unitary(text)
        except Exception as e2:
            return 'external-reject', f'oracle cannot read text: {e2!s:.80}'
        return 'backward-bqskit-reject', f'{name}: {str(e)[:120]}'
    return 'external-reject', f'{mod}.{name}: {str(e)[:100]}'


def tr_signature(lib: str, n: int, ops: list, status: str,
                 detail: str) -> tuple:
    s2, _ = run_tr(lib, n, ops)
    if s2 != status:
        return None, f'not reproducible: {status} then {s2}', None
    ops = [[k, list(l), list(p)] for k, l, p in ops]
    changed = True
    while changed and len(ops) > 1:
        changed = False
        for i in range(len(ops)):
            cand = ops[:i] + ops[i + 1:]
            s1, d1 = run_tr(lib, n, cand)
            if s1 == status:
                ops, detail, changed = cand, d1, True
                break
    names = '+'.join(spelling(k, tuple(l)) for k, l, p in ops)
    rep = {'family': 'tr', 'lib': lib, 'n': n,
           'ops': [[k, list(l), p] for k, l, p in ops]}
    return f'translator-{lib}-{status}:{names}', f'{names}: {detail}', rep


def qiskit_std_gates() -> dict:
    from qiskit.circuit.library.standard_gates import \
        get_standard_gate_name_mapping
    out = {}
    for name, g in sorted(get_standard_gate_name_mapping().items()):
        if g.num_clbits or name in ('measure', 'reset', 'delay',
                                    'global_phase'):
            continue
        out[name] = g
    return out


def run_trq(name: str, loc: list, n: int, seed: int) -> tuple:
    """A Qiskit standard gate through qiskit_to_bqskit."""
    import bqskit.ext as X
    Q = qk()['QuantumCircuit']
    g = qiskit_std_gates()[name].copy()
    if g.params:
        g.params = [generic(seed, 40 + i) for i in range(len(g.params))]
    qc = Q(n)
    qc.append(g, list(loc))
    K = qiskit_unitary_of(qc)
    try:
        b = X.qiskit_to_bqskit(qc)
    except Exception as e:
        st, d = _ext_or_bqskit(e, 'backward', 'qiskit', qc)
        return st, d
    B = ops_unitary(b.num_qudits, circuit_ops(b))
    if B.shape != K.shape:
        return 'backward-mismatch', f'shape {B.shape} vs {K.shape}'
    cost = phase_cost(B, K)
    if not cost <= TOL_PROG:
        return 'backward-mismatch', f'1-|tr|/N={cost:.3g}'
    return 'ok', ''
