"""Model-checking machinery for BQSKit (see /verif/DESIGN.md)."""
