"""C11/C16 harness objects that must be importable (dill/pickle ship them by
reference): logging body passes, scripted predicates, filters, the builder
that turns a JSON term into real control passes, and the observation
function shared by the passes and the oracle.

Everything records into module-level state (TRACE, SCRIPTS ...) because
workflows, circuits and pass data are dill-copied every time a task is
submitted; the loop-back runtime runs in this very process, so the module
globals are the one thing every copy shares.

Term language (JSON lists)
    ['body', k]                      Touch(k): log, then change circuit and
                                     every PassData field
    ['wf', [t, ...]]                 Workflow
    ['if', pid, t_then, t_else|None] IfThenElsePass
    ['while', pid, t]                WhileLoopPass
    ['dowhile', pid, t]              DoWhileLoopPass
    ['dtd', pid, t]                  DoThenDecide
    ['par', pid, [t, ...], first]    ParallelDo (first = pick_first)
pid / k are unique inside one term.
"""
from __future__ import annotations

from typing import Any

import numpy as np

import vf.common  # noqa: F401
from bqskit.compiler.basepass import BasePass
from bqskit.compiler.machine import MachineModel
from bqskit.compiler.passdata import PassData
from bqskit.compiler.workflow import Workflow
from bqskit.ir.circuit import Circuit
from bqskit.ir.gate import Gate
from bqskit.ir.gates import CircuitGate
from bqskit.ir.gates import ConstantUnitaryGate
from bqskit.ir.gates import RZGate
from bqskit.ir.gates import VariableUnitaryGate
from bqskit.ir.operation import Operation
from bqskit.passes.control.dothendecide import DoThenDecide
from bqskit.passes.control.dowhileloop import DoWhileLoopPass
from bqskit.passes.control.foreach import ForEachBlockPass
from bqskit.passes.control.ifthenelse import IfThenElsePass
from bqskit.passes.control.paralleldo import ParallelDo
from bqskit.passes.control.predicate import PassPredicate
from bqskit.passes.control.whileloop import WhileLoopPass
from bqskit.qis.unitary.unitarymatrix import UnitaryMatrix

# `Workflow.run` re-seeds before every pass when data.seed is set, and
# seed_random_sources looks libc up through an `ldconfig` subprocess each
# time (~30 ms).  Memoise the lookup in this process only.
import functools as _functools
import bqskit.utils.random as _R
if not hasattr(_R.find_library, 'cache_info'):
    _R.find_library = _functools.lru_cache(None)(_R.find_library)


# ------------------------------------------------------------ shared state
TRACE: list = []
SCRIPTS: dict = {}
POS: dict = {}
COUNTER: dict = {}


def reset(scripts: dict | None = None) -> None:
    TRACE.clear()
    SCRIPTS.clear()
    if scripts:
        SCRIPTS.update({k: list(v) for k, v in scripts.items()})
    POS.clear()
    COUNTER.clear()


def next_answer(pid: str) -> bool:
    """The next scripted answer of predicate `pid`; False once exhausted."""
    i = POS.get(pid, 0)
    POS[pid] = i + 1
    s = SCRIPTS.get(pid, ())
    return bool(s[i]) if i < len(s) else False


# ------------------------------------------------------------ observation
def gatekey(g: Any) -> Any:
    """JSON description of a gate.  A CircuitGate is identified by its
    structure (gates and locations, recursively): the parameter values its
    inner circuit happens to hold are not part of the gate -- the operation
    carrying the gate supplies them."""
    if isinstance(g, CircuitGate):
        return ['block', [int(r) for r in g.radixes], [
            [gatekey(o.gate), [int(q) for q in o.location]]
            for o in g._circuit
        ]]
    if isinstance(g, ConstantUnitaryGate):
        u = np.asarray(g.get_unitary().numpy).ravel()
        return ['cu', [int(r) for r in g.radixes],
                [round(float(x.real), 9) + 0.0 for x in u],
                [round(float(x.imag), 9) + 0.0 for x in u]]
    return type(g).__name__ + ':' + g.name + ':' + \
        ','.join(str(r) for r in g.radixes)


def opkey(op: Operation) -> list:
    """JSON description of an operation."""
    return [gatekey(op.gate), [int(q) for q in op.location],
            [float(p) for p in op.params]]


def circ_ops(circuit: Circuit) -> list:
    """Operations in the circuit's own iteration order."""
    return [opkey(op) for op in circuit]


def circ_timelines(circuit: Circuit) -> list:
    """Per-qudit sequences of operations: the program, independent of how
    the operations are laid out in cycles."""
    tl: list = [[] for _ in range(circuit.num_qudits)]
    for op in circuit:
        k = opkey(op)
        for q in op.location:
            tl[q].append(k)
    return tl


def model_digest(m: MachineModel) -> dict:
    return {
        'n': int(m.num_qudits),
        'radixes': [int(r) for r in m.radixes],
        'edges': sorted([int(a), int(b)] for a, b in m.coupling_graph),
        'gates': sorted(g.name for g in m.gate_set),
    }


def observe(circuit: Circuit, data: PassData) -> dict:
    """Everything the control-pass oracle compares, read through the public
    API of Circuit and PassData."""
    t = data.target
    user = {}
    for k in data:
        if k in PassData._reserved_keys:
            continue
        user[k] = data[k]
    return {
        'ops': circ_timelines(circuit),
        'radixes': [int(r) for r in circuit.radixes],
        'target': np.asarray(t.numpy if hasattr(t, 'numpy') else t).tolist()
        if t is not None else None,
        'error': float(data.error),
        'model': model_digest(data.model),
        'placement': [int(x) for x in data.placement],
        'initial_mapping': [int(x) for x in data.initial_mapping],
        'final_mapping': [int(x) for x in data.final_mapping],
        'seed': data.seed,
        'user': _plain(user),
    }


def _plain(x: Any) -> Any:
    if isinstance(x, dict):
        return {str(k): _plain(v) for k, v in sorted(x.items(), key=str)}
    if isinstance(x, (list, tuple)):
        return [_plain(v) for v in x]
    if isinstance(x, (np.generic,)):
        return x.item()
    return x


# ------------------------------------------------------- control-flow body
def rz_on_qudit0(theta: float, n: int) -> np.ndarray:
    d = np.array([np.exp(-0.5j * theta), np.exp(0.5j * theta)])
    return np.kron(np.diag(d), np.eye(2 ** (n - 1)))


class Touch(BasePass):
    """Log the invocation with the state seen, then change the circuit and
    *every* PassData field in a way that depends on k and on the state."""

    def __init__(self, k: int) -> None:
        self.k = int(k)

    async def run(self, circuit: Circuit, data: PassData) -> None:
        k = self.k
        TRACE.append(['body', 'b%d' % k, observe(circuit, data)])
        n = circuit.num_qudits
        theta = 0.25 * (k + 1)
        circuit.append_gate(RZGate(), k % n, [theta])
        # user keys: one mutated in place (a nested container), one new
        if 'marks' not in data:
            data['marks'] = {'seq': []}
        data['marks']['seq'].append(k)
        data['key%d' % k] = {'n': [k, {'deep': (k, 'x')}]}
        # reserved keys
        im = data.initial_mapping
        data.initial_mapping = [x + 1 for x in im[1:] + im[:1]]
        fm = data.final_mapping
        data.final_mapping = [x + 2 for x in [fm[1], fm[0]] + fm[2:]]
        data.placement = [x + 1 for x in reversed(data.placement)]
        data.error = data.error + 0.125
        data.seed = (data.seed or 0) + k + 1
        old = data.model
        data.model = MachineModel(
            old.num_qudits + 1,
            [(i, i + 1) for i in range(old.num_qudits)],
        )
        data.target = UnitaryMatrix(
            rz_on_qudit0(theta, n) @ np.asarray(data.target.numpy),
            check_arguments=False,
        )


class Scripted(PassPredicate):
    """A PassPredicate that logs the call (with the state it is shown) and
    answers from the script."""

    def __init__(self, pid: str) -> None:
        self.pid = pid

    def get_truth_value(self, circuit: Circuit, data: PassData) -> bool:
        a = next_answer(self.pid)
        TRACE.append(['pred', self.pid, a, observe(circuit, data)])
        return a


class ScriptedCond:
    """DoThenDecide condition(old_circuit, new_circuit)."""

    def __init__(self, pid: str) -> None:
        self.pid = pid

    def __call__(self, old: Circuit, new: Circuit) -> bool:
        a = next_answer(self.pid)
        TRACE.append([
            'cond', self.pid, a, circ_timelines(old), circ_timelines(new),
        ])
        return a


class ScriptedLess:
    """ParallelDo less_than(candidate, best)."""

    def __init__(self, pid: str) -> None:
        self.pid = pid

    def __call__(self, c1: Circuit, c2: Circuit) -> bool:
        a = next_answer(self.pid)
        TRACE.append([
            'lt', self.pid, a, circ_timelines(c1), circ_timelines(c2),
        ])
        return a


def build(term: list) -> BasePass:
    """Real control passes for a term."""
    kind = term[0]
    if kind == 'body':
        return Touch(term[1])
    if kind == 'wf':
        return Workflow([build(t) for t in term[1]])
    if kind == 'if':
        return IfThenElsePass(
            Scripted(term[1]), [build(term[2])],
            [build(term[3])] if term[3] is not None else None,
        )
    if kind == 'while':
        return WhileLoopPass(Scripted(term[1]), [build(term[2])])
    if kind == 'dowhile':
        return DoWhileLoopPass(Scripted(term[1]), [build(term[2])])
    if kind == 'dtd':
        return DoThenDecide(ScriptedCond(term[1]), [build(term[2])])
    if kind == 'par':
        return ParallelDo(
            [[build(t)] for t in term[2]], ScriptedLess(term[1]),
            bool(term[3]),
        )
    raise ValueError(kind)


# --------------------------------------------------------- for-each bodies
def shift_matrix(r: int) -> np.ndarray:
    return np.roll(np.eye(r), 1, axis=0)


def phase_matrix(r: int, delta: float) -> np.ndarray:
    return np.diag([np.exp(1j * delta * j) for j in range(r)])


def apply_kind(kind: str, circuit: Circuit) -> None:
    """The body behaviours of the ForEachBlockPass harness; a deterministic
    function of (kind, circuit) so the oracle can apply it to its own copy."""
    r0 = circuit.radixes[0]
    if kind == 'mixed':
        kind = 'grow' if circuit.num_qudits == 2 else 'perturb3'
    if kind == 'identity':
        return
    if kind == 'tounitary':
        u = circuit.get_unitary()
        circuit.become(Circuit.from_unitary(u))
        return
    if kind == 'grow':
        s = shift_matrix(r0)
        circuit.append_gate(ConstantUnitaryGate(s, [r0]), 0)
        circuit.append_gate(ConstantUnitaryGate(s.conj().T, [r0]), 0)
        return
    if kind == 'poplast':
        if circuit.num_operations > 1:
            circuit.pop()
        return
    if kind == 'empty':
        circuit.clear()
        return
    if kind in ('perturb3', 'perturb6'):
        d = 1e-3 if kind == 'perturb3' else 1e-6
        circuit.append_gate(
            ConstantUnitaryGate(phase_matrix(r0, d), [r0]), 0,
        )
        return
    if kind == 'perturball3':
        for q in range(circuit.num_qudits):
            r = circuit.radixes[q]
            circuit.append_gate(
                ConstantUnitaryGate(phase_matrix(r, 1e-3 * (q + 1)), [r]), q,
            )
        return
    raise ValueError(kind)


BODY_FAILURE = 'c11-body-failure'


class BlockBody(BasePass):
    """Logs the block it is given (content, point, sub-model, numbering,
    seed) and applies one of the body behaviours."""

    def __init__(self, kind: str) -> None:
        self.kind = kind

    async def run(self, circuit: Circuit, data: PassData) -> None:
        pt = data['point'] if 'point' in data else None
        sn = data['subnumbering'] if 'subnumbering' in data else None
        TRACE.append([
            'block',
            [int(pt[0]), int(pt[1])] if pt is not None else None,
            circ_ops(circuit),
            [int(r) for r in circuit.radixes],
            model_digest(data.model),
            sorted([int(a), int(b)] for a, b in sn.items())
            if sn is not None else None,
            data.seed,
        ])
        if self.kind == 'raise':
            raise RuntimeError(BODY_FAILURE)
        apply_kind(self.kind, circuit)


# ------------------------------------------------- a gate from outside bqskit
class HarnessPhaseGate(Gate):
    """diag(1, exp(i * scale * theta)) -- a user-defined gate living in a
    module that is not part of bqskit, so that Circuit.__reduce__ ships it
    through its dill branch."""

    _num_qudits = 1
    _num_params = 1
    _radixes = (2,)
    _qasm_name = 'hphase'

    def __init__(self, scale: float = 1.0) -> None:
        self.scale = float(scale)
        self._name = 'HarnessPhaseGate(%r)' % self.scale

    def get_unitary(self, params: Any = []) -> UnitaryMatrix:
        self.check_parameters(params)
        return UnitaryMatrix(
            np.diag([1.0, np.exp(1j * self.scale * params[0])]),
        )

    def __eq__(self, other: object) -> bool:
        return isinstance(other, HarnessPhaseGate) \
            and other.scale == self.scale

    def __hash__(self) -> int:
        return hash(('HarnessPhaseGate', self.scale))


# ------------------------------------------------------------------ filters
def cf_width2(op: Operation) -> bool:
    return op.num_qudits == 2


def cf_all(op: Operation) -> bool:
    return True


def cf_parity(op: Operation) -> bool:
    """Every other operation it is shown (stateful, logs its answers)."""
    i = COUNTER.get('cf_parity', 0)
    COUNTER['cf_parity'] = i + 1
    a = i % 2 == 0
    TRACE.append(['cf', opkey(op), a])
    return a


def rf_always(circuit: Circuit, op: Operation) -> bool:
    TRACE.append(['rf', circ_ops(circuit), opkey(op), True])
    return True


def rf_never(circuit: Circuit, op: Operation) -> bool:
    TRACE.append(['rf', circ_ops(circuit), opkey(op), False])
    return False


def rf_width2(circuit: Circuit, op: Operation) -> bool:
    a = op.num_qudits == 2
    TRACE.append(['rf', circ_ops(circuit), opkey(op), a])
    return a


COLLECTION_FILTERS = {
    'default': None,
    'width2': cf_width2,
    'all': cf_all,
    'parity': cf_parity,
}
REPLACE_FILTERS = {
    'fn-always': rf_always,
    'fn-never': rf_never,
    'fn-width2': rf_width2,
}
STRING_METHODS = [
    'always', 'less-than', 'less-than-multi', 'less-than-many',
    'less-than-respecting', 'less-than-respecting-multi',
    'less-than-respecting-many', 'less-than-respecting-fully',
    'less-than-respecting-fully-multi', 'less-than-respecting-fully-many',
]


def build_foreach(kind: str, ceb: bool, cf: str, rf: str) -> BasePass:
    return ForEachBlockPass(
        [BlockBody(kind)], ceb, COLLECTION_FILTERS[cf],
        REPLACE_FILTERS.get(rf, rf),
    )


def is_default_collected(op: Operation) -> bool:
    """The documented default: CircuitGates, ConstantUnitaryGates and
    VariableUnitaryGates."""
    return isinstance(
        op.gate, (CircuitGate, ConstantUnitaryGate, VariableUnitaryGate),
    )
