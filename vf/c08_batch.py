"""C08: run and judge a batch of (circuit, partitioner pipeline) cases inside
one task of the real in-process Worker.

`JudgeBatch` is a harness pass: for every case it builds the tagged circuit,
executes `Workflow(passes).run(circuit, PassData(circuit))` -- what
`CompilationTask.run` does -- and judges the result with the independent
unfolding of vf.c08_model.  Verdicts (small tuples) go to
`data['c08_results']`.
"""
from __future__ import annotations

import re
from typing import Any

import numpy as np

import vf.common  # noqa: F401
from bqskit.compiler.basepass import BasePass
from bqskit.compiler.passdata import PassData
from bqskit.compiler.workflow import Workflow
from bqskit.ir.circuit import Circuit
from bqskit.ir.gates import CircuitGate
from bqskit.ir.region import CircuitRegion
from vf import c08_model as M

# ------------------------------------------------------------------ probes
# Ground truth for the causal signature of the Greedy defect: did a
# `Circuit.surround(point, n, bounding_region)` call return a region that is
# not inside the bounding region it was given?
_PROBE = {'surround_calls': 0, 'surround_bounded': 0, 'surround_escaped': 0,
          'greedy_region_cycle': 0}
_ORIG_SURROUND = Circuit.surround


def _surround_probe(self: Circuit, point: Any, num_qudits: int,
                    bounding_region: Any = None, *a: Any, **k: Any) -> Any:
    res = _ORIG_SURROUND(self, point, num_qudits, bounding_region, *a, **k)
    _PROBE['surround_calls'] += 1
    if bounding_region is not None:
        _PROBE['surround_bounded'] += 1
        br = CircuitRegion(bounding_region)
        for q, iv in res.items():
            if q not in br or iv[0] < br[q][0] or iv[1] > br[q][1]:
                _PROBE['surround_escaped'] += 1
                break
    return res


def _region_cycle(regions: list) -> bool:
    """Ground truth for the causal signature of the second Greedy defect: do
    the regions handed to `GreedyPartitioner.topo_sort` admit an order at
    all?  A -> B when A lies before B on some shared qudit; a cycle (already
    two regions that interleave: A before B on one qudit, B before A on
    another) means no sequence of blocks can reproduce the program."""
    n = len(regions)
    adj: list[set] = [set() for _ in range(n)]
    for i, a in enumerate(regions):
        for j, b in enumerate(regions):
            if i == j:
                continue
            for q in set(a.keys()) & set(b.keys()):
                if a[q][1] < b[q][0]:
                    adj[i].add(j)
                    break
    state = [0] * n
    for root in range(n):
        if state[root]:
            continue
        stack = [(root, iter(adj[root]))]
        state[root] = 1
        while stack:
            v, it_ = stack[-1]
            for w in it_:
                if state[w] == 1:
                    return True
                if state[w] == 0:
                    state[w] = 1
                    stack.append((w, iter(adj[w])))
                    break
            else:
                state[v] = 2
                stack.pop()
    return False


_ORIG_TOPO: Any = None


def _topo_probe(self: Any, regions: list) -> list:
    _PROBE['greedy_region_cycle'] = int(_region_cycle(list(regions)))
    return _ORIG_TOPO(self, regions)


def install_probes() -> None:
    global _ORIG_TOPO
    if Circuit.surround is not _surround_probe:
        Circuit.surround = _surround_probe  # type: ignore
    from bqskit.passes.partitioning.greedy import GreedyPartitioner
    if GreedyPartitioner.topo_sort is not _topo_probe:
        _ORIG_TOPO = GreedyPartitioner.topo_sort
        GreedyPartitioner.topo_sort = _topo_probe  # type: ignore
    # Workflow.run re-seeds before every pass when PassData.seed is set;
    # seed_random_sources() looks libc up with ldconfig (a subprocess, ~80 ms)
    # every time.  Memoise the lookup: same behaviour, 100x cheaper.
    import functools
    import bqskit.utils.random as R
    if not hasattr(R.find_library, 'cache_info'):
        R.find_library = functools.lru_cache(None)(R.find_library)


def _slug(msg: str) -> str:
    msg = re.sub(r'[0-9]+', 'N', msg.strip().splitlines()[-1])
    msg = re.sub(r'[^A-Za-z]+', '-', msg).strip('-').lower()
    return msg[:60]


WIDE_REFUSALS = (
    'cannot handle gates larger than block size',   # Scan, GTQCP, TDAG
    'Initial region is too large for num_qudits',   # surround (Clustering)
)


def start_case(n: int, ops: list, stages: list, seed: int) -> tuple:
    """Build one case; returns (coroutine of the workflow, judge state)."""
    pname = '>'.join(s[0] for s in stages)
    # the width bound is the block size of the last stage that has one
    bs = ([1] + [s[1] for s in stages
                 if s[0] not in ('single', 'retag')])[-1]
    circ = M.build(n, ops)
    ref = M.flatten(circ)
    for s in stages:
        if s[0] == 'retag':
            ref = M.retagged(ref)
    ref_tl = M.timelines(n, ref)
    maxw = max((len(e[2]) for e in ref), default=0)
    passes: list = []
    for name, b in stages:
        passes += M.make_pass(name, b)
    for k in _PROBE:
        _PROBE[k] = 0
    work = circ.copy()
    data = PassData(work)
    data.seed = seed
    flags = {'surround_bounded': 0, 'surround_escaped': 0}
    coro = Workflow(passes).run(work, data)
    return coro, (pname, bs, circ, ref, ref_tl, maxw, work, flags)


def finish_case(n: int, ops: list, stages: list, st: tuple,
                exc: BaseException | None) -> tuple:
    pname, bs, circ, ref, ref_tl, maxw, out, flags = st
    flags['surround_bounded'] = _PROBE['surround_bounded']
    flags['surround_escaped'] = _PROBE['surround_escaped']
    flags['greedy_region_cycle'] = _PROBE['greedy_region_cycle']
    desc = f'{pname}(block_size={bs}) on {n} qudits: {M.describe(ops)}'
    if exc is not None:
        msg = f'{type(exc).__name__}: {exc}'
        sizes = [s[1] for s in stages if s[0] not in ('single', 'retag')]
        widest = max([maxw] + sizes[:-1])    # earlier stages make blocks
        if any(w in msg for w in WIDE_REFUSALS) and sizes \
                and widest > min(sizes):
            return 'refused:gate-wider-than-block-size', [], flags
        if 'Region goes off circuit' in msg and any(
                s[1] > n and s[0] in ('greedy', 'cluster') for s in stages):
            who = [s[0] for s in stages
                   if s[1] > n and s[0] in ('greedy', 'cluster')][0]
            return 'raised', [(
                f'{who}-blocksize-exceeds-width-fold-region-off-by-one',
                f'{desc}: {msg.strip().splitlines()[-1]}',
            )], flags
        if 'greedy' in pname and flags['greedy_region_cycle'] \
                and 'topologically sort' in msg:
            return 'raised', [(
                'greedy-selects-regions-that-admit-no-order',
                f'{desc}: {msg.strip().splitlines()[-1]} (the regions it '
                'selected depend on each other cyclically)',
            )], flags
        return 'raised', [(
            f'{pname}-raises-{type(exc).__name__}-{_slug(str(exc))}',
            f'{desc}: {msg.strip().splitlines()[-1][:200]}',
        )], flags

    fails: list[tuple[str, str]] = []
    try:
        flat = M.flatten(out)
    except ValueError as e:
        return 'bad-block', [(
            f'{pname}-block-parameter-count-mismatch', f'{desc}: {e}',
        )], flags
    tl = M.timelines(n, flat)
    nblocks = 0
    # (a) block widths
    for op in out:
        if isinstance(op.gate, CircuitGate):
            nblocks += 1
            child_w = max(
                (c.num_qudits for c in op.gate._circuit), default=0,
            )
            if op.num_qudits > max(bs, child_w):
                fails.append((
                    f'{pname}-block-wider-than-block-size',
                    f'{desc}: block on {tuple(op.location)} spans '
                    f'{op.num_qudits} > {bs} qudits and holds no gate that '
                    'wide',
                ))
                break
    # (b) barrier-like operations stay top-level
    absorbed = sorted({e[0] for e in flat if e[4] > 0 and e[0] != 'g'})
    if absorbed:
        names = {'b': 'barrier', 'm': 'measurement', 'r': 'reset'}
        fails.append((
            f'{pname}-absorbs-barrier-like-op-into-block',
            f'{desc}: {"/".join(names[k] for k in absorbed)} ends up inside '
            'a CircuitGate',
        ))
    # (c) same per-qudit operation sequences, every operation exactly once
    if tl != ref_tl:
        cin = _count(ref)
        cout = _count(flat)
        if any(cout.get(k, 0) > v for k, v in cin.items()) or \
                any(k not in cin for k in cout):
            strip_in = _count(ref, False)
            strip_out = _count(flat, False)
            if strip_in == strip_out:
                kind = 'changes-parameters'
            elif any(cout.get(k, 0) > v for k, v in cin.items()):
                kind = 'duplicates-operation'
            else:
                kind = 'invents-operation'
        elif any(cout.get(k, 0) < v for k, v in cin.items()):
            kind = 'loses-operation'
        else:
            pseudo = any(
                [e for e in a if e[0] != 'g'] != [e for e in b if e[0] != 'g']
                or _around(a) != _around(b)
                for a, b in zip(ref_tl, tl)
            )
            kind = ('reorders-across-barrier-like-op' if pseudo
                    else 'reorders-operations')
        sig = f'{pname}-{kind}'
        if 'greedy' in pname and flags['surround_escaped']:
            sig = 'greedy-overlapping-regions-surround-ignores-bounding-region'
        elif 'greedy' in pname and flags['greedy_region_cycle'] \
                and kind == 'reorders-operations':
            sig = 'greedy-selects-regions-that-admit-no-order'
        q = next(i for i in range(n) if tl[i] != ref_tl[i])
        fails.append((
            sig,
            f'{desc}: qudit {q} sees {_short(tl[q])} instead of '
            f'{_short(ref_tl[q])}',
        ))
    elif n <= 5 and not fails:
        # (d) back-stop: the library's own semantics of the partitioned
        # circuit equal the numpy product of the input's gates
        uref = M.unitary_of(n, ref)
        if uref is not None:
            try:
                u = np.asarray(out.get_unitary())
                if abs(abs(np.trace(uref.conj().T @ u)) - 2 ** n) > 1e-9:
                    fails.append((
                        f'{pname}-unitary-differs-despite-equal-unfolding',
                        f'{desc}: get_unitary() of the partitioned circuit '
                        'is not the input unitary',
                    ))
            except Exception as e:  # noqa
                fails.append((
                    f'{pname}-partitioned-circuit-not-simulable',
                    f'{desc}: {type(e).__name__}: {e}',
                ))
        # (e) the library's unfold_all gives the same program
        try:
            uf = out.copy()
            uf.unfold_all()
            if M.timelines(n, M.flatten(uf)) != ref_tl:
                fails.append((
                    f'{pname}-unfold-all-differs-from-block-contents',
                    f'{desc}: unfold_all() of the output is not the input',
                ))
        except Exception as e:  # noqa
            fails.append((
                f'{pname}-unfold-all-raises-{type(e).__name__}',
                f'{desc}: {type(e).__name__}: {e}',
            ))
    label = 'ok' if not fails else 'fail'
    flags['blocks'] = nblocks
    flags['multi_op_blocks'] = sum(
        1 for op in out
        if isinstance(op.gate, CircuitGate) and len(op.gate._circuit) > 1
    )
    return label, fails, flags


def _count(flat: list, with_params: bool = True) -> dict:
    d: dict = {}
    for e in flat:
        k = e[:4] if with_params else e[:3]
        d[k] = d.get(k, 0) + 1
    return d


def _around(seq: list) -> list:
    """For each barrier-like op of a timeline, the set of gates before it."""
    res = []
    for i, e in enumerate(seq):
        if e[0] != 'g':
            res.append((e, frozenset(seq[:i])))
    return res


def _short(seq: list) -> str:
    return '[' + ', '.join(
        f'{e[1]}{list(e[2])}#{_tagno(e[3])}' for e in seq
    ) + ']'


def _tagno(params: tuple) -> str:
    if not params:
        return '-'
    x = (params[0] - M.TAG0) / M.TAGSTEP
    return str(int(round(x))) if abs(x - round(x)) < 1e-9 else f'{x:.2f}'


class JudgeBatch(BasePass):
    """Run and judge every case of `cases` = [(n, ops, stages), ...]."""

    def __init__(self, cases: list, seed: int) -> None:
        self.cases = cases
        self.seed = seed

    async def run(self, circuit: Circuit, data: PassData) -> None:
        install_probes()
        results = []
        for n, ops, stages in self.cases:
            coro, st = start_case(n, ops, stages, self.seed)
            exc: BaseException | None = None
            try:
                await coro
            except Exception as e:  # noqa: judged, never escapes
                exc = e
            results.append(finish_case(n, ops, stages, st, exc))
        data['c08_results'] = results
