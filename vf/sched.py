"""E1: controlled-thread scheduler and stateless bounded exploration.

Every logical thread of the system under test is a real `threading.Thread`
that owns a semaphore; exactly one of them holds the baton at any time.  At a
scheduling point the running thread computes the enabled set, asks for a
choice (replayed from a prefix, default 0 afterwards), hands the baton over
and parks.  An execution is fully described by its list of choices (plus an
optional fault: "kill process X at step i").

Canonical order of the options at a decision:
    current thread (if still enabled), then the other enabled threads sorted
    by name, then -- as costly options -- threads in a virtual sleep.
Choice 0 is therefore "no context switch".  When nothing is enabled but there
are sleepers, the virtual clock advances to the earliest wake-up.

Cost models for the exploration bound:
    'preemption' (CHESS): switching away from a still-enabled thread costs 1,
        any choice at a point where the current thread is blocked/finished is
        free;
    'deviation': every non-default choice costs 1.
Environment choices (`choose`) and waking a sleeper early always cost 1.
"""
from __future__ import annotations

import _thread
import sys
import threading
from typing import Any, Callable, Sequence


class Abort(BaseException):
    """Unwinds a controlled thread (end of execution or process kill)."""


class Divergence(Exception):
    """Replay of a recorded prefix met a different set of options."""


class _Baton:
    __slots__ = ('lk',)

    def __init__(self) -> None:
        self.lk = _thread.allocate_lock()
        self.lk.acquire()

    def acquire(self) -> None:
        self.lk.acquire()

    def release(self) -> None:
        try:
            self.lk.release()
        except RuntimeError:
            pass


class CT:
    __slots__ = ('name', 'sem', 'alive', 'killed', 'blocked', 'proc', 'th',
                 'traced', 'wake_at', 'kind', 'label', 'exc', 'daemon')

    def __init__(self, name: str, proc: str, traced: bool) -> None:
        self.name = name
        # baton: a raw lock, held while the thread runs, so that parking is
        # one futex wait and waking one futex wake (a threading.Semaphore
        # costs several lock operations per hand-over)
        self.sem = _Baton()
        self.alive = True
        self.killed = False
        self.blocked: Callable[[], bool] | None = None
        self.proc = proc
        self.th: threading.Thread | None = None
        self.traced = traced
        self.wake_at: float | None = None
        self.kind = 'new'
        self.label: Any = None
        self.exc: str | None = None
        self.daemon = False


class Sched:
    def __init__(
        self,
        choices: Sequence[int] = (),
        fault: tuple | None = None,       # (step, victim_proc, errkind)
        trace_files: Sequence[str] = (),
        trace_funcs: Sequence[str] | None = None,
        horizon: int = 20000,
        on_end: Callable[[], None] | None = None,
        on_kill: Callable[[str], None] | None = None,
        on_step: Callable[[], None] | None = None,
        expect: Sequence[tuple] | None = None,
    ) -> None:
        # choices: sparse [[decision index, choice], ...] (all others are the
        # default 0) or a dense list of ints
        if choices and isinstance(choices[0], (list, tuple)):
            self.choices = {int(i): int(c) for i, c in choices}
        else:
            self.choices = {i: c for i, c in enumerate(choices) if c}
        self.last = max(self.choices) if self.choices else -1
        self.pos = 0
        self.fault = fault
        self.fault_fired = False
        self.trace_files = set(trace_files)
        self.trace_funcs = set(trace_funcs) if trace_funcs else None
        self.horizon = horizon
        self.on_end = on_end
        self.on_kill = on_kill
        self.on_step = on_step
        self.expect = list(expect) if expect is not None else None
        self.T: dict[str, CT] = {}
        self.by_ident: dict[int, CT] = {}
        # decision log: (k, chosen, cur_enabled, thread, kind, n_sleep, step)
        self.log: list[tuple] = []
        self.trace: list[tuple] = []      # (thread, kind) per decision
        self.steps = 0
        self.clock = 0.0
        self.branching = True
        self.done = threading.Event()
        self.aborting = False
        self.quiescent = False
        self.cap: str | None = None
        self.error: tuple | None = None   # harness-level error
        self.thread_errors: list[tuple] = []
        self.step_kinds: list[str] | None = None
        self.dec_at_step: list[int] | None = None

    # ------------------------------------------------------------ threads
    def spawn(self, name: str, fn: Callable[[], Any], proc: str,
              traced: bool = False) -> CT:
        if name in self.T:
            raise RuntimeError(f'duplicate thread name {name}')
        t = CT(name, proc, traced)

        def body() -> None:
            self.by_ident[threading.get_ident()] = t
            t.sem.acquire()
            if self.aborting or t.killed:
                t.alive = False
                return
            if t.traced and self.trace_files:
                sys.settrace(self._tr)
            try:
                fn()
            except Abort:
                pass
            except BaseException:  # noqa
                import traceback
                t.exc = traceback.format_exc()
                self.thread_errors.append((name, t.exc))
            finally:
                sys.settrace(None)
                t.alive = False
                if not self.aborting and not t.killed:
                    try:
                        self._switch(t, True, 'exit', None, True)
                    except Abort:
                        pass

        t.th = threading.Thread(target=body, daemon=True, name=name)
        self.T[name] = t
        t.th.start()
        return t

    def me(self) -> CT:
        return self.by_ident[threading.get_ident()]

    def controlled(self) -> bool:
        return threading.get_ident() in self.by_ident

    # ------------------------------------------------------------ tracing
    def _tr(self, frame: Any, event: str, arg: Any) -> Any:
        co = frame.f_code
        if co.co_filename in self.trace_files:
            if self.trace_funcs is None or co.co_name in self.trace_funcs:
                return self._ln
        return None

    def _ln(self, frame: Any, event: str, arg: Any) -> Any:
        if event == 'line':
            self.check()
            self._switch(self.me(), False, 'line', frame.f_lineno, True)
        return self._ln

    # --------------------------------------------------------- scheduling
    def _enabled(self) -> list[str]:
        out = []
        for n, t in self.T.items():
            if t.alive and not t.killed and t.wake_at is None:
                if t.blocked is None or t.blocked():
                    out.append(n)
        return out

    def _sleepers(self) -> list[str]:
        s = [
            (t.wake_at, n) for n, t in self.T.items()
            if t.alive and not t.killed and t.wake_at is not None
        ]
        return [n for _, n in sorted(s)]

    def check(self) -> None:
        """Every fake operation starts here."""
        if self.aborting:
            raise Abort()
        t = self.by_ident.get(threading.get_ident())
        if t is not None and t.killed:
            raise Abort()

    def point(self, kind: str, label: Any = None, branch: bool = True) -> None:
        """A visible operation is about to happen."""
        self._switch(self.me(), False, kind, label, branch)

    def block_until(self, pred: Callable[[], bool], kind: str,
                    label: Any = None) -> None:
        t = self.me()
        t.blocked = pred
        try:
            self._switch(t, False, kind, label, True)
        finally:
            t.blocked = None

    def sleep(self, dur: float, kind: str = 'sleep') -> None:
        t = self.me()
        t.wake_at = self.clock + max(dur, 0.0)
        try:
            self._switch(t, False, kind, dur, True)
        finally:
            t.wake_at = None

    def settle(self) -> None:
        """Park the caller until nothing else can run (end of boot)."""
        t = self.me()
        t.wake_at = 1e18
        try:
            self._switch(t, False, 'settle', None, True)
        finally:
            t.wake_at = None

    def choose(self, n: int, kind: str) -> int:
        """An environment answer: returns an index in range(n)."""
        self.check()
        if n <= 1 or not self.branching:
            return 0
        c = self._next_choice(n, kind, self.me().name, True, 0, env=True)
        return c

    def _next_choice(self, k: int, kind: str, name: str, cur_en: bool,
                     n_sleep: int, env: bool = False) -> int:
        if self.pos <= self.last:
            c = self.choices.get(self.pos, 0)
            if c >= k:
                self.error = ('divergence',
                              f'choice {c} of {k} at decision {self.pos} '
                              f'({name}, {kind})')
                self._finish()
                raise Abort()
            if self.expect is not None and self.pos < len(self.expect):
                if tuple(self.expect[self.pos]) != (name, kind):
                    self.error = (
                        'divergence',
                        f'decision {self.pos}: expected '
                        f'{self.expect[self.pos]}, got {(name, kind)}',
                    )
                    self._finish()
                    raise Abort()
        else:
            c = 0
        self.pos += 1
        self.log.append((k, c, cur_en, name, kind, n_sleep, self.steps, env))
        self.trace.append((name, kind))
        return c

    def _switch(self, t: CT, finished: bool, kind: str, label: Any,
                branch: bool) -> None:
        if self.aborting:
            raise Abort()
        t.kind, t.label = kind, label
        self.steps += 1
        if self.step_kinds is not None:
            self.step_kinds.append(kind)
            self.dec_at_step.append(self.pos)
        if self.steps > self.horizon:
            self.cap = 'horizon'
            self._finish()
            raise Abort()
        if self.on_step is not None:
            self.on_step()
        if (self.fault is not None and not self.fault_fired
                and self.steps >= self.fault[0]):
            self.fault_fired = True
            self.kill_proc(self.fault[1])
        en = self._enabled()
        sl = self._sleepers()
        if not en:
            if not sl:
                self.quiescent = True
                self._finish()
                if finished and not t.killed:
                    return
                raise Abort()
            # advance the virtual clock: earliest sleeper wakes
            w = self.T[sl[0]]
            if (w.wake_at or 0.0) < 1e17:
                self.clock = max(self.clock, w.wake_at or 0.0)
            w.wake_at = None
            en = [w.name]
            sl = sl[1:]
            if w is t:
                return
        cur_en = (t.name in en) and not finished
        order = ([t.name] if cur_en else []) \
            + sorted(x for x in en if x != t.name)
        n_en = len(order)
        if self.branching and (branch or not cur_en):
            opts = order + [s for s in sl if s != t.name or not cur_en]
            c = self._next_choice(len(opts), kind, t.name, cur_en,
                                  len(opts) - n_en)
            nxt = self.T[opts[c]]
            if c >= n_en:   # a sleeper woken early
                nxt.wake_at = None
        else:
            nxt = self.T[order[0]]
        if nxt is t:
            return
        nxt.sem.release()
        if finished or t.killed:
            if t.killed:
                raise Abort()
            return
        t.sem.acquire()
        if self.aborting or t.killed:
            raise Abort()

    # ------------------------------------------------------------- faults
    def kill_proc(self, proc: str) -> None:
        for t in list(self.T.values()):
            if t.proc == proc:
                t.killed = True
                t.alive = False
        if self.on_kill is not None:
            self.on_kill(proc)

    def proc_alive(self, proc: str) -> bool:
        return any(t.alive and not t.killed
                   for t in self.T.values() if t.proc == proc)

    # ---------------------------------------------------------------- end
    def _finish(self) -> None:
        if self.aborting:
            return
        if self.on_end is not None:
            try:
                self.on_end()
            except BaseException:  # noqa
                import traceback
                self.error = ('on_end', traceback.format_exc())
        self.aborting = True
        for t in list(self.T.values()):
            t.sem.release()
        self.done.set()

    def run(self, first: str, timeout: float = 60.0) -> None:
        self.T[first].sem.release()
        if not self.done.wait(timeout):
            self.error = ('timeout', 'real-time timeout: a controlled thread '
                          'blocked on an uncontrolled primitive? '
                          + repr({n: (t.kind, t.label)
                                  for n, t in self.T.items() if t.alive}))
            self.aborting = True
            for t in list(self.T.values()):
                t.sem.release()
        me = threading.current_thread()
        for t in list(self.T.values()):
            if t.th is not None and t.th is not me:
                t.th.join(5)
                if t.th.is_alive() and self.error is None:
                    self.error = ('stuck', f'thread {t.name} did not exit')


# ---------------------------------------------------------------- explorer
def prefix_costs(log: Sequence[tuple], model: str) -> list[int]:
    """Cost accumulated *before* each decision of a log."""
    out = []
    cost = 0
    for (k, c, cur_en, name, kind, n_sleep, step, env) in log:
        out.append(cost)
        cost += alt_cost(k, c, cur_en, n_sleep, env, model)
    out.append(cost)
    return out


def alt_cost(k: int, c: int, cur_en: bool, n_sleep: int, env: bool,
             model: str) -> int:
    if c == 0:
        return 0
    if env or c >= k - n_sleep:
        return 1
    if model == 'deviation':
        return 1
    return 1 if cur_en else 0


def sparse(choices: Any) -> list:
    if choices and isinstance(choices[0], (list, tuple)):
        return [[int(i), int(c)] for i, c in choices]
    return [[i, c] for i, c in enumerate(choices) if c]


def children(choices: Any, log: Sequence[tuple], bound: int, model: str,
             kinds: set | None = None) -> list[list]:
    """All one-step extensions of an executed choice list within `bound`.

    `log` is the decision log of the execution of `choices` (sparse list of
    non-default choices, defaults everywhere else).  Children deviate at a
    decision index beyond the last non-default choice; this partitions the
    tree of choice sequences so that every sequence within the bound is
    executed exactly once.
    """
    costs = prefix_costs(log, model)
    base = sparse(choices)
    prefix_len = (max(i for i, _ in base) + 1) if base else 0
    out = []
    for i in range(prefix_len, len(log)):
        k, c, cur_en, name, kind, n_sleep, step, env = log[i]
        if kinds is not None and kind not in kinds:
            continue
        for alt in range(1, k):
            if costs[i] + alt_cost(k, alt, cur_en, n_sleep, env, model) \
                    <= bound:
                out.append(base + [[i, alt]])
    return out
