"""Shared plumbing: repo selection, context, evidence, violations, known findings, pools."""
from __future__ import annotations

import collections
import hashlib
import json
import multiprocessing as mp
import os
import sys
import time
import traceback
from pathlib import Path
from typing import Any, Callable, Iterable, Sequence

VERIF = Path(__file__).resolve().parent.parent
EVIDENCE_DIR = VERIF / 'evidence'
REPLAY_DIR = VERIF / 'replays'
KNOWN_FILE = VERIF / 'known_findings.json'


def select_repo() -> str:
    """Make `import bqskit` resolve to the tree under test.

    /venv has BQSKit installed editable from /repo, so by default the current
    working tree of /repo is what runs.  VERIF_REPO=<dir> points the checks at
    a scratch copy instead (mutation experiments); PathFinder precedes the
    editable finder, so prepending to sys.path is enough.
    """
    repo = os.environ.get('VERIF_REPO', '/repo')
    if repo != '/repo':
        if repo not in sys.path:
            sys.path.insert(0, repo)
    return repo


select_repo()


class HarnessError(Exception):
    """The harness itself is broken (exit status 2, never a VIOLATION)."""


def stable_hash(obj: Any) -> str:
    return hashlib.sha1(
        json.dumps(obj, sort_keys=True, default=repr).encode(),
    ).hexdigest()[:12]


def jsonable(x: Any) -> Any:
    try:
        json.dumps(x)
        return x
    except Exception:
        pass
    if isinstance(x, dict):
        return {str(k): jsonable(v) for k, v in x.items()}
    if isinstance(x, (list, tuple, set, frozenset)):
        return [jsonable(v) for v in x]
    try:
        import numpy as np
        if isinstance(x, np.generic):
            return x.item()
        if isinstance(x, np.ndarray):
            return jsonable(x.tolist())
    except Exception:
        pass
    if isinstance(x, complex):
        return [x.real, x.imag]
    return repr(x)


def load_known() -> dict:
    if KNOWN_FILE.exists():
        return json.loads(KNOWN_FILE.read_text())
    return {'known': [], 'fixed': []}


class Ctx:
    """One run of one property check."""

    def __init__(self, pid: str, tier: str, seed: int, level: str) -> None:
        self.pid = pid
        self.tier = tier
        self.seed = seed
        self.level = level
        self.t0 = time.time()
        self.cov: dict[str, Any] = {
            'evaluations': 0, 'distinct_nontrivial': 0, 'rule': '',
            'samples': [], 'exhaustive': True,
        }
        self.assumptions: list[str] = []
        self.violations: list[dict] = []
        self.known_hits: dict[str, dict] = {}
        self.known_counts: collections.Counter = collections.Counter()
        self.outcomes: collections.Counter = collections.Counter()
        self.caps: list[str] = []
        self.parts: dict[str, dict] = {}
        self._known = [
            k for k in load_known().get('known', [])
            if k.get('property') == pid
        ]
        self._seen_sigs: set[str] = set()
        self.max_reported = 5
        self.procs = int(os.environ.get('VERIF_PROCS', '16'))

    # -------------------------------------------------------------- helpers
    @property
    def quick(self) -> bool:
        return self.tier == 'quick'

    def elapsed(self) -> float:
        return time.time() - self.t0

    def add(self, key: str, n: int = 1) -> None:
        self.cov[key] = self.cov.get(key, 0) + n

    def sample(self, s: Any, limit: int = 6) -> None:
        if len(self.cov['samples']) < limit:
            self.cov['samples'].append(jsonable(s))

    def cap(self, what: str) -> None:
        """A time/size cap interrupted an enumeration: not exhaustive."""
        self.caps.append(what)
        self.cov['exhaustive'] = False

    def part(self, name: str, **kw: Any) -> None:
        """Record per-part coverage (sub-harness of a property)."""
        d = self.parts.setdefault(name, {})
        for k, v in kw.items():
            if isinstance(v, (int, float)) and not isinstance(v, bool) \
                    and isinstance(d.get(k), (int, float)):
                d[k] += v
            else:
                d[k] = jsonable(v)

    # ----------------------------------------------------------- violations
    def violation(self, signature: str, what: str, replay: Any) -> None:
        """Report a property violation with a causal signature.

        A signature listed in known_findings.json is a known finding; any
        other is a VIOLATION with a replay file.
        """
        for k in self._known:
            if k['signature'] == signature:
                self.known_hits[signature] = k
                self.known_counts[signature] += 1
                return
        if signature in self._seen_sigs:
            # same cause already reported in this run: count only
            for v in self.violations:
                if v['signature'] == signature:
                    v['count'] += 1
            return
        self._seen_sigs.add(signature)
        d = REPLAY_DIR / self.pid
        d.mkdir(parents=True, exist_ok=True)
        body = {
            'property': self.pid, 'signature': signature, 'what': what,
            'seed': self.seed, 'tier': self.tier, 'replay': jsonable(replay),
        }
        path = d / (stable_hash([signature, jsonable(replay)]) + '.json')
        path.write_text(json.dumps(body, indent=1))
        self.violations.append({
            'signature': signature, 'what': what, 'path': str(path),
            'count': 1,
        })

    # -------------------------------------------------------------- finish
    def finish(self) -> int:
        cov = self.cov
        if self.caps:
            cov['caps_hit'] = self.caps
        if self.parts:
            cov['parts'] = self.parts
        if self.outcomes:
            cov['distinct_outcomes'] = len(self.outcomes)
            cov['outcomes'] = {
                str(k): v for k, v in self.outcomes.most_common(12)
            }
        if self.known_hits:
            cov['known_findings_hit'] = {
                s: self.known_counts[s] for s in self.known_hits
            }
        ev = {
            'property_id': self.pid, 'tier': self.tier, 'seed': self.seed,
            'level': self.level, 'coverage': jsonable(cov),
            'assumptions': self.assumptions,
            'wall_s': round(self.elapsed(), 2),
            'violations': len(self.violations),
        }
        EVIDENCE_DIR.mkdir(exist_ok=True)
        (EVIDENCE_DIR / f'{self.pid}.json').write_text(
            json.dumps(ev, indent=1) + '\n',
        )
        for s, k in self.known_hits.items():
            print(
                f'KNOWN-FINDING: property={self.pid} {k["what"]} '
                f'[signature={s}; seen {self.known_counts[s]}x]',
            )
        for v in self.violations[: self.max_reported]:
            print(f'# {v["signature"]}: {v["what"]} (x{v["count"]})')
            print(f'VIOLATION property={self.pid} replay={v["path"]}')
        if len(self.violations) > self.max_reported:
            print(f'# ... {len(self.violations) - self.max_reported} more '
                  'distinct violation signatures (see replays/)')
        brief = {
            k: cov[k] for k in (
                'evaluations', 'distinct_nontrivial', 'states',
                'transitions', 'programs', 'exhaustive',
            ) if k in cov
        }
        print(
            f'[{self.pid}] tier={self.tier} seed={self.seed} '
            f'{brief} violations={len(self.violations)} '
            f'known={len(self.known_hits)} wall={self.elapsed():.1f}s',
        )
        if self.outcomes and len(self.outcomes) == 1 \
                and cov.get('evaluations', 0) > 50:
            print(f'[{self.pid}] warning: a single distinct outcome from '
                  f'{cov["evaluations"]} evaluations')
        return 1 if self.violations else 0


# ------------------------------------------------------------------ pools
_POOL_FN: Callable | None = None


def quiet_unraisable() -> None:
    """Executions aborted mid-flight leave suspended task coroutines behind;
    their finalisers run at arbitrary GC points and can only print
    "Exception ignored in: <coroutine ...>" noise."""
    sys.unraisablehook = lambda *a: None


def _pool_init(initfn: Callable | None) -> None:
    select_repo()
    quiet_unraisable()
    if initfn is not None:
        initfn()


def _guard(args: tuple) -> Any:
    fn, item = args
    try:
        return ('ok', fn(item))
    except BaseException as e:  # noqa
        return ('harness_error', f'{type(e).__name__}: {e}\n'
                + traceback.format_exc()[-3000:])


def _guard_chunk(args: tuple) -> list:
    fn, items = args
    return [_guard((fn, it)) for it in items]


def pmap(
    fn: Callable, items: Iterable, procs: int = 16,
    initfn: Callable | None = None, chunksize: int = 1,
    deadline: float | None = None, maxtasksperchild: int | None = None,
) -> Iterable:
    """Unordered parallel map over forked, long-lived worker processes.

    Yields results as they arrive; an exception inside `fn` is a harness
    error (checks catch the exceptions they expect themselves).  Stops early
    (without raising) when `deadline` (absolute time) passes; the caller must
    then report a cap.
    """
    items = list(items) if not isinstance(items, list) else items
    if not items:
        return
    # One pool per run, forked once at full width before any helper thread
    # exists in this process (forking a second pool later, next to the first
    # pool's handler threads, is the classic fork-with-threads hazard).
    procs = max(1, procs)
    if procs == 1:
        if initfn is not None:
            initfn()
        for it in items:
            if deadline is not None and time.time() > deadline:
                return
            r = _guard((fn, it))
            if r[0] != 'ok':
                raise HarnessError(r[1])
            yield r[1]
        return
    key = (procs, initfn, maxtasksperchild)
    pool = _POOLS.get(key)
    if pool is None:
        ctx = mp.get_context('fork')
        pool = ctx.Pool(procs, initializer=_pool_init, initargs=(initfn,),
                        maxtasksperchild=maxtasksperchild)
        _POOLS[key] = pool
    clean = False
    pids0 = {w.pid for w in pool._pool}
    try:
        it = pool.imap_unordered(
            _guard_chunk,
            ((fn, items[i:i + chunksize])
             for i in range(0, len(items), chunksize)),
        )
        while True:
            try:
                wait = 5.0
                if deadline is not None:
                    left = deadline - time.time()
                    if left <= 0:
                        return
                    wait = min(wait, left)
                rs = it.next(timeout=wait)
            except StopIteration:
                clean = True
                return
            except mp.TimeoutError:
                # multiprocessing.Pool silently replaces a worker that died
                # (killed, or aborted inside native code) and the task it
                # was running never completes: detect it instead of hanging
                if maxtasksperchild is None and \
                        {w.pid for w in pool._pool} != pids0:
                    raise HarnessError(
                        'a pool worker process died (crash in native code '
                        'or killed); its task is lost')
                continue
            for r in rs:
                if r[0] != 'ok':
                    raise HarnessError(r[1])
                yield r[1]
    finally:
        if not clean:
            # work may still be running in the pool: throw it away
            _POOLS.pop(key, None)
            pool.terminate()
            pool.join()


_POOLS: dict = {}


def close_pools() -> None:
    for k in list(_POOLS):
        p = _POOLS.pop(k)
        p.terminate()
        p.join()


import atexit  # noqa: E402

atexit.register(close_pools)


def chunks(seq: Sequence, n: int) -> list:
    return [seq[i:i + n] for i in range(0, len(seq), n)]
