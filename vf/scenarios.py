"""Scenario tables shared by the E1 checks (C07, C12, C13b, C14, C15)."""
from __future__ import annotations

L = lambda i: ['leaf', i]          # noqa: E731
A = lambda i: ['aleaf', i]         # noqa: E731

TREES = {
    'leaf': L(1),
    'submit': ['submit', L(1)],
    'seq2': ['seq', [L(1), L(2)]],
    'map2': ['map', [L(1), L(2)]],
    'map3': ['map', [L(1), A(2), L(3)]],
    'mapnext2': ['mapnext', [L(1), L(2)]],
    'mapnext3': ['mapnext', [L(1), L(2), L(3)]],
    'rev2': ['rev2', L(1), L(2)],
    'seqmap': ['seq', [['map', [L(1), L(2)]], L(3)]],
    'mapmix': ['map', [['submit', L(1)], L(2), A(3)]],
    'nest': ['rev2', ['map', [L(1), L(2)]], ['submit', ['map', [A(3), L(4)]]]],
    # thorough only
    'map4': ['map', [L(1), L(2), L(3), L(4)]],
    'deep3': ['submit', ['seq', [['map', [L(1), L(2)]],
                                 ['submit', ['mapnext', [L(3), L(4)]]]]]],
    'mapmap': ['map', [['map', [L(1), L(2)]], ['map', [L(3), L(4)]]]],
}

TOPOS = {
    'a1': ['attached', 1],
    'a2': ['attached', 2],
    'a3': ['attached', 3],
    'a4': ['attached', 4],
    'd2': ['detached', [2]],
    'd11': ['detached', [1, 1]],
    'd22': ['detached', [2, 2]],
    'd111': ['detached', [1, 1, 1]],
    'd21': ['detached', [2, 1]],
}

# functions of worker.py / task.py whose lines are not scheduling points in
# line-granularity exploration: they only touch objects that are still
# private to the calling thread or are pure
LINE_SKIP = [
    '__init__', 'fnargs', 'run', 'start', 'is_descendant_of', '__repr__',
    '__str__', 'unique_id', 'record_factory', 'new_mailbox',
    '_get_new_mailbox_id', 'start_worker',
]


def line_funcs() -> list:
    import inspect
    import bqskit.runtime.worker as W
    import bqskit.runtime.task as T
    names = set()
    for mod in (W, T):
        for cls in vars(mod).values():
            if inspect.isclass(cls) and cls.__module__ == mod.__name__:
                for n, f in vars(cls).items():
                    f = getattr(f, 'fget', f)
                    if callable(f) and n not in LINE_SKIP:
                        names.add(n)
    return sorted(names)


def compile_spec(topo: str, tree: str, line: bool = False) -> dict:
    return {
        'name': f'{topo}/{tree}',
        'topo': TOPOS[topo],
        'clients': [[['compile', TREES[tree]], ['close']]],
    }


def boss_spec(mode: str, tree: str, treedef: list | None = None) -> dict:
    return {
        'name': f'boss-{mode}/{tree}',
        'topo': ['boss', mode],
        'clients': [[['compile', treedef or TREES[tree]]]],
        'line': ['w0'],
        'line_funcs': line_funcs(),
    }
