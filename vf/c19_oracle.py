"""Oracles of C19, part A: cost / residual functions against the numpy
reference of vf.c06_ref (values, zero-iff-equal-up-to-phase, gradients,
native engine vs Python call-back path).

Definitions used as the oracle (N = dim, |0> = first basis state):

  unitary target T        cost = 1 - |tr(T^+ U)| / N
                          residuals: sum r^2 = ||U - T||_F^2
  state target t          cost = 1 - |<t|U|0>|^2
                          residuals: r_i = |(U|0> - t)_i|^2  (sum r = ||.||^2)
  system {in_i -> out_i}  cost = 1 - |sum_i <out_i|U|in_i>| / k
                          residuals: sum r^2 = ||U M^+ - 1||_F^2,
                                     M = sum_i |out_i><in_i|

U is always the reference product of the circuit's operations at the given
parameters.  The cost definitions are what `calc_cost` of both generators
returns in this tree (the Python package documents "Hilbert-Schmidt, zero up
to global phase" only); the residual definitions are taken from the shipped
engine and listed as an assumption in the evidence.
"""
from __future__ import annotations

import math
from typing import Any, Sequence

import numpy as np

import vf.common  # noqa: F401
import bqskitrs
from bqskit.ir.opt.cost.functions import HilbertSchmidtCostGenerator
from bqskit.ir.opt.cost.functions import HilbertSchmidtResidualsGenerator
from bqskit.qis.state.state import StateVector
from bqskit.qis.state.system import StateSystem
from bqskit.qis.unitary.unitarymatrix import UnitaryMatrix
from vf.c06_gates import generic_state
from vf.c06_gates import generic_unitary
from vf.c06_oracle import Findings
from vf.c06_oracle import scrambled
from vf.c06_ref import reference_unitary

VTOL = 1e-10
H = 1e-6
GTOL = 1e-5
ZERO = 1e-12


# ----------------------------------------------------------------- targets
def shift_matrix(n: int) -> Any:
    return np.roll(np.eye(n), 1, axis=0)


def clock_matrix(n: int) -> Any:
    return np.diag(np.exp(2j * np.pi * np.arange(n) / n))


def make_target(tspec: list, radixes: Sequence[int], seed: int,
                U_other: Any) -> tuple[str, Any, Any]:
    """(kind, bqskit target object, numpy data for the reference).

    tspec:
      ['u', 'own', phase] | ['u', 'generic'] | ['u', 'identity'] |
      ['u', 'shift'] | ['u', 'clock']
      ['s', 'own', phase] | ['s', 'basis', idx] | ['s', 'generic']
      ['sys', k, 'basis'|'generic', 'own'|'generic', phase]
    U_other: the circuit's own reference unitary at the *other* grid point.
    """
    rad = [int(r) for r in radixes]
    n = int(np.prod(rad))
    kind = tspec[0]
    if kind == 'u':
        if tspec[1] == 'own':
            T = np.exp(1j * tspec[2]) * U_other
        elif tspec[1] == 'generic':
            T = generic_unitary(rad, seed, 'c19-target')
        elif tspec[1] == 'identity':
            T = np.eye(n, dtype=np.complex128)
        elif tspec[1] == 'shift':
            T = shift_matrix(n).astype(np.complex128)
        elif tspec[1] == 'clock':
            T = clock_matrix(n)
        else:
            raise ValueError(tspec)
        return 'u', UnitaryMatrix(T, rad), T
    if kind == 's':
        if tspec[1] == 'own':
            t = np.exp(1j * tspec[2]) * U_other[:, 0]
        elif tspec[1] == 'basis':
            t = np.zeros(n, dtype=np.complex128)
            t[int(tspec[2]) % n] = 1.0
        elif tspec[1] == 'generic':
            t = generic_state(n, seed, 'c19-target')
        else:
            raise ValueError(tspec)
        return 's', StateVector(t, rad), t
    if kind == 'sys':
        k = max(1, min(int(tspec[1]), n))
        V = np.eye(n, dtype=np.complex128) if tspec[2] == 'basis' \
            else generic_unitary(rad, seed, 'c19-sys-in')
        if tspec[3] == 'own':
            W = np.exp(1j * tspec[4]) * (U_other @ V)
        else:
            W = generic_unitary(rad, seed, 'c19-sys-out')
        ins = [V[:, i] for i in range(k)]
        outs = [W[:, i] for i in range(k)]
        system = StateSystem({
            StateVector(a, rad): StateVector(b, rad)
            for a, b in zip(ins, outs)
        })
        return 'sys', system, (ins, outs)
    raise ValueError(tspec)


def ref_values(kind: str, data: Any, U: Any) -> tuple[float, float, float]:
    """(cost, residual norm as defined above, |overlap| relative to its max)."""
    n = U.shape[0]
    if kind == 'u':
        z = np.trace(data.conj().T @ U)
        return (float(1 - abs(z) / n),
                float(np.sum(np.abs(U - data) ** 2)), float(abs(z) / n))
    if kind == 's':
        z = np.vdot(data, U[:, 0])
        return (float(1 - abs(z) ** 2),
                float(np.sum(np.abs(U[:, 0] - data) ** 2)), float(abs(z)))
    ins, outs = data
    k = len(ins)
    z = sum(np.vdot(b, U @ a) for a, b in zip(ins, outs))
    M = sum(np.outer(b, a.conj()) for a, b in zip(ins, outs))
    return (float(1 - abs(z) / k),
            float(np.sum(np.abs(U @ M.conj().T - np.eye(n)) ** 2)),
            float(abs(z) / k))


def native_resnorm(kind: str, r: Any) -> float:
    r = np.asarray(r, dtype=np.float64)
    return float(np.sum(r)) if kind == 's' else float(np.sum(r * r))


def _fd_points(circuit: Any, x: Sequence[float]) -> list:
    """Reference unitaries at x +- h e_i (shared by all targets)."""
    memo: dict = {}
    out = []
    for i in range(len(x)):
        up = list(x)
        dn = list(x)
        up[i] += H
        dn[i] -= H
        out.append((reference_unitary(circuit, up, memo=memo),
                    reference_unitary(circuit, dn, memo=memo)))
    return out


def _same(a: Any, b: Any, tol: float) -> bool:
    """Equal within tol; non-finite entries must match exactly."""
    a = np.asarray(a, dtype=np.float64)
    b = np.asarray(b, dtype=np.float64)
    if a.shape != b.shape:
        return False
    fin = np.isfinite(a) & np.isfinite(b)
    if not np.array_equal(np.isfinite(a), np.isfinite(b)):
        return False
    if not np.array_equal(a[~fin], b[~fin], equal_nan=True):
        return False
    return bool(np.all(np.abs(a[fin] - b[fin]) <= tol))


GRAD_KINDS = ('engine-circuit-grad-ne-central-differences-native',
              'get_grad-ne-central-differences',
              'residuals-jacobian-ne-central-differences',
              'residuals-jacobian-ne-own-central-differences',
              'native-path-ne-python-path')
VALUE_KINDS = ('get_cost-ne-definition', 'get_residuals-norm-ne-definition',
               'engine-circuit-unitary-ne-ordered-product-native',
               'get_cost-nonzero-up-to-global-phase',
               'get_cost-zero-for-different-target',
               'native-path-ne-python-path')


def check_costs(circuit: Any, feature: str, seed: int, tspecs: list,
                points: list | None = None, twin: Any = None,
                do_grad: bool = True, broken_grad: Sequence[str] = (),
                broken_value: Sequence[str] = ()) -> Findings:
    """Part A on one circuit: all cost objects x targets x points.

    broken_grad / broken_value: names of natively implemented gate classes
    present in this circuit whose engine gradient / matrix is already known
    (from the single-gate scan) to differ from the Python definition.  A
    finding on the native engine that the Python-twin circuit does not share
    is then attributed to that cause.
    """
    f = Findings(feature)
    rad = tuple(int(r) for r in circuit.radixes)
    p = [float(v) for v in circuit.params]
    P = len(p)
    q = scrambled(p) if P else []
    if points is None:
        points = [p]
    points = [list(x) for x in points]
    if P:
        points.append(q)        # last point: where the 'own' targets live
    U_at = [reference_unitary(circuit, x if P else None) for x in points]
    U_other = reference_unitary(circuit, q if P else None)
    differentiable = bool(circuit.is_differentiable()) and P > 0 and do_grad
    fd = [_fd_points(circuit, x) for x in points] if differentiable else None

    # ---- the engine's own view of the circuit
    engines = [('native', circuit)]
    if twin is not None:
        engines.append(('python-twin', twin))
    for ename, circ in engines:
        try:
            nc = bqskitrs.Circuit(circ)
            for x, U in zip(points, U_at):
                Un = np.asarray(nc.get_unitary(x))
                if Un.shape != U.shape or np.max(np.abs(Un - U)) > VTOL:
                    f.add(f'engine-circuit-unitary-ne-ordered-product-{ename}',
                          f'bqskitrs.Circuit(circuit).get_unitary({x}) differs '
                          f'from the reference product by '
                          f'{np.max(np.abs(Un - U)):.3g}')
                    break
            if differentiable:
                for xi, x in enumerate(points):
                    Ug, Gn = nc.get_unitary_and_grad(x)
                    Gn = np.asarray(Gn)
                    Gr = np.array([(up - dn) / (2 * H) for up, dn in fd[xi]])
                    tol = GTOL * (1 + float(np.max(np.abs(Gr))))
                    if Gn.shape != Gr.shape or \
                            np.max(np.abs(Gn - Gr)) > tol:
                        f.add(f'engine-circuit-grad-ne-central-differences-'
                              f'{ename}',
                              'bqskitrs.Circuit(circuit).get_unitary_and_grad'
                              f'({x}): gradient differs from central '
                              'differences of the reference product')
                        break
        except (KeyboardInterrupt, SystemExit):
            raise
        except BaseException as e:  # noqa  (pyo3 panics are BaseExceptions)
            f.add(f'engine-circuit-raised-{type(e).__name__}-{ename}',
                  f'bqskitrs.Circuit(...) / get_unitary raised {e!r}')

    gens = [('cost', HilbertSchmidtCostGenerator()),
            ('residuals', HilbertSchmidtResidualsGenerator())]
    for tspec in tspecs:
        kind, target, data = make_target(tspec, rad, seed, U_other)
        tname = '-'.join(str(t) for t in tspec[:2] if not isinstance(t, float))
        if kind == 'sys':
            tname = f'sys-{tspec[2]}-{tspec[3]}'
        numbers: dict = {}
        for ename, circ in engines:
            for gname, gen in gens:
                tag = f'{gname}-{kind}target-{ename}'
                try:
                    fn = gen.gen_cost(circ, target)
                except BaseException as e:  # noqa
                    if isinstance(e, (KeyboardInterrupt, SystemExit)):
                        raise
                    f.add(f'gen_cost-raised-{type(e).__name__}:{tag}',
                          f'gen_cost({tname}) raised {e!r}')
                    continue
                for xi, (x, U) in enumerate(zip(points, U_at)):
                    want_c, want_r, ov = ref_values(kind, data, U)
                    try:
                        c = float(fn.get_cost(x))
                    except BaseException as e:  # noqa
                        if isinstance(e, (KeyboardInterrupt, SystemExit)):
                            raise
                        f.add(f'get_cost-raised-{type(e).__name__}:{tag}',
                              f'get_cost raised {e!r} ({tname})')
                        break
                    numbers[(ename, gname, xi, 'c')] = c
                    if not math.isfinite(c) or abs(c - want_c) > VTOL:
                        f.add(f'get_cost-ne-definition:{tag}',
                              f'{tname}: get_cost={c!r}, the circuit\'s own '
                              f'unitary gives {want_c!r}')
                        break
                    if want_c > 1e-3 and c < 1e-6:
                        f.add(f'get_cost-zero-for-different-target:{tag}',
                              f'{tname}: cost {c} although reference distance '
                              f'is {want_c}')
                    is_own = (tspec[3] if kind == 'sys' else tspec[1]) == 'own'
                    own_here = is_own and (P == 0 or xi == len(points) - 1)
                    if own_here and c > ZERO:
                        f.add(f'get_cost-nonzero-up-to-global-phase:{tag}',
                              f'{tname}: target = e^(i phi) x own unitary at '
                              f'this point, cost {c}')
                    # gradient of the scalar cost
                    if differentiable:
                        try:
                            g = np.asarray(fn.get_grad(x), dtype=np.float64) \
                                if gname == 'cost' else None
                            cg = fn.get_cost_and_grad(x) \
                                if gname == 'cost' else None
                        except BaseException as e:  # noqa
                            if isinstance(e, (KeyboardInterrupt, SystemExit)):
                                raise
                            f.add(f'get_grad-raised-{type(e).__name__}:{tag}',
                                  f'get_grad raised {e!r} ({tname})')
                            break
                        if gname == 'cost':
                            if kind == 's' or ov >= 1e-2:
                                # (|overlap| ~ 0: the cost is not
                                # differentiable, nothing to compare)
                                numbers[(ename, gname, xi, 'g')] = g
                            c2, g2 = float(cg[0]), np.asarray(cg[1])
                            if abs(c2 - c) > ZERO or not _same(g2, g, ZERO):
                                f.add(f'get_cost_and_grad-ne-parts:{tag}',
                                      f'{tname}: get_cost_and_grad differs '
                                      'from (get_cost, get_grad)')
                            if kind == 's' or ov >= 1e-2:
                                want_g = np.array([
                                    (ref_values(kind, data, up)[0]
                                     - ref_values(kind, data, dn)[0])
                                    / (2 * H) for up, dn in fd[xi]
                                ])
                                tol = GTOL * (1 + np.linalg.norm(want_g))
                                if g.shape != want_g.shape or \
                                        np.max(np.abs(g - want_g)) > tol:
                                    f.add(
                                        f'get_grad-ne-central-differences:'
                                        f'{tag}',
                                        f'{tname} at point {xi}: get_grad='
                                        f'{g.tolist()}, central differences '
                                        f'of the definition '
                                        f'{want_g.tolist()}',
                                    )
                                    break
                    if gname != 'residuals':
                        continue
                    # residual vector
                    try:
                        r = np.asarray(fn.get_residuals(x), dtype=np.float64)
                    except BaseException as e:  # noqa
                        if isinstance(e, (KeyboardInterrupt, SystemExit)):
                            raise
                        f.add(f'get_residuals-raised-{type(e).__name__}:{tag}',
                              f'get_residuals raised {e!r} ({tname})')
                        break
                    rn = native_resnorm(kind, r)
                    if not np.all(np.isfinite(r)) or \
                            abs(rn - want_r) > VTOL * (1 + want_r):
                        f.add(f'get_residuals-norm-ne-definition:{tag}',
                              f'{tname}: residual norm {rn!r}, definition '
                              f'gives {want_r!r}')
                        break
                    if differentiable:
                        try:
                            J = np.asarray(fn.get_grad(x), dtype=np.float64)
                            rJ = fn.get_residuals_and_grad(x)
                        except BaseException as e:  # noqa
                            if isinstance(e, (KeyboardInterrupt, SystemExit)):
                                raise
                            f.add(f'residuals-get_grad-raised-'
                                  f'{type(e).__name__}:{tag}',
                                  f'raised {e!r} ({tname})')
                            break
                        if J.shape != (len(r), P):
                            f.add(f'residuals-jacobian-wrong-shape:{tag}',
                                  f'{J.shape} for {len(r)} residuals, '
                                  f'{P} parameters')
                            break
                        r2, J2 = np.asarray(rJ[0]), np.asarray(rJ[1])
                        if not _same(r2, r, ZERO) or not _same(J2, J, ZERO):
                            f.add(f'get_residuals_and_grad-ne-parts:{tag}',
                                  f'{tname}: differs from (get_residuals, '
                                  'get_grad)')
                        # J^T-contracted against central differences of the
                        # reference residual norm
                        want = np.array([
                            (ref_values(kind, data, up)[1]
                             - ref_values(kind, data, dn)[1]) / (2 * H)
                            for up, dn in fd[xi]
                        ])
                        got = J.sum(axis=0) if kind == 's' else 2 * (J.T @ r)
                        tol = GTOL * (1 + np.linalg.norm(want))
                        if not np.all(np.isfinite(got)) or \
                                np.max(np.abs(got - want)) > tol:
                            f.add(f'residuals-jacobian-ne-central-'
                                  f'differences:{tag}',
                                  f'{tname} at point {xi}: d(norm)/dp from '
                                  f'the Jacobian {got.tolist()}, central '
                                  f'differences {want.tolist()}')
                            break
                        # the Jacobian itself against central differences of
                        # the function's own residual vector
                        Jfd = np.zeros_like(J)
                        for i in range(P):
                            up = list(x)
                            dn = list(x)
                            up[i] += H
                            dn[i] -= H
                            Jfd[:, i] = (
                                np.asarray(fn.get_residuals(up))
                                - np.asarray(fn.get_residuals(dn))
                            ) / (2 * H)
                        tol = GTOL * (1 + float(np.max(np.abs(Jfd))))
                        if np.max(np.abs(J - Jfd)) > tol:
                            f.add(f'residuals-jacobian-ne-own-central-'
                                  f'differences:{tag}',
                                  f'{tname} at point {xi}: max deviation '
                                  f'{np.max(np.abs(J - Jfd)):.3g}')
                            break
        # ---- native path and Python path against each other
        if twin is not None:
            for (ename, gname, xi, what), v in list(numbers.items()):
                if ename != 'native':
                    continue
                w = numbers.get(('python-twin', gname, xi, what))
                if w is None:
                    continue
                if not _same(v, w, VTOL if what == 'c' else 1e-8):
                    f.add(f'native-path-ne-python-path:{gname}-{kind}target-'
                          f'{"cost" if what == "c" else "grad"}',
                          f'{tname} at point {xi}: native gate classes give '
                          f'{v}, their Python twins {w}')
    # ---- attribution to an already established single-gate cause
    twin_kinds = {k.replace('python-twin', 'native')
                  for k, _ in f if 'python-twin' in k}
    for i, (k, w) in enumerate(list(f)):
        if 'python-twin' in k or k in twin_kinds:
            continue
        base = k.split(':')[0]
        is_grad = base in GRAD_KINDS[:4] or (
            base == 'native-path-ne-python-path' and k.split(':')[1].endswith(
                '-grad'))
        is_val = base in VALUE_KINDS[:5] or (
            base == 'native-path-ne-python-path' and k.split(':')[1].endswith(
                '-cost'))
        if is_grad and broken_grad and not broken_value:
            f[i] = ('native-gate-gradient-ne-python-definition:'
                    + '+'.join(sorted(broken_grad)), w)
        elif (is_val or is_grad) and broken_value:
            f[i] = ('native-gate-unitary-ne-python-definition:'
                    + '+'.join(sorted(broken_value)), w)
    return f


DEFAULT_TARGETS = [
    ['u', 'own', 0.7], ['u', 'generic'], ['u', 'identity'], ['u', 'shift'],
    ['s', 'own', -1.3], ['s', 'generic'], ['s', 'basis', 1],
    ['sys', 1, 'basis', 'generic', 0.0], ['sys', 2, 'generic', 'own', 2.1],
    ['sys', 10 ** 6, 'basis', 'own', 0.4],
]
THOROUGH_TARGETS = DEFAULT_TARGETS + [
    ['u', 'clock'], ['u', 'own', 0.0], ['s', 'basis', 0],
    ['sys', 3, 'generic', 'generic', 0.0], ['sys', 2, 'basis', 'own', -0.9],
]
