"""Structural edit histories for C06: every enabled edit of a small alphabet
applied to fixed base circuits (depth 1 and 2); the C06 oracles run on every
resulting state.  Whether the edit itself did what it documents is C04's
business: an edit that raises is counted and skipped here.
"""
from __future__ import annotations

import itertools
from typing import Any

import vf.common  # noqa: F401
from vf.c06_gates import _ONE_PARAM
from vf.c06_gates import _top
from vf.c06_gates import build_circuit
from vf.c06_gates import build_gate
from vf.c06_gates import generic_params
from vf.c06_gates import num_params_of

BASES = [
    {'radixes': [2, 3, 2], 'ops': [
        [['lib', 'U3Gate'], [0], [0.11, 0.12, 0.13]],
        [['ctrl', ['lib', 'RYGate'], 1, [3], [[1, 2]]], [1, 2], [0.21]],
        [['lib', 'RSU3Gate', 2], [1], [0.31]],
        [['lib', 'CRYGate'], [2, 0], [0.41]],
        [['lib', 'U3Gate'], [2], [0.51, 0.52, 0.53]],
    ]},
    {'radixes': [2, 2, 4], 'ops': [
        [['lib', 'FSIMGate'], [1, 0], [0.11, 0.12]],
        [['embed', ['lib', 'U3Gate'], [4], [[1, 3]]], [2], [0.21, 0.22, 0.23]],
        [['ctrl', ['embed', ['lib', 'RZGate'], [4], [[0, 2]]], 1, [2], [[1]]],
         [0, 2], [0.31]],
        [['const', [4, 2], 'e'], [2, 1], []],
        [['lib', 'RZGate'], [1], [0.41]],
    ]},
    {'radixes': [3, 3], 'ops': [
        [['lib', 'U8Gate'], [1], [0.1 * i + 0.05 for i in range(8)]],
        [['lib', 'CSUMGate', 3], [1, 0], []],
        [['embed', ['lib', 'CRYGate'], [3, 3], [[0, 2], [1, 2]]], [0, 1],
         [0.91]],
    ]},
]


def _two_qudit_param(ra: int, rb: int) -> list:
    return ['ctrl', _ONE_PARAM[rb][0], 1, [ra], [_top(ra)]]


def enabled_edits(circuit: Any, depth_tag: int) -> list[list]:
    """JSON edits enabled in the current state (arguments from the state)."""
    rad = [int(r) for r in circuit.radixes]
    n = len(rad)
    ncyc = circuit.num_cycles
    points = []
    for c in range(ncyc):
        seen: set[int] = set()
        for q in range(n):
            if q in seen or circuit.is_point_idle((c, q)):
                continue
            op = circuit[c, q]
            seen.update(op.location)
            points.append((c, q, op))
    ed: list[list] = []
    for c, q, _ in points:
        ed.append(['pop', c, q])
    # inserted / replacing gates: one 1-qudit param gate per qudit, a
    # two-qudit parameterised gate on (0, n-1) and on (n-1, 0)
    new_ops = []
    for q in range(n):
        spec = _ONE_PARAM[rad[q]][0]
        new_ops.append((spec, [q]))
    if n >= 2:
        for loc in ([0, n - 1], [n - 1, 0]):
            new_ops.append((_two_qudit_param(rad[loc[0]], rad[loc[1]]), loc))
    k = 0
    for cyc in range(ncyc + 1):
        for spec, loc in new_ops:
            k += 1
            ps = generic_params(num_params_of(spec), 17, (depth_tag, 'i', k))
            ed.append(['insert', cyc, spec, loc, ps])
    for c, q, op in points:
        loc = [int(x) for x in op.location]
        if len(loc) == 1:
            spec = _ONE_PARAM[rad[loc[0]]][-1]
        elif len(loc) == 2:
            spec = _two_qudit_param(rad[loc[0]], rad[loc[1]])
        else:
            continue
        ps = generic_params(num_params_of(spec), 17, (depth_tag, 'r', c, q))
        ed.append(['replace', c, q, spec, loc, ps])
    # fold the region spanned by every subset of <= 2 operations
    pts = [(c, q) for c, q, _ in points]
    for r in (1, 2):
        for sub in itertools.combinations(pts, r):
            ed.append(['fold', [list(p) for p in sub]])
    for c, q, op in points:
        if type(op.gate).__name__ == 'CircuitGate':
            ed.append(['unfold', c, q])
    # a two-operation parameterised sub-circuit appended / inserted
    if n >= 2:
        sub = {'radixes': [rad[n - 1], rad[0]], 'ops': [
            [_ONE_PARAM[rad[n - 1]][0], [0],
             generic_params(num_params_of(_ONE_PARAM[rad[n - 1]][0]), 17,
                            (depth_tag, 's0'))],
            [_two_qudit_param(rad[0], rad[n - 1]), [1, 0],
             generic_params(1 if rad[n - 1] != 2 else 3, 17,
                            (depth_tag, 's1'))],
        ]}
        sub['ops'][1][2] = generic_params(
            num_params_of(sub['ops'][1][0]), 17, (depth_tag, 's1'),
        )
        ed.append(['append_circuit', sub, [n - 1, 0], False])
        ed.append(['append_circuit', sub, [n - 1, 0], True])
        for cyc in range(ncyc + 1):
            ed.append(['insert_circuit', cyc, sub, [n - 1, 0]])
    for a, b in itertools.combinations(pts, 2):
        ed.append(['batch_pop', [list(a), list(b)]])
    for i in range(int(circuit.num_params)):
        if i in (0, int(circuit.num_params) - 1, int(circuit.num_params) // 2):
            ed.append(['freeze', i])
    ed.append(['append_qudit', 3])
    for i in range(n + 1):
        ed.append(['insert_qudit', i, 3])
    for q in range(n):
        if circuit.is_qudit_idle(q) and n > 1:
            ed.append(['pop_qudit', q])
    for perm in itertools.permutations(range(n)):
        if list(perm) != list(range(n)):
            ed.append(['renumber', list(perm)])
    if ncyc:
        ed.append(['compress'])
    ed.append(['copy'])
    ed.append(['inverse'])
    return ed


def apply_edit(circuit: Any, e: list, seed: int) -> Any:
    """Apply one edit; returns the circuit to continue with."""
    k = e[0]
    if k == 'pop':
        circuit.pop((e[1], e[2]))
    elif k == 'insert':
        circuit.insert_gate(e[1], build_gate(e[2], seed), e[3], e[4])
    elif k == 'replace':
        circuit.replace_gate((e[1], e[2]), build_gate(e[3], seed), e[4], e[5])
    elif k == 'fold':
        circuit.fold(circuit.get_region([tuple(p) for p in e[1]]))
    elif k == 'unfold':
        circuit.unfold((e[1], e[2]))
    elif k == 'append_circuit':
        sub = dict(e[1])
        sub['seed'] = seed
        circuit.append_circuit(build_circuit(sub), e[2], e[3])
    elif k == 'insert_circuit':
        sub = dict(e[2])
        sub['seed'] = seed
        circuit.insert_circuit(e[1], build_circuit(sub), e[3])
    elif k == 'batch_pop':
        circuit.batch_pop([tuple(p) for p in e[1]])
    elif k == 'freeze':
        circuit.freeze_param(e[1])
    elif k == 'append_qudit':
        circuit.append_qudit(e[1])
    elif k == 'insert_qudit':
        circuit.insert_qudit(e[1], e[2])
    elif k == 'pop_qudit':
        circuit.pop_qudit(e[1])
    elif k == 'renumber':
        circuit.renumber_qudits(e[1])
    elif k == 'compress':
        circuit.compress()
    elif k == 'copy':
        return circuit.copy()
    elif k == 'inverse':
        return circuit.get_inverse()
    else:
        raise ValueError(e)
    return circuit


def replay_history(base: dict, edits: list, seed: int) -> Any:
    """Fresh circuit after `edits`; raises what the failing edit raises."""
    b = dict(base)
    b['seed'] = seed
    c = build_circuit(b)
    for e in edits:
        c = apply_edit(c, e, seed)
    return c
