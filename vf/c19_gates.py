"""User-defined Python gate classes for C19 (importable, never __main__).

bqskitrs recognises its natively implemented gates by *class name*
(RXGate, RYGate, RZGate, RXXGate, RYYGate, RZZGate, CRXGate, CRYGate,
CRZGate, U1Gate, U2Gate, U3Gate, U8Gate, VariableUnitaryGate); every other
parameterised gate is evaluated through Python call-backs
(get_unitary / get_grad / get_unitary_and_grad).  Two families live here:

* ``Py<Name>``: a subclass twin of each natively implemented gate.  Same
  mathematics (inherited from the library's Python definition), different
  class name -> the *non-native* evaluation path.  Native gate == its twin
  is exactly "the engine's view of the gate equals the Python definition".
* ``Numpy...``: gates written from scratch in numpy, with analytic
  gradients and no expression object behind them.

Also: the scripted multi-start generator, and the harness pass that drives
``multi_start_instantiate_async`` on the loop-back runtime.
"""
from __future__ import annotations

from typing import Any, Sequence

import numpy as np

import vf.common  # noqa: F401
import bqskit.ir.gates as G
from bqskit.compiler.basepass import BasePass
from bqskit.ir.gate import Gate
from bqskit.ir.opt.multistartgen import MultiStartGenerator
from bqskit.qis.unitary.unitarymatrix import UnitaryMatrix

NATIVE_NAMES = [
    'RXGate', 'RYGate', 'RZGate', 'RXXGate', 'RYYGate', 'RZZGate',
    'CRXGate', 'CRYGate', 'CRZGate', 'U1Gate', 'U2Gate', 'U3Gate', 'U8Gate',
]


class PyRXGate(G.RXGate):
    pass


class PyRYGate(G.RYGate):
    pass


class PyRZGate(G.RZGate):
    pass


class PyRXXGate(G.RXXGate):
    pass


class PyRYYGate(G.RYYGate):
    pass


class PyRZZGate(G.RZZGate):
    pass


class PyCRXGate(G.CRXGate):
    pass


class PyCRYGate(G.CRYGate):
    pass


class PyCRZGate(G.CRZGate):
    pass


class PyU1Gate(G.U1Gate):
    pass


class PyU2Gate(G.U2Gate):
    pass


class PyU3Gate(G.U3Gate):
    pass


class PyU8Gate(G.U8Gate):
    pass


class PyVariableUnitaryGate(G.VariableUnitaryGate):
    pass


def twin_spec(spec: list) -> list:
    """The spec with every natively recognised library gate replaced by its
    Python twin (recursively through composed gates and nested circuits)."""
    k = spec[0]
    if k == 'lib':
        if spec[1] in NATIVE_NAMES or spec[1] == 'VariableUnitaryGate':
            return ['py', 'Py' + spec[1]] + list(spec[2:])
        return list(spec)
    if k in ('ctrl', 'embed', 'frozen', 'dagger', 'tagged', 'power'):
        return [k, twin_spec(spec[1])] + list(spec[2:])
    if k == 'circ':
        return ['circ', spec[1],
                [[twin_spec(s), loc, ps] for s, loc, ps in spec[2]]]
    return list(spec)


def has_native(spec: list) -> bool:
    return twin_spec(spec) != list(spec)


# ------------------------------------------------------------ numpy gates
_R3 = np.array([                       # a fixed real rotation of R^3
    [0.36, 0.48, -0.80],
    [-0.80, 0.60, 0.00],
    [0.48, 0.64, 0.60],
])
_Q3 = np.array([
    [2 / 3, -2 / 3, 1 / 3],
    [1 / 3, 2 / 3, 2 / 3],
    [-2 / 3, -1 / 3, 2 / 3],
])


class _NumpyGate(Gate):
    """Base: subclasses define _radixes, _num_params, _mat(p), _dmat(p)."""

    def get_unitary(self, params: Sequence[float] = []) -> UnitaryMatrix:
        self.check_parameters(params)
        return UnitaryMatrix(self._mat([float(x) for x in params]),
                             self._radixes)

    def get_grad(self, params: Sequence[float] = []) -> Any:
        self.check_parameters(params)
        return np.array(self._dmat([float(x) for x in params]),
                        dtype=np.complex128)

    def is_differentiable(self) -> bool:
        return True

    def __eq__(self, other: object) -> bool:
        return type(self) is type(other)

    def __hash__(self) -> int:
        return hash(type(self).__name__)


class NumpyQubitGate(_NumpyGate):
    """[[c, -e^{i t} s], [s, e^{i t} c]] with c, s = cos t, sin t."""
    _num_qudits = 1
    _radixes = (2,)
    _num_params = 1
    _name = 'NumpyQubitGate'

    def _mat(self, p: list) -> Any:
        t = p[0]
        c, s, e = np.cos(t), np.sin(t), np.exp(1j * t)
        return np.array([[c, -e * s], [s, e * c]])

    def _dmat(self, p: list) -> Any:
        t = p[0]
        c, s, e = np.cos(t), np.sin(t), np.exp(1j * t)
        return [np.array([[-s, -1j * e * s - e * c],
                          [c, 1j * e * c - e * s]])]


class NumpyQutritGate(_NumpyGate):
    """diag(1, e^{ia}, e^{ib}) . R3  (two parameters)."""
    _num_qudits = 1
    _radixes = (3,)
    _num_params = 2
    _name = 'NumpyQutritGate'

    def _mat(self, p: list) -> Any:
        return np.diag([1, np.exp(1j * p[0]), np.exp(1j * p[1])]) @ _R3

    def _dmat(self, p: list) -> Any:
        return [np.diag([0, 1j * np.exp(1j * p[0]), 0]) @ _R3,
                np.diag([0, 0, 1j * np.exp(1j * p[1])]) @ _R3]


class NumpyMixedGate(_NumpyGate):
    """On radixes (2, 3): |0><0| (x) A(a)  +  |1><1| (x) B(b),
    A(a) = diag(e^{ia}, 1, e^{-ia}) R3,  B(b) = Q3 diag(1, e^{ib}, e^{2ib})."""
    _num_qudits = 2
    _radixes = (2, 3)
    _num_params = 2
    _name = 'NumpyMixedGate'

    def _blocks(self, p: list) -> Any:
        a, b = p
        A = np.diag([np.exp(1j * a), 1, np.exp(-1j * a)]) @ _R3
        B = _Q3 @ np.diag([1, np.exp(1j * b), np.exp(2j * b)])
        dA = np.diag([1j * np.exp(1j * a), 0, -1j * np.exp(-1j * a)]) @ _R3
        dB = _Q3 @ np.diag([0, 1j * np.exp(1j * b), 2j * np.exp(2j * b)])
        return A, B, dA, dB

    def _mat(self, p: list) -> Any:
        A, B, _, _ = self._blocks(p)
        M = np.zeros((6, 6), dtype=np.complex128)
        M[:3, :3] = A
        M[3:, 3:] = B
        return M

    def _dmat(self, p: list) -> Any:
        _, _, dA, dB = self._blocks(p)
        M1 = np.zeros((6, 6), dtype=np.complex128)
        M2 = np.zeros((6, 6), dtype=np.complex128)
        M1[:3, :3] = dA
        M2[3:, 3:] = dB
        return [M1, M2]


class NumpyMixedGateRev(NumpyMixedGate):
    """The same construction on radixes (3, 2): A(a) (x) |0><0| + B (x) |1><1|
    (control is the *second* qudit)."""
    _radixes = (3, 2)
    _name = 'NumpyMixedGateRev'

    @staticmethod
    def _interleave(X: Any, Y: Any) -> Any:
        M = np.zeros((6, 6), dtype=np.complex128)
        M[0::2, 0::2] = X
        M[1::2, 1::2] = Y
        return M

    def _mat(self, p: list) -> Any:
        A, B, _, _ = self._blocks(p)
        return self._interleave(A, B)

    def _dmat(self, p: list) -> Any:
        _, _, dA, dB = self._blocks(p)
        Z = np.zeros((3, 3))
        return [self._interleave(dA, Z), self._interleave(Z, dB)]


# ------------------------------------------------- scripted start generator
class ScriptedStarts(MultiStartGenerator):
    """Stands in for RandomStartGenerator: returns the scripted list."""

    script: list = []
    calls: list = []

    def gen_starting_points(self, multistarts: int, circuit: Any,
                            target: Any) -> list:
        ScriptedStarts.calls.append(int(multistarts))
        if len(ScriptedStarts.script) < multistarts:
            raise RuntimeError('harness: script shorter than multistarts')
        return [np.array(x, dtype=np.float64)
                for x in ScriptedStarts.script[:multistarts]]


# ------------------------------------------- pass for the async multi-start
class AsyncInstantiatePass(BasePass):
    """circuit <- instantiater.multi_start_instantiate_async(circuit, ...)."""

    def __init__(self, instantiater: Any, target: Any, starts: int) -> None:
        self.instantiater = instantiater
        self.target = target
        self.starts = starts

    async def run(self, circuit: Any, data: Any) -> None:
        before = id(circuit)
        out = await self.instantiater.multi_start_instantiate_async(
            circuit, self.target, self.starts,
        )
        data['c19_same_object'] = (id(out) == before)
