"""E2: explicit-state breadth-first search over call histories of a real,
sequential object (DESIGN 2.3).

A state *is* a history (a JSON list of calls).  Expanding a history means:
rebuild a fresh real object by replaying it, observe it through its public
read API, ask the space's alphabet for the calls enabled in that state, and
apply each call to its own fresh replay.  Every transition is judged against
the space's reference model; every state that has not been seen before (by
canonical key) is judged by the space's state oracles and enqueued.  Search
is level by level, so the first counterexample of a signature is a shortest
one; the histories of one level are distributed over `pmap` workers.

A *space* is a module exposing `SPACE` with
    replay(cfg, history) -> obj              fresh object, history applied
    observe(obj) -> obs
    alphabet(obs, cfg) -> [call, ...]        JSON lists
    apply(obj, call) -> (obj2, outcome)      outcome.label() -> str
    judge_transition(pre_obs, pre_obj, call, outcome, obj2, cache)
                                 -> (findings, post_obs | None, go_on)
    key(obj2, post_obs) -> bytes
    judge_state(obj2, post_obs, last_method) -> (findings, broken)
    nontrivial(obs) -> bool
    describe(obs) -> str
findings are (property, signature, text) triples.
"""
from __future__ import annotations

import gc
import importlib
import json
import time
from collections import Counter
from typing import Any, Iterator

from vf.common import HarnessError, pmap

_SEEN: set = set()          # inherited by the forked workers of each level


class Result:
    def __init__(self) -> None:
        self.states = 0
        self.broken_states = 0
        self.transitions = 0
        self.nontrivial = 0
        self.max_depth = 0
        self.levels: list[dict] = []
        self.findings: dict[tuple, dict] = {}     # (prop, sig) -> record
        self.methods: Counter = Counter()         # 'method:outcome' -> n
        self.capped: str | None = None
        self.histories: list[list] = []           # when keep=True
        self.samples: list[dict] = []

    def merge_finding(self, prop: str, sig: str, what: str, replay: dict,
                      count: int = 1) -> None:
        k = (prop, sig)
        size = (len(replay['history']), json.dumps(replay, sort_keys=True))
        cur = self.findings.get(k)
        if cur is None:
            self.findings[k] = {'what': what, 'replay': replay,
                                'count': count, 'size': size}
        else:
            cur['count'] += count
            if size < cur['size']:
                cur.update(what=what, replay=replay, size=size)


def _expand_batch(arg: tuple) -> dict:
    mod, cfg, idx, hists, want_hist = arg
    sp = importlib.import_module(mod).SPACE
    new: dict[bytes, Any] = {}
    dead: set = set()
    res = Result()
    for h in hists:
        pre_obj = sp.replay(cfg, h)
        pre = sp.observe(pre_obj)
        cache: dict = {}
        for call in sp.alphabet(pre, cfg):
            obj = sp.replay(cfg, h)
            obj2, out = sp.apply(obj, call)
            res.transitions += 1
            res.methods[f'{call[0]}:{out.label()}'] += 1
            F, post, go = sp.judge_transition(pre, pre_obj, call, out, obj2, cache)
            for prop, sig, what in F:
                res.merge_finding(prop, sig, what, {
                    'config': cfg, 'history': h, 'call': call, 'at': 'transition',
                })
            if post is None or not go:
                continue
            key = sp.key(obj2, post)
            if key in _SEEN or key in new or key in dead:
                continue
            F2, broken = sp.judge_state(obj2, post, call[0])
            for prop, sig, what in F2:
                res.merge_finding(prop, sig, what, {
                    'config': cfg, 'history': h, 'call': call, 'at': 'state',
                })
            if broken:
                dead.add(key)
                continue
            new[key] = (h + [call]) if want_hist else None
            if sp.nontrivial(post):
                res.nontrivial += 1
                new[key] = (new[key], True)
            else:
                new[key] = (new[key], False)
    return {
        'idx': idx, 'new': new, 'dead': dead, 'transitions': res.transitions,
        'methods': res.methods, 'findings': res.findings, 'n_hist': len(hists),
    }


def bfs(space_mod: str, cfg: dict, depth: int, procs: int = 16,
        deadline: float | None = None, keep: bool = False,
        progress: Any = None, root: list | None = None) -> Result:
    """Breadth-first search to `depth` calls from the initial object (or
    from the state reached by the history `root`)."""
    global _SEEN
    sp = importlib.import_module(space_mod).SPACE
    R = Result()
    _SEEN = set()
    root = list(root or [])
    obj = sp.replay(cfg, root)
    obs = sp.observe(obj)
    _SEEN.add(sp.key(obj, obs))
    F, broken = sp.judge_state(obj, obs, 'init')
    if F or broken:
        raise HarnessError(f'initial state is not clean: {F}')
    R.states = 1
    if keep:
        R.histories.append(root)
    frontier: list[list] = [root]
    for d in range(1, depth + 1):
        if not frontier:
            break
        t0 = time.time()
        frontier.sort(key=lambda h: json.dumps(h))
        bs = max(1, min(24, len(frontier) // max(1, procs * 6)))
        batches = [frontier[i:i + bs] for i in range(0, len(frontier), bs)]
        want_hist = keep or d < depth
        items = [(space_mod, cfg, i, b, want_hist) for i, b in enumerate(batches)]
        cand: dict[bytes, tuple] = {}
        dead: set = set()
        done_hist = 0
        done_batches = 0
        lvl_trans = 0
        # forked workers must not let a full collection touch (and thereby
        # copy) the parent's heap: park everything in the permanent generation
        gc.collect()
        gc.freeze()
        eff = procs if len(frontier) > 2 else 1
        for r in pmap(_expand_batch, items, procs=eff, deadline=deadline,
                      initfn=gc.freeze):
            done_batches += 1
            done_hist += r['n_hist']
            lvl_trans += r['transitions']
            R.methods.update(r['methods'])
            for (prop, sig), rec in r['findings'].items():
                R.merge_finding(prop, sig, rec['what'], rec['replay'], rec['count'])
            dead |= r['dead']
            for k, (h, nt) in r['new'].items():
                cur = cand.get(k)
                if cur is None or (h is not None and cur[0] is not None
                                   and json.dumps(h) < json.dumps(cur[0])):
                    cand[k] = (h, nt)
        R.transitions += lvl_trans
        for k in dead:
            cand.pop(k, None)
        dead -= _SEEN
        _SEEN |= dead
        R.broken_states += len(dead)
        new_keys = [k for k in cand if k not in _SEEN]
        _SEEN.update(new_keys)
        R.states += len(new_keys) + len(dead)
        R.nontrivial += sum(1 for k in new_keys if cand[k][1])
        if new_keys:
            R.max_depth = d
        nxt = [cand[k][0] for k in new_keys if cand[k][0] is not None]
        if keep:
            R.histories.extend(nxt)
        lvl = {
            'depth': d, 'expanded': done_hist, 'frontier': len(frontier),
            'transitions': lvl_trans, 'new_states': len(new_keys),
            'broken_states': len(dead), 'wall_s': round(time.time() - t0, 1),
        }
        R.levels.append(lvl)
        if progress:
            progress(lvl)
        for h in sorted(nxt, key=lambda h: json.dumps(h))[:2]:
            if len(R.samples) < 8:
                R.samples.append({'history': h})
        if done_batches < len(batches):
            R.capped = (
                f'time cap during BFS level {d} of {cfg}: {done_hist} of '
                f'{len(frontier)} frontier states expanded (levels < {d} complete)'
            )
            break
        frontier = nxt
    return R


def _deviate(arg: tuple) -> dict:
    """One position of a deviation-bounded long history: the script call at
    position i is replaced by every call of the alphabet, the rest of the
    script is run behind it."""
    mod, cfg, script, i = arg
    sp = importlib.import_module(mod).SPACE
    res = Result()
    seen: set = set()
    h = script[:i]
    pre_obj = sp.replay(cfg, h)
    pre = sp.observe(pre_obj)
    cache: dict = {}
    states = 0

    def note(F: list, hist: list, call: list, at: str) -> None:
        for prop, sig, what in F:
            res.merge_finding(prop, sig, what, {
                'config': cfg, 'history': hist, 'call': call, 'at': at})

    for call in sp.alphabet(pre, cfg):
        if call == script[i] if i < len(script) else False:
            continue
        obj, out = sp.apply(sp.replay(cfg, h), call)
        res.transitions += 1
        res.methods[f'{call[0]}:{out.label()}'] += 1
        F, post, go = sp.judge_transition(pre, pre_obj, call, out, obj, cache)
        note(F, h, call, 'transition')
        if post is None or not go:
            continue
        key = sp.key(obj, post)
        if key in seen:
            continue
        seen.add(key)
        states += 1
        hist = h + [call]
        # the deviated state itself
        probe = sp.replay(cfg, hist)
        F2, broken = sp.judge_state(probe, sp.observe(probe), call[0])
        note(F2, h, call, 'state')
        if broken:
            continue
        if sp.nontrivial(post):
            res.nontrivial += 1
        # the rest of the script behind the deviation
        cur, cur_obs = obj, post
        alive = True
        for step in script[i + 1:]:
            nxt, out2 = sp.apply(cur, step)
            res.transitions += 1
            res.methods[f'{step[0]}:{out2.label()}'] += 1
            F3, post2, go2 = sp.judge_transition(cur_obs, cur, step, out2, nxt, {})
            note(F3, hist, step, 'transition')
            if post2 is None or not go2:
                alive = False
                break
            hist = hist + [step]
            cur, cur_obs = nxt, post2
        if alive and len(hist) > len(h) + 1:
            key2 = sp.key(cur, cur_obs)
            if key2 not in seen:
                seen.add(key2)
                states += 1
                F4, _ = sp.judge_state(cur, cur_obs, hist[-1][0])
                note(F4, hist[:-1], hist[-1], 'state')
    return {'i': i, 'transitions': res.transitions, 'methods': res.methods,
            'findings': res.findings, 'states': states,
            'nontrivial': res.nontrivial}


def deviations(space_mod: str, cfg: dict, script: list, procs: int = 16,
               deadline: float | None = None) -> Result:
    """All histories that differ from `script` in exactly one position
    (every position, every other call of the alphabet in the state reached
    there), each executed to its end on the real object."""
    R = Result()
    positions = list(range(len(script) + 1))
    items = [(space_mod, cfg, script, i) for i in positions]
    gc.collect()
    gc.freeze()
    done = 0
    for r in pmap(_deviate, items, procs=procs, deadline=deadline,
                  initfn=gc.freeze):
        done += 1
        R.transitions += r['transitions']
        R.states += r['states']
        R.nontrivial += r['nontrivial']
        R.methods.update(r['methods'])
        for (prop, sig), rec in r['findings'].items():
            R.merge_finding(prop, sig, rec['what'], rec['replay'], rec['count'])
    R.max_depth = len(script)
    R.samples.append({'script': script[:4] + ['...'] + script[-2:],
                      'deviation': 'every alphabet call at every position'})
    if done < len(items):
        R.capped = (f'time cap: {done} of {len(items)} deviation positions of '
                    f'the {len(script)}-call script on {cfg["radixes"]} completed')
    return R


def enumerate_states(space_mod: str, cfg: dict, depth: int, procs: int = 16,
                     deadline: float | None = None) -> Iterator[tuple[list, Any]]:
    """Yield (history, object) for every distinct, sane state reached within
    `depth` calls (the object is rebuilt by replay in the caller's process)."""
    sp = importlib.import_module(space_mod).SPACE
    R = bfs(space_mod, cfg, depth, procs=procs, deadline=deadline, keep=True)
    for h in R.histories:
        yield h, sp.replay(cfg, h)
