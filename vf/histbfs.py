"""E2: explicit-state breadth-first search over call histories of a real,
sequential object (DESIGN 2.3).

A state *is* a history (a JSON list of calls).  Expanding a history means:
rebuild a fresh real object by replaying it, observe it through its public
read API, ask the space's alphabet for the calls enabled in that state, and
apply each call to its own fresh replay.  Every transition is judged against
the space's reference model; every state that has not been seen before (by
canonical key) is judged by the space's state oracles and enqueued.  Search
is level by level, so the first counterexample of a signature is a shortest
one; the histories of one level are distributed over `pmap` workers.

A *space* is a module exposing `SPACE` with
    replay(cfg, history) -> obj              fresh object, history applied
    observe(obj) -> obs
    alphabet(obs, cfg) -> [call, ...]        JSON lists
    apply(obj, call) -> (obj2, outcome)      outcome.label() -> str
    judge_transition(pre_obs, pre_obj, call, outcome, obj2, cache)
                                 -> (findings, post_obs | None, go_on)
    key(obj2, post_obs) -> bytes
    judge_state(obj2, post_obs, last_method) -> (findings, broken)
    nontrivial(obs) -> bool
    describe(obs) -> str
findings are (property, signature, text) triples.
"""
from __future__ import annotations

import gc
import hashlib
import importlib
import json
import time
from collections import Counter
from typing import Any, Iterator

from vf.common import HarnessError, pmap

_SEEN: set = set()          # inherited by the forked workers of each level


class Result:
    def __init__(self) -> None:
        self.states = 0
        self.broken_states = 0
        self.transitions = 0
        self.nontrivial = 0
        self.max_depth = 0
        self.levels: list[dict] = []
        self.findings: dict[tuple, dict] = {}     # (prop, sig) -> record
        self.methods: Counter = Counter()         # 'method:outcome' -> n
        self.capped: str | None = None
        self.histories: list[list] = []           # when keep=True
        self.samples: list[dict] = []

    def merge_finding(self, prop: str, sig: str, what: str, replay: dict,
                      count: int = 1) -> None:
        k = (prop, sig)
        size = (len(replay['history']), json.dumps(replay, sort_keys=True))
        cur = self.findings.get(k)
        if cur is None:
            self.findings[k] = {'what': what, 'replay': replay,
                                'count': count, 'size': size}
        else:
            cur['count'] += count
            if size < cur['size']:
                cur.update(what=what, replay=replay, size=size)


def _lookahead(sp: Any, cfg: dict, hist: list, res: 'Result') -> None:
    """One more call from a state that is not expanded because its views
    disagree (it is reported, as such, to the property about views): what
    every call of the alphabet does to the *program* from there is still
    judged, so a defect whose first symptom is an inconsistent view is also
    seen by the property about program order once an edit acts on that view.
    Anything the inconsistent object makes the harness itself stumble over
    ends the look-ahead silently."""
    try:
        pre_obj = sp.replay(cfg, hist)
        pre = sp.observe(pre_obj)
        calls = sp.alphabet(pre, cfg)
    except Exception:  # noqa
        return
    cache: dict = {}
    for call in calls:
        try:
            obj2, out = sp.apply(sp.replay(cfg, hist), call)
            res.transitions += 1
            F, _, _ = sp.judge_transition(pre, pre_obj, call, out, obj2, cache)
        except Exception:  # noqa
            continue
        for prop, sig, what in F:
            res.merge_finding(prop, sig + '/after-inconsistent-views', what, {
                'config': cfg, 'history': hist, 'call': call,
                'at': 'transition',
            })


def _expand_batch(arg: tuple) -> dict:
    """Expand a batch of frontier items (part index, history, keep history?)."""
    mod, cfgs, idx, items = arg
    sp = importlib.import_module(mod).SPACE
    new: dict[bytes, Any] = {}
    dead: set = set()
    stats: dict[int, Result] = {}
    for pi, h, want_hist in items:
        cfg = cfgs[pi]
        res = stats.setdefault(pi, Result())
        tag = bytes([pi])
        pre_obj = sp.replay(cfg, h)
        pre = sp.observe(pre_obj)
        cache: dict = {}
        for call in sp.alphabet(pre, cfg):
            obj = sp.replay(cfg, h)
            obj2, out = sp.apply(obj, call)
            res.transitions += 1
            res.methods[f'{call[0]}:{out.label()}'] += 1
            F, post, go = sp.judge_transition(pre, pre_obj, call, out, obj2, cache)
            for prop, sig, what in F:
                res.merge_finding(prop, sig, what, {
                    'config': cfg, 'history': h, 'call': call, 'at': 'transition',
                })
            if post is None or not go:
                continue
            key = tag + sp.key(obj2, post)
            if key in _SEEN or key in new or key in dead:
                continue
            F2, broken = sp.judge_state(obj2, post, call[0])
            for prop, sig, what in F2:
                res.merge_finding(prop, sig, what, {
                    'config': cfg, 'history': h, 'call': call, 'at': 'state',
                })
            if broken:
                dead.add(key)
                _lookahead(sp, cfg, h + [call], res)
                continue
            new[key] = ((h + [call]) if want_hist else None, sp.nontrivial(post))
    return {
        'idx': idx, 'new': new, 'dead': dead, 'n_items': len(items),
        'per_part': {pi: (r.transitions, r.methods, r.findings)
                     for pi, r in stats.items()},
        'items_per_part': Counter(pi for pi, _, _ in items),
    }


def bfs_multi(space_mod: str, parts: list[dict], procs: int = 16,
              deadline: float | None = None, keep: bool = False,
              progress: Any = None) -> list[Result]:
    """Breadth-first search of several parts at once, one worker pool per
    level for all of them.  A part is {'cfg': dict, 'depth': int,
    'root': history (optional)}; returns one Result per part."""
    global _SEEN
    sp = importlib.import_module(space_mod).SPACE
    _SEEN = set()
    cfgs = [p['cfg'] for p in parts]
    RS = [Result() for _ in parts]
    frontier: list[tuple] = []
    for pi, p in enumerate(parts):
        root = list(p.get('root') or [])
        obj = sp.replay(p['cfg'], root)
        obs = sp.observe(obj)
        _SEEN.add(bytes([pi]) + sp.key(obj, obs))
        F, broken = sp.judge_state(obj, obs, 'init')
        if F or broken:
            raise HarnessError(f'initial state of part {pi} is not clean: {F}')
        RS[pi].states = 1
        if keep:
            RS[pi].histories.append(root)
        frontier.append((pi, root))
    maxdepth = max(p['depth'] for p in parts)
    for d in range(1, maxdepth + 1):
        frontier = [(pi, h) for pi, h in frontier if parts[pi]['depth'] >= d]
        if not frontier:
            break
        t0 = time.time()
        # a fixed pseudo-random order: even load, and a level that is cut
        # short by the time cap has covered a spread of the frontier
        frontier.sort(key=lambda x: hashlib.sha1(
            json.dumps(x).encode()).digest())
        bs = max(1, min(3, len(frontier) // max(1, procs * 16)))
        items = [
            (space_mod, cfgs, i // bs, [
                (pi, h, keep or d < parts[pi]['depth'])
                for pi, h in frontier[i:i + bs]])
            for i in range(0, len(frontier), bs)
        ]
        cand: dict[bytes, tuple] = {}
        dead: set = set()
        done_batches = 0
        done_items: Counter = Counter()
        lvl_trans: Counter = Counter()
        # forked workers must not let a full collection touch (and thereby
        # copy) the parent's heap: park everything in the permanent generation
        gc.collect()
        gc.freeze()
        eff = max(1, min(procs, len(frontier) // 10))
        for r in pmap(_expand_batch, items, procs=eff, deadline=deadline,
                      initfn=gc.freeze):
            done_batches += 1
            done_items.update(r['items_per_part'])
            for pi, (tr, meth, fnd) in r['per_part'].items():
                lvl_trans[pi] += tr
                RS[pi].transitions += tr
                RS[pi].methods.update(meth)
                for (prop, sig), rec in fnd.items():
                    RS[pi].merge_finding(prop, sig, rec['what'], rec['replay'],
                                         rec['count'])
            dead |= r['dead']
            for k, (h, nt) in r['new'].items():
                cur = cand.get(k)
                if cur is None or (h is not None and cur[0] is not None
                                   and json.dumps(h) < json.dumps(cur[0])):
                    cand[k] = (h, nt)
        for k in dead:
            cand.pop(k, None)
        dead -= _SEEN
        _SEEN |= dead
        new_keys = [k for k in cand if k not in _SEEN]
        _SEEN.update(new_keys)
        nxt: list[tuple] = []
        n_new: Counter = Counter()
        n_dead: Counter = Counter(k[0] for k in dead)
        for k in new_keys:
            pi = k[0]
            h, nt = cand[k]
            n_new[pi] += 1
            RS[pi].nontrivial += 1 if nt else 0
            if h is not None:
                nxt.append((pi, h))
                if keep:
                    RS[pi].histories.append(h)
        in_level = Counter(pi for pi, _ in frontier)
        for pi in sorted(in_level):
            R = RS[pi]
            R.states += n_new[pi] + n_dead[pi]
            R.broken_states += n_dead[pi]
            if n_new[pi]:
                R.max_depth = d
            lvl = {
                'depth': d, 'expanded': done_items[pi], 'frontier': in_level[pi],
                'transitions': lvl_trans[pi], 'new_states': n_new[pi],
                'broken_states': n_dead[pi], 'wall_s': round(time.time() - t0, 1),
            }
            R.levels.append(lvl)
            if progress:
                progress(pi, lvl)
            if len(R.samples) < 6:
                hs = sorted((h for q, h in nxt if q == pi),
                            key=lambda h: json.dumps(h))
                R.samples.extend({'history': h} for h in hs[:2])
            if done_items[pi] < in_level[pi]:
                R.capped = (
                    f'time cap during BFS level {d}: {done_items[pi]} of '
                    f'{in_level[pi]} frontier states expanded '
                    f'(levels < {d} complete)')
        if done_batches < len(items):
            break
        frontier = nxt
    gc.unfreeze()
    return RS


def bfs(space_mod: str, cfg: dict, depth: int, procs: int = 16,
        deadline: float | None = None, keep: bool = False,
        progress: Any = None, root: list | None = None) -> Result:
    """Breadth-first search to `depth` calls from the initial object (or
    from the state reached by the history `root`)."""
    pr = (lambda pi, lvl: progress(lvl)) if progress else None
    return bfs_multi(space_mod, [{'cfg': cfg, 'depth': depth, 'root': root}],
                     procs=procs, deadline=deadline, keep=keep, progress=pr)[0]


def _deviate(arg: tuple) -> dict:
    """One position of a deviation-bounded long history: the script call at
    position i is replaced by every call of the alphabet, the rest of the
    script is run behind it."""
    mod, cfg, script, i, job, part, nparts = arg
    sp = importlib.import_module(mod).SPACE
    res = Result()
    seen: set = set()
    h = script[:i]
    pre_obj = sp.replay(cfg, h)
    pre = sp.observe(pre_obj)
    cache: dict = {}
    nontriv: set = set()

    def note(F: list, hist: list, call: list, at: str) -> None:
        for prop, sig, what in F:
            res.merge_finding(prop, sig, what, {
                'config': cfg, 'history': hist, 'call': call, 'at': at})

    for call in sp.alphabet(pre, cfg)[part::nparts]:
        if call == script[i] if i < len(script) else False:
            continue
        obj, out = sp.apply(sp.replay(cfg, h), call)
        res.transitions += 1
        res.methods[f'{call[0]}:{out.label()}'] += 1
        F, post, go = sp.judge_transition(pre, pre_obj, call, out, obj, cache)
        note(F, h, call, 'transition')
        if post is None or not go:
            continue
        key = sp.key(obj, post)
        if key in seen:
            continue
        seen.add(key)
        hist = h + [call]
        # the deviated state itself
        probe = sp.replay(cfg, hist)
        F2, broken = sp.judge_state(probe, sp.observe(probe), call[0])
        note(F2, h, call, 'state')
        if broken:
            # not a start state; but the script behind it still shows what
            # the inconsistency does to the program (see _lookahead)
            try:
                cur, cur_obs = obj, post
                for step in script[i + 1:]:
                    nxt, out2 = sp.apply(cur, step)
                    res.transitions += 1
                    F3, post2, go2 = sp.judge_transition(
                        cur_obs, cur, step, out2, nxt, {})
                    note([(p_, s_ + '/after-inconsistent-views', w_)
                          for p_, s_, w_ in F3], hist, step, 'transition')
                    if post2 is None or not go2:
                        break
                    hist = hist + [step]
                    cur, cur_obs = nxt, post2
            except Exception:  # noqa
                pass
            continue
        if sp.nontrivial(post):
            nontriv.add(key)
        # the rest of the script behind the deviation
        cur, cur_obs = obj, post
        alive = True
        for step in script[i + 1:]:
            nxt, out2 = sp.apply(cur, step)
            res.transitions += 1
            res.methods[f'{step[0]}:{out2.label()}'] += 1
            F3, post2, go2 = sp.judge_transition(cur_obs, cur, step, out2, nxt, {})
            note(F3, hist, step, 'transition')
            if post2 is None or not go2:
                alive = False
                break
            hist = hist + [step]
            cur, cur_obs = nxt, post2
        if alive and len(hist) > len(h) + 1:
            key2 = sp.key(cur, cur_obs)
            if key2 not in seen:
                seen.add(key2)
                if sp.nontrivial(cur_obs):
                    nontriv.add(key2)
                F4, _ = sp.judge_state(cur, cur_obs, hist[-1][0])
                note(F4, hist[:-1], hist[-1], 'state')
    return {'i': i, 'job': job, 'transitions': res.transitions, 'methods': res.methods,
            'findings': res.findings, 'keys': seen, 'nontrivial': nontriv}


def deviations(space_mod: str, jobs: list[tuple], procs: int = 16,
               deadline: float | None = None, split: int = 1) -> list[Result]:
    """jobs = [(cfg, script), ...].  For each job, all histories that differ
    from the script in exactly one position (every position, every other call
    of the alphabet in the state reached there), each executed to its end on
    the real object.  One worker pool for all jobs; one Result per job."""
    RS = [Result() for _ in jobs]
    items = []
    for ji, (cfg, script) in enumerate(jobs):
        for i in range(len(script) + 1):
            # the alphabet of one position is dealt out over `split` work items
            for part in range(split):
                items.append((space_mod, cfg, script, i, ji, part, split))
    # late positions are the expensive ones: start them first
    items.sort(key=lambda it: -it[3])
    gc.collect()
    gc.freeze()
    done: Counter = Counter()
    keys: list[set] = [set() for _ in jobs]
    ntkeys: list[set] = [set() for _ in jobs]
    for r in pmap(_deviate, items, procs=procs, deadline=deadline,
                  initfn=gc.freeze):
        R = RS[r['job']]
        done[r['job']] += 1
        R.transitions += r['transitions']
        keys[r['job']] |= r['keys']
        ntkeys[r['job']] |= r['nontrivial']
        R.methods.update(r['methods'])
        for (prop, sig), rec in r['findings'].items():
            R.merge_finding(prop, sig, rec['what'], rec['replay'], rec['count'])
    gc.unfreeze()
    for ji, (cfg, script) in enumerate(jobs):
        R = RS[ji]
        R.states = len(keys[ji])
        R.nontrivial = len(ntkeys[ji])
        R.max_depth = len(script)
        R.samples.append({'script': script[:3] + ['...'] + script[-2:],
                          'deviation': 'every alphabet call at every position'})
        if done[ji] < (len(script) + 1) * split:
            R.capped = (f'time cap: {done[ji]} of {(len(script) + 1) * split} '
                        f'work items ({len(script) + 1} deviation positions of '
                        f'the {len(script)}-call script) completed')
    return RS


def enumerate_states(space_mod: str, cfg: dict, depth: int, procs: int = 16,
                     deadline: float | None = None) -> Iterator[tuple[list, Any]]:
    """Yield (history, object) for every distinct, sane state reached within
    `depth` calls (the object is rebuilt by replay in the caller's process)."""
    sp = importlib.import_module(space_mod).SPACE
    R = bfs(space_mod, cfg, depth, procs=procs, deadline=deadline, keep=True)
    for h in R.histories:
        yield h, sp.replay(cfg, h)
