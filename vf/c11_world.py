"""C11, schedules quantifier for ParallelDo: the real control passes executed
by the real runtime (AttachedServer / managers + 1..3 workers) inside the E1
world under every schedule within a deviation bound.

ParallelDo is the one control pass whose behaviour depends on timing: its
branches are shipped to other workers with `runtime.map`, and with
`pick_first=True` the pass takes whichever branch result arrives first
(`runtime.next`) and cancels the rest.  The loop-back runtime of the main C11
check is the single one-worker schedule; here the scheduler of E1 decides
where every branch runs and in which order their results are delivered.

Oracle (reference interpreter of vf.checks.c11):
* pick_first=False: the final (circuit, every PassData field) equals the
  interpreter's unique result, whatever the schedule; every body that the
  interpreter runs is invoked exactly once.
* pick_first=True: the final observation equals the result of exactly one of
  the branches applied to the state before the ParallelDo (followed by the
  rest of the workflow), nothing of any other branch is visible in it, and no
  body is invoked more than once.
* the compilation returns (no hang, no error the bodies did not raise) and no
  runtime thread dies.
"""
from __future__ import annotations

import copy
import time
from typing import Any

from vf.explore import register_judge
from vf.scenarios import TOPOS

B = lambda k: ['body', k]   # noqa: E731

# term, scripts.  pids/ks unique inside a term.
TERMS: dict = {
    # two / three single-body branches, first result wins
    'first2': (['par', 'p0', [B(0), B(1)], True], {}),
    'first3': (['par', 'p0', [B(0), B(1), B(2)], True], {}),
    # a branch of two bodies against a branch of one; work after the pass
    'first-then': (['wf', [B(3), ['par', 'p0', [['wf', [B(0), B(1)]], B(2)],
                                  True], B(4)]], {}),
    # a rejected DoThenDecide inside a branch: that branch is the identity
    'first-dtd': (['par', 'p0', [['dtd', 'p1', B(0)], B(1)], True],
                  {'p1': [False]}),
    # nested: a branch that is itself a ParallelDo (ordered selection)
    'first-nested': (['par', 'p0', [['par', 'p1', [B(0), B(1)], False], B(2)],
                      True], {'p1': [True]}),
    # the branch that stays on the submitting worker is the slow one
    'first-nested-last': (['par', 'p0', [B(2), ['par', 'p1', [B(0), B(1)],
                                                 False]], True],
                          {'p1': [False]}),
    # ordered selection: every branch completes, `less_than` is scripted
    'best2-keep': (['par', 'p0', [B(0), B(1)], False], {'p0': [False]}),
    'best2-swap': (['par', 'p0', [B(0), B(1)], False], {'p0': [True]}),
    'best3': (['par', 'p0', [B(0), B(1), B(2)], False],
              {'p0': [True, False]}),
    'best-then': (['wf', [['par', 'p0', [B(0), ['wf', [B(1), B(2)]]], False],
                          B(3)]], {'p0': [True]}),
    # two ParallelDo passes in sequence, the second pick_first
    'best-first': (['wf', [['par', 'p0', [B(0), B(1)], False],
                           ['par', 'p1', [B(2), B(3)], True]]],
                   {'p0': [True]}),
}


def run_case(comp: Any, name: str) -> dict:
    """Called from a client script inside the world."""
    from vf import c11_passes as P
    from vf.checks import c11 as C
    term, scripts = TERMS[name]
    circ, d0 = C.control_initial()
    P.reset(scripts)
    out, data = comp.compile(circ.copy(), [P.build(term)], True,
                             data=copy.deepcopy(d0))
    final = P.observe(out, data)
    bodies: dict = {}
    for e in P.TRACE:
        if e[0] == 'body':
            bodies[e[1]] = bodies.get(e[1], 0) + 1
    marks = (final.get('user') or {}).get('marks') or {}
    return {'final': final, 'bodies': bodies,
            'label': 'ran=' + ''.join(sorted(bodies)) + ';kept='
            + ''.join('b%s' % k for k in marks.get('seq', []))}


def candidates(name: str) -> tuple:
    """(list of admissible final observations, bodies that must run exactly
    once in every admissible execution, all body ids)."""
    from vf import c11_passes as P
    from vf.checks import c11 as C
    from bqskit.compiler.passdata import PassData
    term, scripts = TERMS[name]
    circ, d0 = C.control_initial()
    pd = PassData(circ)
    pd.update(copy.deepcopy(d0))
    st0 = P.observe(circ, pd)

    def expand(t: Any) -> list:
        """All deterministic terms obtained by replacing each pick_first
        ParallelDo by one of its branches."""
        k = t[0]
        if k == 'body':
            return [t]
        if k == 'wf':
            outs: list = [[]]
            for x in t[1]:
                outs = [o + [y] for o in outs for y in expand(x)]
            return [['wf', o] for o in outs]
        if k in ('while', 'dowhile', 'dtd'):
            return [[k, t[1], y] + t[3:] for y in expand(t[2])]
        if k == 'if':
            el = expand(t[3]) if t[3] is not None else [None]
            return [['if', t[1], y, z] for y in expand(t[2]) for z in el]
        if k == 'par':
            if t[3]:
                return [y for x in t[2] for y in expand(x)]
            outs = [[]]
            for x in t[2]:
                outs = [o + [y] for o in outs for y in expand(x)]
            return [['par', t[1], o, False] for o in outs]
        raise ValueError(k)

    finals, musts = [], None
    for det in expand(term):
        st = C.snap(st0)
        tr: list = []
        C.interp(det, st, tr, C.Script(scripts, 99))
        finals.append(st)
        ran = _bodies_in(tr)
        musts = ran if musts is None else (musts & ran)
    return finals, sorted(musts or ()), sorted(
        k for k in C.ids_of(term) if k.startswith('b'))


def _bodies_in(tr: list) -> set:
    """Body ids in an interpreter trace, including those inside the branch
    traces of (nested) ordered ParallelDo events."""
    out: set = set()
    for e in tr:
        if e[0] == 'body':
            out.add(e[1])
        elif e[0] in ('par', 'parfirst'):
            for sub in e[2]:
                out |= _bodies_in(sub)
    return out


_CANDS: dict = {}


def judge_c11w(spec: dict, rec: dict, fault: Any) -> list:
    from vf.checks import c11 as C
    v: list = []
    name = spec['case']
    for tname, tb in rec['thread_errors']:
        v.append(('world:thread-died', f'{tname}: {tb[-500:]}'))
    evs = rec['clients'].get('cli0', {}).get('events', [])
    if not evs:
        v.append(('world:paralleldo-client-hang',
                  f'{name}: compile never returned; alive {rec["alive"]}'))
        return v
    ev = evs[0]
    if ev[2] == 'exc':
        v.append(('world:paralleldo-workflow-raised',
                  f'{name}: {ev[3]}: {ev[4][-600:]}'))
        return v
    r = ev[3]
    if name not in _CANDS:
        _CANDS[name] = candidates(name)
    finals, musts, allb = _CANDS[name]
    diffs = [C.diff_obs(c, r['final']) for c in finals]
    if all(diffs):
        d = min(diffs, key=len)
        first = 'pickfirst' if any(t[0] == 'par' and t[3]
                                   for t in _walk(TERMS[name][0])) else 'best'
        v.append((
            f'world:paralleldo-{first}-result-is-no-single-branch:'
            + ','.join(sorted(d)),
            f'{name}: the final circuit/pass data equal none of the '
            f'{len(finals)} admissible results; closest differs in {d}; '
            f'bodies run: {r["bodies"]}'))
    for b, n in sorted(r['bodies'].items()):
        if n > 1:
            v.append(('world:paralleldo-body-ran-twice',
                      f'{name}: {b} invoked {n} times'))
    for b in musts:
        if r['bodies'].get(b, 0) != 1:
            v.append(('world:paralleldo-body-not-run',
                      f'{name}: {b} invoked {r["bodies"].get(b, 0)} times'))
    return v


def _walk(t: Any) -> list:
    out = [t]
    k = t[0]
    if k == 'wf':
        for x in t[1]:
            out += _walk(x)
    elif k in ('while', 'dowhile', 'dtd'):
        out += _walk(t[2])
    elif k == 'if':
        out += _walk(t[2]) + (_walk(t[3]) if t[3] is not None else [])
    elif k == 'par':
        for x in t[2]:
            out += _walk(x)
    return out


register_judge('c11w', judge_c11w)


def specs(quick: bool) -> list:
    combos = [('a1', 'first2'), ('a2', 'first2'), ('a3', 'first3'),
              ('a2', 'first-then'), ('a2', 'first-dtd'), ('a2', 'best2-swap'),
              ('a3', 'best3'), ('d11', 'first2'),
              ('a2', 'first-nested-last'), ('a3', 'first-nested-last')]
    if not quick:
        combos += [(tp, n) for tp in ('a1', 'a2', 'a3', 'd11', 'd2')
                   for n in TERMS if (tp, n) not in combos]
    return [{'name': f'{tp}/paralleldo/{n}', 'topo': TOPOS[tp], 'case': n,
             'clients': [[['c11wf', n], ['close']]]}
            for tp, n in combos]


def run_part(ctx: Any, seconds: float | None = None) -> dict:
    from vf import explore
    t0 = time.time()
    secs = seconds or (60 if ctx.quick else 1200)
    sp = specs(ctx.quick)
    st = explore.explore(ctx, sp, 'c11w', 1, 'deviation',
                         deadline=t0 + secs, part='paralleldo-world')
    ctx.part('paralleldo-world(deviation<=1)', scenarios=len(sp),
             executions=st['executions'], complete=st['complete'],
             transitions=st['transitions'],
             wall_s=round(time.time() - t0, 1),
             per_scenario={k: v['executions']
                           for k, v in st['per_scenario'].items()})
    t1 = time.time()
    names2 = ['a2/paralleldo/first2'] if ctx.quick else [
        'a2/paralleldo/first2', 'a2/paralleldo/best2-swap',
        'a3/paralleldo/first3', 'a2/paralleldo/first-dtd']
    sp2 = [s for s in sp if s['name'] in names2]
    st2 = explore.explore(ctx, sp2, 'c11w', 2, 'deviation',
                          deadline=t1 + (45 if ctx.quick else 1500),
                          part='paralleldo-world/2')
    ctx.part('paralleldo-world(deviation<=2)', scenarios=len(sp2),
             executions=st2['executions'], complete=st2['complete'],
             transitions=st2['transitions'],
             wall_s=round(time.time() - t1, 1))
    st['executions'] += st2['executions']
    st['transitions'] += st2['transitions']
    return st
