"""C17 enumerators and pool workers (module-level, picklable tasks).

A task is a tuple whose first element names the enumerator; the worker
enumerates the task's slice of the space in canonical order, judges every
case, re-runs and minimises every disagreement, and returns counters.
"""
from __future__ import annotations

import collections
import itertools
from typing import Any

import numpy as np

from vf import c17_lib as L

SPECIALS = [1e-05, -1.0, 12345.678, -2.5e-07, 1e+16, 0.0, np.pi, 2.0]


# --------------------------------------------------------------------------
# result accumulator
# --------------------------------------------------------------------------
def new_result(fam: str) -> dict:
    return {
        'fam': fam, 'evals': 0, 'programs': 0, 'nontrivial': 0,
        'distinct': 0, 'out': collections.Counter(), 'checked': 0,
        'viol': {}, 'samples': [], 'skipped': collections.Counter(),
        'flaky': 0, 'notes': collections.Counter(), 'cpu': 0.0,
    }


def add_viol(res: dict, sig: str, what: str, rep: Any, size: int) -> None:
    cur = res['viol'].get(sig)
    key = (size, str(rep))
    if cur is None:
        res['viol'][sig] = [1, key, what, rep]
    else:
        cur[0] += 1
        if key < cur[1]:
            cur[1], cur[2], cur[3] = key, what, rep


def merge(total: dict, res: dict) -> None:
    for k in ('evals', 'programs', 'nontrivial', 'distinct', 'checked',
              'flaky', 'cpu'):
        total[k] += res[k]
    total['out'].update(res['out'])
    total['skipped'].update(res['skipped'])
    total['notes'].update(res['notes'])
    for sig, (cnt, key, what, rep) in res['viol'].items():
        cur = total['viol'].get(sig)
        if cur is None:
            total['viol'][sig] = [cnt, key, what, rep]
        else:
            cur[0] += cnt
            if key < cur[1]:
                cur[1], cur[2], cur[3] = key, what, rep
    if len(total['samples']) < 3:
        total['samples'].extend(res['samples'][:3 - len(total['samples'])])


# --------------------------------------------------------------------------
# round trip
# --------------------------------------------------------------------------
def rt_keys(excluded: tuple = (), max_nq: int = 3) -> list:
    reg = L.registry()
    return [k for k in sorted(reg) if k not in excluded
            and reg[k]['nq'] <= max_nq]


REDUCED_RT = (
    'HGate', 'RXGate', 'U3Gate', 'CNOTGate', 'CRZGate', 'CCXGate',
    'ControlledGate(SwapGate)', 'CircuitGate[rx,cx,rz]',
    'BarrierPlaceholder(2)', 'MeasurementPlaceholder(1)', 'Reset',
    'FrozenParameterGate(U3Gate,{1:0.3})', 'XXGate',
)


def single_param_vectors(k: int, seed: int) -> list:
    if k == 0:
        return [[]]
    gen = [L.generic(seed, i) for i in range(k)]
    vecs = [gen]
    for i in range(k):
        v = list(gen)
        v[i] = -v[i]
        vecs.append(v)
    for s in SPECIALS:
        vecs.append([float(s)] * k)
    mixed = [float(SPECIALS[i % len(SPECIALS)]) for i in range(k)]
    vecs.append(mixed)
    seen: dict = {}
    for v in vecs:
        seen.setdefault(tuple(v), v)
    return list(seen.values())


def seq_param_variants(keys_locs: list, seed: int, both: bool) -> list:
    reg = L.registry()
    tot = sum(reg[k]['np'] for k, _ in keys_locs)
    variants = []
    slot = 0
    a = []
    for k, loc in keys_locs:
        npar = reg[k]['np']
        a.append([k, list(loc),
                  [L.generic(seed, slot + i) for i in range(npar)]])
        slot += npar
    variants.append(a)
    if tot and both:
        slot = 0
        b = []
        for k, loc in keys_locs:
            npar = reg[k]['np']
            b.append([k, list(loc), [
                float(SPECIALS[(slot + i) % len(SPECIALS)])
                for i in range(npar)
            ]])
            slot += npar
        variants.append(b)
    return variants


def judge_rt(res: dict, n: int, ops: list) -> None:
    res['evals'] += 1
    res['distinct'] += 1
    status, detail, nt = L.run_rt_nt(n, ops)
    res['nontrivial'] += bool(nt)
    res['out']['rt:' + status] += 1
    if status == 'ok':
        return
    if status == 'skip-gate-matrix':
        res['skipped']['gate-matrix-unavailable:' + ops[0][0]] += 1
        return
    sig, what, rep = L.rt_signature(n, ops, status, detail)
    if sig is None:
        res['flaky'] += 1
        res['notes'][what] += 1
        return
    res['checked'] += 1
    add_viol(res, sig, what, rep, len(rep['ops']))


def rt_nontrivial(n: int, ops: list) -> bool:
    """A circuit is non-trivial if it is not the identity up to phase or
    contains a non-unitary placeholder."""
    reg = L.registry()
    if any(reg[k]['kind'] != 'u' for k, _, _ in ops):
        return True
    _, lst = L.build_circuit(n, ops)
    return not L.is_identity_up_to_phase(L.ops_unitary(n, lst))


def work_rt(task: tuple) -> dict:
    kind = task[0]
    res = new_result('roundtrip')
    reg = L.registry()
    if kind == 'rt1':
        _, n, seed, chunk, nch = task
        keys = [k for k in sorted(reg) if reg[k]['nq'] <= n
                and (reg[k]['nq'] <= 3 or reg[k]['nq'] == n)]
        if n > 3:
            keys = [k for k in keys if reg[k]['nq'] == n]
        keys = keys[chunk::nch]
        failing = set()
        for key, loc in L.placed_ops(n, keys):
            for pv in single_param_vectors(reg[key]['np'], seed):
                ops = [[key, list(loc), pv]]
                before = res['out']['rt:ok']
                skipb = res['out']['rt:skip-gate-matrix']
                judge_rt(res, n, ops)
                if res['out']['rt:ok'] == before \
                        and res['out']['rt:skip-gate-matrix'] == skipb:
                    failing.add(key)
                if n == 2 and len(res['samples']) < 1 and pv \
                        and reg[key]['nq'] == 2:
                    c, _ = L.build_circuit(n, ops)
                    res['samples'].append({
                        'family': 'roundtrip', 'ops': ops,
                        'encoded': L.lang().encode(c),
                    })
        res['failing'] = sorted(failing)
        return res
    if kind == 'rt2':
        _, n, i, excluded, both, seed, first_tag = task
        P = L.placed_ops(n, rt_keys(tuple(excluded)))
        if first_tag == 'reduced':
            first = L.placed_ops(
                n, [k for k in REDUCED_RT if k not in excluded],
            )[i]
        else:
            first = P[i]
        for second in P:
            for ops in seq_param_variants([first, second], seed, both):
                judge_rt(res, n, ops)
        return res
    if kind == 'rt3':
        _, n, i, j, tag, excluded, seed = task
        keys = rt_keys(tuple(excluded)) if tag == 'full' else \
            [k for k in REDUCED_RT if k in reg and k not in excluded]
        P = L.placed_ops(n, keys)
        for third in P:
            for ops in seq_param_variants([P[i], P[j], third], seed, False):
                judge_rt(res, n, ops)
        return res
    raise ValueError(kind)


# --------------------------------------------------------------------------
# programs: layouts, statement alphabets
# --------------------------------------------------------------------------
LAYOUTS = [(1,), (2,), (1, 1), (1, 2), (2, 1), (2, 2)]
WIDE_LAYOUTS = [(3, 2), (2, 3)]
EXTRA_LAYOUTS = [(1, 1, 1), (2, 1, 2)]
REGNAMES = ('q', 'r', 'w')


def layout_decls(layout: tuple, creg: str) -> tuple:
    d = [f'qreg {REGNAMES[i]}[{s}];' for i, s in enumerate(layout)]
    if creg == 'first':
        d = ['creg c[2];'] + d
    elif creg == 'last':
        d = d + ['creg c[2];']
    elif creg == 'middle':
        d = d[:1] + ['creg c[2];'] + d[1:]
    return tuple(d)


def layout_qubits(layout: tuple) -> list:
    return [f'{REGNAMES[i]}[{j}]' for i, s in enumerate(layout)
            for j in range(s)]


def lib_gates() -> list:
    """(name, num_params, num_qubits) of every gate Qiskit's qelib1 knows,
    plus the two built-ins."""
    q = L.qk()
    out = [(c.name, c.num_params, c.num_qubits) for c in q['lci']
           if c.name != 'delay']
    return out + [('U', 3, 1), ('CX', 0, 2)]


def lit(seed: int, i: int) -> str:
    return repr(L.generic(seed, i))


def gate_stmt(name: str, npar: int, qs: tuple, seed: int, base: int = 0) -> str:
    if name == 'u0':
        par = '(1)'
    elif npar:
        par = '(' + ','.join(lit(seed, base + i) for i in range(npar)) + ')'
    else:
        par = ''
    return f'{name}{par} ' + ','.join(qs) + ';'


def seq_alphabet(layout: tuple, seed: int, small: bool) -> list:
    Q = layout_qubits(layout)
    out = []
    for q in Q:
        out.append(f'h {q};')
    for q in Q:
        out.append(f'rx({lit(seed, 0)}) {q};')
    if not small:
        for q in Q:
            out.append(f'U({lit(seed, 1)},{lit(seed, 2)},{lit(seed, 3)}) {q};')
    pairs = list(itertools.permutations(Q, 2))
    for a, b in pairs:
        out.append(f'cx {a},{b};')
    if not small:
        for a, b in pairs:
            out.append(f'CX {a},{b};')
    for a, b in pairs:
        out.append(f'crz({lit(seed, 4)}) {a},{b};')
    for t in itertools.permutations(Q, 3):
        out.append('ccx ' + ','.join(t) + ';')
    for q in Q:
        for j in ((0,) if small else (0, 1)):
            out.append(f'measure {q} -> c[{j}];')
    for q in Q:
        out.append(f'reset {q};')
    if not small:
        for q in Q:
            out.append(f'barrier {q};')
    for a, b in pairs:
        out.append(f'barrier {a},{b};')
    return out


# --------------------------------------------------------------------------
# gate definition families
# --------------------------------------------------------------------------
OPS5 = ('+', '-', '*', '/', '^')


def fe1() -> list:
    out = ['a', '-a'] + [f'{f}(a)' for f in L.FUNCS]
    for c in ('pi', '2'):
        for op in OPS5:
            out += [f'a{op}{c}', f'{c}{op}a']
    out += [f'a{op}a' for op in OPS5]
    out += ['-(a)', '(a)^2', '(-a)^2', '2^(a)', '-(a+2)', '-a^2', '2^-a']
    for o1 in OPS5:
        for o2 in OPS5:
            out += [f'(a{o1}2){o2}pi', f'pi{o2}(a{o1}2)']
    return list(dict.fromkeys(out))


def fe2() -> list:
    out = []
    for x, y in itertools.product(('a', 'b', '2'), repeat=2):
        if x == '2' and y == '2':
            continue
        out += [f'{x}{op}{y}' for op in OPS5]
    out += ['-b'] + [f'{f}(b)' for f in L.FUNCS]
    for o1 in OPS5:
        for o2 in OPS5:
            out += [f'(a{o1}b){o2}2', f'2{o2}(a{o1}b)']
    return list(dict.fromkeys(out))


VALS1 = ('0.3', '-0.7', 'pi/2', '1e-1', '2')
VALS2 = (('0.3', '-0.7'), ('-0.7', '0.3'), ('pi/2', '2'), ('1e-1', '0.3'),
         ('2', '-0.7'), ('-0.7', '-1.1'))


def gd1_cases() -> list:
    """(prog, guard_expr, env-texts)"""
    out = []
    for E in fe1():
        for v in VALS1:
            p = (('qreg q[1];',), (f'gate g(a) x {{ rx({E}) x; }}',),
                 (f'g({v}) q[0];',))
            out.append((p, E, {'a': v}))
    for E in fe2():
        for va, vb in VALS2:
            p = (('qreg q[1];',), (f'gate g(a,b) x {{ rx({E}) x; }}',),
                 (f'g({va},{vb}) q[0];',))
            out.append((p, E, {'a': va, 'b': vb}))
    return out


def gd2_bodies(k: int, m: int) -> list:
    ba = ['h x;', 'rx(0.37) x;', 'U(0.4,0.9,1.3) x;']
    if m == 2:
        ba += ['cx x,y;', 'cx y,x;', 'CX y,x;', 'h y;']
    if k >= 1:
        ba += ['rx(a) x;', 'U(a,0.2,a/2) x;']
        if m == 2:
            ba += ['crz(a) y,x;', 'rx(a) y;']
    if k == 2:
        ba += ['rx(b) x;', 'rx(a-b) x;', 'u3(b,a,0.5) x;']
        if m == 2:
            ba += ['crz(b) x,y;', 'rx(a/b) y;']
    bodies = [(s,) for s in ba] + [(s, t) for s in ba for t in ba]
    return bodies


def gd2_tasks() -> list:
    return [(k, m) for k in (0, 1, 2) for m in (1, 2)]


def gd2_cases(k: int, m: int, quick: bool) -> list:
    layout = (1, 2)
    decls = layout_decls(layout, 'none')
    Q = layout_qubits(layout)
    formals = ['a', 'b'][:k]
    qargs = ['x', 'y'][:m]
    head = 'gate g' + (f'({",".join(formals)})' if k else '') \
        + ' ' + ','.join(qargs)
    valsets = [('0.3', '1.1'), ('pi/2', '-0.7')]
    if quick:
        valsets = valsets[:1]
    out = []
    for body in gd2_bodies(k, m):
        d = head + ' { ' + ' '.join(body) + ' }'
        for locs in itertools.permutations(Q, m):
            for vs in valsets:
                call = 'g' + (f'({",".join(vs[:k])})' if k else '') \
                    + ' ' + ','.join(locs) + ';'
                out.append((decls, (d,), (call,)))
    return list(dict.fromkeys(out))


INNER = (
    ('gate g1(a,b) x,y { rx(a) x; crz(b) x,y; }', 2, 2),
    ('gate g1(a) x { u3(a,a/2,0.3) x; }', 1, 1),
    ('gate g1 x,y { cx x,y; h y; }', 0, 2),
)


def gd3_tasks() -> list:
    return [(ii, k2, m2) for ii, (_, k1, m1) in enumerate(INNER)
            for k2 in (0, 1, 2) for m2 in (1, 2) if m2 >= m1]


def gd3_cases(ii: int, k2: int, m2: int, quick: bool) -> list:
    inner, k1, m1 = INNER[ii]
    layout = (1, 2)
    decls = layout_decls(layout, 'none')
    Q = layout_qubits(layout)
    formals = ['c', 'd'][:k2]
    qargs = ['u', 'v'][:m2]
    ae = ['0.4', 'pi']
    if k2 >= 1:
        ae += ['c', '-c', 'c*2', 'c/2']
    if k2 == 2:
        ae += ['d', 'c+d', 'd-c', 'd/c', 'c*d']
    head = 'gate g2' + (f'({",".join(formals)})' if k2 else '') \
        + ' ' + ','.join(qargs)
    extra = 'rz(c) u;' if k2 >= 1 else 'h u;'
    valsets = [('0.3', '1.1'), ('0.9', '-0.7')]
    locsets = list(itertools.permutations(Q, m2))
    directs = ['', 'g1' + (f'({",".join(("0.2", "0.5")[:k1])})' if k1 else '')
               + ' ' + ','.join(('r[1]', 'q[0]')[:m1]) + ';']
    if quick:
        valsets = valsets[:1]
        locsets = [locsets[0], locsets[-1]]
        directs = directs[:1]
    out = []
    for args in itertools.product(ae, repeat=k1):
        for qs in itertools.permutations(qargs, m1):
            call = 'g1' + (f'({",".join(args)})' if k1 else '') \
                + ' ' + ','.join(qs) + ';'
            for body in ((call,), (call, extra), (extra, call)):
                d2 = head + ' { ' + ' '.join(body) + ' }'
                for locs in locsets:
                    for vs in valsets:
                        main = 'g2' + (f'({",".join(vs[:k2])})' if k2 else '') \
                            + ' ' + ','.join(locs) + ';'
                        for direct in directs:
                            st = (main,) + ((direct,) if direct else ())
                            out.append((decls, (inner, d2), st))
    return list(dict.fromkeys(out))


STATIC_BUILTIN_NAMES = (
    'b', 'ccp', 'cs', 'ct', 'cv', 'ecr', 'fsim', 'iccx', 'iswap', 'pxz',
    'ryy', 'sqisw', 'syc', 'u1q', 'v', 'xx', 'yy', 'zz', 'cu2',
)


def shadow_cases() -> list:
    """User gate definitions under every name, including the names of
    BQSKit's own non-qelib1 built-ins (with the built-in's arity)."""
    qnames = {g[0] for g in lib_gates()}
    table: dict = {}
    try:
        from bqskit.ir.lang.qasm2.visitor import OPENQASMVisitor
        for name, d in OPENQASMVisitor().gate_defs.items():
            table[name] = (int(d.num_params), int(d.num_vars))
    except Exception:
        pass
    names = {n: table.get(n, (1, 1)) for n in STATIC_BUILTIN_NAMES}
    for n, ar in table.items():
        if n not in qnames:
            names[n] = ar
    for n in ('g', 'foo', 'my_gate1', 'zzz9'):
        names[n] = (1, 2)
    out = []
    for name in sorted(names):
        if name in qnames:
            continue
        npar, nq = names[name]
        nq = max(1, min(nq, 3))
        formals = [f'p{i}' for i in range(npar)]
        qargs = [f'a{i}' for i in range(nq)]
        body = ['h a0;']
        if npar:
            body.append('rx(p0) a0;')
        for i in range(1, nq):
            body.append(f'cx a0,a{i};')
        body.append('t a0;')
        d = f'gate {name}' + (f'({",".join(formals)})' if npar else '') \
            + ' ' + ','.join(qargs) + ' { ' + ' '.join(body) + ' }'
        vals = ','.join(['0.3', '1.1', '0.7', '0.2'][:npar])
        call = name + (f'({vals})' if npar else '') + ' ' \
            + ','.join(['q[2]', 'q[0]', 'q[1]'][:nq]) + ';'
        out.append((('qreg q[3];',), (d,), (call,)))
    return out


NUM_LITERALS = (
    '0', '1', '7', '10', '100', '2.', '.5', '0.5', '00.5', '1e-1', '1E-1',
    '1e+1', '1.e1', '1.5e-3', '12.5E2', '1e0', '0.1e1', '3.14159265358979',
    '1e-05', '2.5e-07', '0.30000000000000004',
)


FORMAL_NAMES = ('theta', 'phi', 'lambda', 'pi2', 'e', 'x1', 'exp1', 'sinx',
                'ln2', 'a_b', 'E', 'Pi', 'gamma', 'q')


def misc_cases() -> list:
    """Lexical / structural variants of otherwise ordinary programs; each
    is a (decls, defs, stmts) triple whose lines are used verbatim."""
    out = []
    two = ('qreg q[2];',)
    # formal parameter names
    for nm in FORMAL_NAMES:
        out.append((two, (f'gate g({nm}) x {{ rx({nm}/2) x; }}',),
                    ('g(0.6) q[1];',)))
        out.append((two, (f'gate g(a,{nm}) x,y {{ crz({nm}-a) y,x; }}',),
                    ('g(0.2,0.9) q[1],q[0];',)))
    # register names
    for rn in ('my_reg1', 'Q', 'qq', 'a', 'x', 'c', 'pi2', 'r_0'):
        out.append(((f'qreg q[1];', f'qreg {rn}[2];'), (),
                    (f'cx {rn}[1],q[0];', f'rx(0.4) {rn}[0];')))
    # white space, comments, several statements per line
    out.append((two, (), ('rx ( 0.3 ) q [ 1 ] ;', 'cx q[ 1 ] , q[0] ;')))
    out.append((two, (), ('// comment', 'h q[1]; // trailing', 'cx q[1],q[0];')))
    out.append((two, (), ('h q[1]; cx q[1],q[0]; rx(0.3) q[0];',)))
    out.append((two, (), ('h q[1];', '', '', 'cx q[1],q[0];')))
    out.append((two, (), ('rx(0.3)q[1];', 'cx q[1],q[0];')))
    out.append((two, (), ('rx(-.5)q[1];', 'u3(1.,2.e0,.5E+0) q[0];')))
    # empty bodies / empty parameter lists
    out.append((two, ('gate g a,b { }',), ('g q[1],q[0];', 'h q[0];')))
    out.append((two, ('gate g() a,b { cx b,a; }',), ('g() q[1],q[0];',)))
    out.append((two, ('gate g() a,b { cx b,a; }',), ('g q[1],q[0];',)))
    out.append((two, ('gate g a,b { cx b,a; }',), ('g() q[1],q[0];',)))
    out.append((two, ('gate g(t) a,b {', '  rx(t) a;', '  cx a,b;', '}'),
                ('g(0.3) q[1],q[0];',)))
    # barrier inside a body, opaque declaration that is never used
    out.append((two, ('gate g a,b { h a; barrier a,b; cx a,b; }',),
                ('g q[1],q[0];',)))
    out.append((two, ('opaque foo(t) a;',), ('h q[1];', 'cx q[1],q[0];')))
    # definitions between statements, registers declared late
    out.append((('qreg q[1];',), (),
                ('h q[0];', 'gate g x { s x; }', 'g q[0];', 'qreg r[1];',
                 'cx q[0],r[0];')))
    out.append((('creg c[1];', 'qreg q[2];'), (),
                ('x q[1];', 'measure q[1] -> c[0];', 'h q[1];')))
    # the same gate defined for use twice with different arguments
    out.append((two, ('gate g(t) a { rx(t) a; }',),
                ('g(0.3) q[0];', 'g(0.9) q[1];', 'g(-0.3) q[0];')))
    # integer and large literals as parameters
    out.append((two, (), ('rx(3) q[0];', 'rz(10) q[1];', 'ry(100) q[0];')))
    return out


# --------------------------------------------------------------------------
# program judging
# --------------------------------------------------------------------------
def judge_prog(res: dict, p: tuple, sub: str, tree: Any = None) -> None:
    text = L.ptext(p) if tree is None else L.expr_prog(L.etext(tree))
    res['evals'] += 1
    res['distinct'] += 1
    status, detail, K, B = L.diff(text)
    res['out']['prog:' + status] += 1
    if status == 'oracle-reject':
        res['notes']['oracle:' + detail.split(':', 2)[-1].strip()[:60]] += 1
        return
    if status == 'gate-matrix-unavailable':
        res['skipped']['gate-matrix-unavailable'] += 1
        return
    res['programs'] += 1
    if K is not None and not L.is_identity_up_to_phase(K):
        res['nontrivial'] += 1
    if status == 'agree':
        return
    # re-run the identical text: the disagreement must reproduce
    s2, d2, _, _ = L.diff(text)
    if s2 != status:
        res['flaky'] += 1
        return
    if tree is not None:
        sig, what, rep = L.classify_expr(tree, status, detail)
    else:
        sig, what, rep = L.classify_prog(p, status, detail, sub)
        if sub == 'shadow':
            name = L.stmt_name(p[2][0])
            res['notes']['shadowed:' + name] += 1
            sig = 'gatedef-shadowed-by-builtin-name'
            what = (f'user definition of a gate named like a BQSKit '
                    f'built-in is ignored ({name}): ' + what)
    res['checked'] += 1
    add_viol(res, sig, what, rep, len(rep['text']))


def work_prog(task: tuple) -> dict:
    kind = task[0]
    if kind == 'b1':
        _, layout, creg, seed = task
        res = new_result('layout-x-gate')
        decls = layout_decls(layout, creg)
        Q = layout_qubits(layout)
        wide = layout in WIDE_LAYOUTS
        for name, npar, nq in lib_gates():
            if nq > len(Q) or (wide and nq < 4):
                continue
            for qs in itertools.permutations(Q, nq):
                p = (decls, (), (gate_stmt(name, npar, qs, seed),))
                judge_prog(res, p, 'single')
                if len(res['samples']) < 1 and nq == 2 and len(layout) == 2 \
                        and qs[0][0] != qs[1][0] and npar:
                    res['samples'].append(
                        {'family': 'layout-x-gate', 'text': L.ptext(p)})
        return res
    if kind == 'b2':
        _, layout, prefix, small, seed = task
        res = new_result('statement-sequences')
        decls = layout_decls(layout, 'last')
        A = seq_alphabet(layout, seed, small)
        head = tuple(A[i] for i in prefix)
        p = None
        for last in A:
            p = (decls, (), head + (last,))
            judge_prog(res, p, 'seq')
        if p is not None and all(i == len(A) // 2 for i in prefix):
            res['samples'].append(
                {'family': 'statement-sequences', 'text': L.ptext(p)})
        return res
    if kind == 'e01':
        _, leaves = task
        res = new_result('expressions')
        trees = [('leaf', x) for x in leaves] + L.depth1(list(leaves)) \
            + L.depth2_unary(list(leaves))
        _expr_batch(res, trees)
        return res
    if kind == 'e2':
        _, leaves, ai, op, chunk, nch, core = task
        res = new_result('expressions')
        trees = L.depth2_for_left(list(leaves), ai, (op,))
        if core is not None:
            trees = [t for t in trees if L.in_quick_core(t, core)]
        trees = trees[chunk::nch]
        _expr_batch(res, trees)
        if ai == len(leaves) + 40 and op == '*' and chunk == 0 and trees:
            res['samples'].append({
                'family': 'expressions',
                'text': L.expr_prog(L.etext(trees[len(trees) // 2])),
            })
        return res
    if kind == 'misc':
        res = new_result('lexical-and-structural-variants')
        for p in misc_cases():
            judge_prog(res, p, 'misc')
        return res
    if kind == 'num':
        res = new_result('number-formats')
        for x in NUM_LITERALS:
            for sgn in ('', '-'):
                for tmpl in ('rx({}) q[0];', 'U({},0,0) q[0];',
                             'u3(0.4,{},1e-1) q[0];'):
                    p = (('qreg q[1];',), (), (tmpl.format(sgn + x),))
                    judge_prog(res, p, 'num')
        return res
    if kind == 'gd1':
        _, chunk, nchunks = task
        res = new_result('gatedef-formal-expressions')
        for p, E, envt in gd1_cases()[chunk::nchunks]:
            try:
                env = {k: L.guarded_value(v) for k, v in envt.items()}
                L.guarded_value(E, env)
            except L.Skip as s:
                res['skipped'][str(s)] += 1
                continue
            judge_prog(res, p, 'formal-expr')
        res['samples'].append(
            {'family': 'gatedef-formal-expressions', 'text': L.ptext(p)})
        return res
    if kind == 'gd2':
        _, k, m, quick, chunk, nch = task
        res = new_result('gatedef-binding')
        for p in gd2_cases(k, m, quick)[chunk::nch]:
            judge_prog(res, p, 'binding')
        return res
    if kind == 'gd3':
        _, ii, k2, m2, quick, chunk, nch = task
        res = new_result('gatedef-nested')
        cases = gd3_cases(ii, k2, m2, quick)[chunk::nch]
        for p in cases:
            judge_prog(res, p, 'nested')
        if ii == 0 and k2 == 2 and m2 == 2 and chunk == 0 and cases:
            res['samples'].append({'family': 'gatedef-nested',
                                   'text': L.ptext(cases[len(cases) // 2])})
        return res
    if kind == 'shadow':
        res = new_result('gatedef-names')
        for p in shadow_cases():
            judge_prog(res, p, 'shadow')
        return res
    raise ValueError(kind)


def _expr_batch(res: dict, trees: list) -> None:
    for t in trees:
        text = L.etext(t)
        try:
            L.guarded_value(text)
        except L.Skip as s:
            res['skipped'][str(s)] += 1
            continue
        judge_prog(res, None, 'expr', tree=t)


# --------------------------------------------------------------------------
# translators
# --------------------------------------------------------------------------
LIBS = ('qiskit', 'cirq', 'pytket')


def unitary_keys(excluded: tuple) -> list:
    reg = L.registry()
    return [k for k in rt_keys(excluded) if reg[k]['kind'] == 'u']


def judge_tr(res: dict, lib: str, n: int, ops: list) -> None:
    res['evals'] += 1
    status, detail = L.run_tr(lib, n, ops)
    res['out'][f'tr:{lib}:{status}'] += 1
    if status == 'external-reject':
        res['notes'][f'{lib} rejects ' + '+'.join(
            L.spelling(k, tuple(l)) for k, l, p in ops)] += 1
        return
    res['programs'] += 1
    if status == 'ok':
        return
    sig, what, rep = L.tr_signature(lib, n, ops, status, detail)
    if sig is None:
        res['flaky'] += 1
        return
    res['checked'] += 1
    add_viol(res, sig, what, rep, len(rep['ops']))


def work_tr(task: tuple) -> dict:
    kind = task[0]
    res = new_result('translators')
    reg = L.registry()
    if kind == 'tr1':
        _, lib, n, key, excluded, seed = task
        for loc in itertools.permutations(range(n), reg[key]['nq']):
            ops = seq_param_variants([(key, loc)], seed, False)[0]
            judge_tr(res, lib, n, ops)
            res['distinct'] += 1
            res['nontrivial'] += rt_nontrivial(n, ops)
        return res
    if kind == 'tr2':
        _, lib, n, i, tag, excluded, seed, chunk, nch = task
        keys = unitary_keys(tuple(excluded))
        if tag == 'reduced':
            keys = [k for k in keys if k in REDUCED_RT]
        P = L.placed_ops(n, keys)
        for second in P[chunk::nch]:
            ops = seq_param_variants([P[i], second], seed, False)[0]
            judge_tr(res, lib, n, ops)
            res['distinct'] += 1
            res['nontrivial'] += rt_nontrivial(n, ops)
        return res
    if kind == 'trq':
        _, name, seed = task
        g = L.qiskit_std_gates()[name]
        n = max(3, g.num_qubits)
        for loc in itertools.permutations(range(n), g.num_qubits):
            res['evals'] += 1
            res['distinct'] += 1
            res['nontrivial'] += 1
            status, detail = L.run_trq(name, list(loc), n, seed)
            res['out'][f'tr:qiskit-lib:{status}'] += 1
            if status == 'external-reject':
                res['notes'][f'qiskit cannot dump {name}'] += 1
                continue
            res['programs'] += 1
            if status == 'ok':
                continue
            s2, _ = L.run_trq(name, list(loc), n, seed)
            if s2 != status:
                res['flaky'] += 1
                continue
            res['checked'] += 1
            rep = {'family': 'trq', 'gate': name, 'loc': list(loc), 'n': n}
            add_viol(res, f'translator-qiskit-library-{status}:{name}',
                     f'qiskit {name}@{loc}: {detail}', rep, g.num_qubits)
        return res
    raise ValueError(kind)


def guarded(arg: tuple) -> tuple:
    """Pool entry point: (task, absolute deadline or None) -> (status, res).

    A task whose stage deadline has passed is skipped (the stage then
    reports a cap); an exception of the harness itself is passed back."""
    import time
    import traceback
    task, deadline = arg
    if deadline is not None and time.time() > deadline:
        return ('skipped', None)
    try:
        c0 = time.process_time()
        res = work(task)
        res['cpu'] = time.process_time() - c0
        return ('ok', res)
    except (KeyboardInterrupt, SystemExit):
        raise
    except BaseException as e:  # noqa
        return ('harness_error', f'{type(e).__name__}: {e}\n'
                + traceback.format_exc()[-3000:])


def work(task: tuple) -> dict:
    k = task[0]
    if k.startswith('rt'):
        return work_rt(task)
    if k.startswith('tr'):
        return work_tr(task)
    return work_prog(task)
