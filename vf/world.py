"""The simulated runtime world: the real BQSKit runtime classes, built by their
real constructors, running as controlled threads over an explorer-owned
transport (see DESIGN.md 2.2).

Nothing in /repo is modified: module-level names of the runtime modules are
rebound to the fakes below before the constructors run.
"""
from __future__ import annotations

import collections
import itertools
import logging
import pickle
import time as _real_time
import uuid as _real_uuid
from queue import Empty
from typing import Any, Callable

import vf.common  # noqa: F401
from vf.sched import Abort
from vf.sched import Sched

import bqskit.compiler.compiler as C
import bqskit.compiler.task as CT_
import bqskit.runtime.attached as A
import bqskit.runtime.base as B
import bqskit.runtime.detached as D
import bqskit.runtime.manager as MG
import bqskit.runtime.worker as W
from bqskit.runtime.task import RuntimeTask

S: Sched = None  # type: ignore  # the scheduler of the current execution
WORLD: 'World' = None  # type: ignore

_ORIG_FACTORY = logging.getLogRecordFactory()
_REAL_WORKER = W.Worker
_REAL_GET_WORKER = W.get_worker


# ------------------------------------------------------------------ threads
class CThread:
    def __init__(self, target: Any = None, args: tuple = (),
                 kwargs: dict | None = None, daemon: Any = None,
                 name: Any = None) -> None:
        self.target = target
        self.args = args
        self.kwargs = kwargs or {}
        self.daemon = daemon
        self.t: Any = None

    def start(self) -> None:
        S.check()
        me = S.me()
        proc = me.proc
        n = WORLD.thread_counter[proc]
        WORLD.thread_counter[proc] += 1
        tname = getattr(self.target, '__name__', 'x')
        name = f'{proc}.t{n}.{tname}'
        traced = WORLD.trace_threads is not None and any(
            name.endswith(s) or proc == s for s in WORLD.trace_threads
        )
        self.t = S.spawn(
            name, lambda: self.target(*self.args, **self.kwargs), proc,
            traced=traced,
        )
        self.t.daemon = bool(self.daemon)

    def is_alive(self) -> bool:
        return self.t is not None and self.t.alive

    def join(self, timeout: Any = None) -> None:
        S.check()
        if self.t is None:
            raise RuntimeError('cannot join thread before it is started')
        if self.t is S.me():
            raise RuntimeError('cannot join current thread')
        if self.t.alive:
            t = self.t
            S.block_until(lambda: not t.alive, 'join', t.name)


def as_process_main(fn: Callable, proc: str) -> Callable:
    """The main thread of a simulated process.  When it returns (or dies of
    an exception) the interpreter of a real process shuts down: it waits for
    the non-daemon threads, abandons the daemon ones, and the process is
    gone -- its connections close and peers see end-of-file.  Without this a
    worker whose main loop ended would live on as its daemon incoming thread,
    which no real worker does."""
    def run() -> None:
        err = None
        try:
            fn()
        except Abort:
            raise
        except BaseException:  # noqa: the main thread died of an exception
            import traceback
            err = traceback.format_exc()
        if err is not None:
            me = S.me()
            me.exc = err
            S.thread_errors.append((me.name, err))
        _process_exit(proc)
    return run


def _process_exit(proc: str) -> None:
    """Never returns (like FakeOS.kill): the calling thread is part of the
    process that ends here."""
    me = S.me()
    others = [t for t in S.T.values()
              if t.proc == proc and t is not me and not t.daemon]
    if any(t.alive and not t.killed for t in others):
        S.block_until(
            lambda: not any(t.alive and not t.killed for t in others),
            'exitjoin', proc)
    WORLD.exits.append(proc)
    S.kill_proc(proc)
    # hand the baton on
    S._switch(me, True, 'exit', None, True)
    raise Abort()


class CProcess:
    def __init__(self, target: Any = None, args: tuple = (),
                 kwargs: dict | None = None) -> None:
        self.target = target
        self.args = args
        self.kwargs = kwargs or {}
        self.daemon = False
        self.pid = 1
        self.name: str | None = None

    def start(self) -> None:
        S.check()
        n = WORLD.proc_counter
        WORLD.proc_counter += 1
        wid = self.args[0] if self.args else None
        self.name = f'w{wid}' if wid is not None else f'p{n}'
        name = self.name
        traced = WORLD.trace_threads is not None and (
            name in WORLD.trace_threads or 'workers' in WORLD.trace_threads
        )
        S.spawn(
            name + '.main',
            as_process_main(
                lambda: self.target(*self.args, **self.kwargs), name),
            name, traced=traced,
        )

    def join(self, timeout: Any = None) -> None:
        S.check()
        name = self.name
        if name is not None and S.proc_alive(name):
            S.block_until(lambda: not S.proc_alive(name), 'pjoin', name)


class CQueue:
    def __init__(self, maxsize: int = 0) -> None:
        self.d: collections.deque = collections.deque()
        self.unfinished = 0     # queue.Queue's task_done()/join() accounting

    def put(self, x: Any, block: bool = True, timeout: Any = None) -> None:
        S.check()
        self.unfinished += 1
        self.d.append(x)

    put_nowait = put

    def empty(self) -> bool:
        return not self.d

    def qsize(self) -> int:
        return len(self.d)

    def get_nowait(self) -> Any:
        S.check()
        if not self.d:
            raise Empty
        return self.d.popleft()

    def get(self, block: bool = True, timeout: Any = None) -> Any:
        S.check()
        if self.d:
            S.point('qget')
        while not self.d:
            S.block_until(lambda: bool(self.d), 'qget')
        return self.d.popleft()

    def task_done(self) -> None:
        if self.unfinished <= 0:
            raise ValueError('task_done() called too many times')
        self.unfinished -= 1

    def join(self) -> None:
        S.check()
        if self.unfinished:
            S.block_until(lambda: self.unfinished == 0, 'qjoin')
        else:
            S.point('qjoin')


class CLock:
    def __init__(self) -> None:
        self.held = False
        self.owner: Any = None

    def acquire(self, blocking: bool = True, timeout: float = -1) -> bool:
        S.check()
        if not self.held:
            S.point('lock')     # may be preempted right before acquiring
        while self.held:
            S.block_until(lambda: not self.held, 'lock')
        self.held = True
        self.owner = S.me().name
        return True

    def release(self) -> None:
        self.held = False
        self.owner = None

    def __enter__(self) -> 'CLock':
        self.acquire()
        return self

    def __exit__(self, *a: Any) -> None:
        self.release()


# ---------------------------------------------------------------- transport
class FakeConn:
    """One endpoint of a reliable FIFO duplex connection."""

    def __init__(self, label: str) -> None:
        self.inbox: collections.deque = collections.deque()
        self.closed = False
        self.dead = False          # owning process was killed
        self.peer: FakeConn = None  # type: ignore
        self.label = label
        self.serial = next(WORLD.conn_serial)
        self.owner: str | None = None
        self.lost_one = False
        WORLD.conns.append(self)

    # what the peer sees
    def _gone(self) -> bool:
        return self.closed or self.dead

    def _readable(self) -> bool:
        return bool(self.inbox) or self.peer._gone()

    def send(self, obj: Any) -> None:
        S.check()
        S.point('send', self.label, branch=False)
        if self.closed:
            raise OSError('handle is closed')
        if self.peer._gone():
            kind = WORLD.errkind
            if kind == 'silent1' and not self.lost_one:
                self.lost_one = True
                return
            if kind == 'reset':
                raise ConnectionResetError(104, 'Connection reset by peer')
            raise BrokenPipeError(32, 'Broken pipe')
        data = pickle.dumps(obj)
        self.peer.inbox.append((data, _summ(obj)))
        try:
            WORLD.on_send(self, obj)
        except Abort:
            raise
        except BaseException:  # noqa: a harness hook must never leak
            import traceback
            WORLD.hook_errors.append(traceback.format_exc())

    def recv(self) -> Any:
        S.check()
        if self.closed:
            raise OSError('handle is closed')
        if not self._readable():
            S.block_until(lambda: self._readable() or self.closed, 'recv',
                          self.label)
        else:
            S.point('recv', self.label)
        if self.closed:
            raise OSError('handle is closed')
        if self.inbox:
            obj = pickle.loads(self.inbox.popleft()[0])
            try:
                WORLD.on_recv(self, obj)
            except Abort:
                raise
            except BaseException:  # noqa
                import traceback
                WORLD.hook_errors.append(traceback.format_exc())
            return obj
        raise EOFError

    def poll(self, timeout: float = 0.0) -> bool:
        S.check()
        if self.closed:
            raise OSError('handle is closed')
        S.point('poll', self.label)
        return self._readable()

    def close(self) -> None:
        self.closed = True

    def fileno(self) -> int:
        return self.serial

    def __hash__(self) -> int:
        return self.serial

    def __eq__(self, o: object) -> bool:
        return self is o

    def __repr__(self) -> str:
        return f'<conn {self.label}#{self.serial}>'


def _summ(obj: Any) -> Any:
    """Hashable summary of a message for state fingerprints."""
    try:
        msg, p = obj
        n = msg.name
    except Exception:
        return type(obj).__name__
    if hasattr(p, 'return_address'):
        return (n, tuple(p.return_address))
    if isinstance(p, list) and p and hasattr(p[0], 'return_address'):
        return (n, tuple(tuple(t.return_address) for t in p))
    if isinstance(p, tuple) and len(p) == 3 and all(
            isinstance(x, int) for x in p):
        return (n, tuple(p))
    if isinstance(p, (int, str, type(None))):
        return (n, p if not isinstance(p, str) else len(p))
    return (n, type(p).__name__)


def conn_pair(a: str, b: str) -> tuple[FakeConn, FakeConn]:
    x, y = FakeConn(a), FakeConn(b)
    x.peer, y.peer = y, x
    return x, y


class FakeListener:
    def __init__(self, addr: Any, family: Any = None, backlog: int = 1,
                 authkey: Any = None) -> None:
        S.check()
        self.port = addr[1]
        self.owner = S.me().proc
        WORLD.listen.setdefault(self.port, collections.deque())
        WORLD.listening.add(self.port)

    def accept(self) -> Any:
        S.check()
        q = WORLD.listen[self.port]
        if not q:
            S.block_until(lambda: bool(q), 'accept', self.port)
        else:
            S.point('accept', self.port)
        c = q.popleft()
        if c is None:       # dummy connection used to unblock accept()
            c, _ = conn_pair(f'dummy{self.port}', 'dummy')
        c.owner = S.me().proc
        return c

    def close(self) -> None:
        WORLD.listening.discard(self.port)


def FakeClient(addr: Any, family: Any = None, authkey: Any = None) -> Any:
    S.check()
    port = addr[1]
    if port not in WORLD.listening:
        raise ConnectionRefusedError(111, 'Connection refused')
    me = S.me().proc
    a, b = conn_pair(f'{me}>{port}', f'{port}<{me}')
    a.owner = me
    WORLD.listen[port].append(b)
    return a


class FakeKey:
    def __init__(self, fileobj: Any, data: Any) -> None:
        self.fileobj = fileobj
        self.data = data


class FakeSelector:
    def __init__(self) -> None:
        self.reg: dict = {}
        self.closed = False

    def register(self, f: Any, ev: Any, data: Any = None) -> Any:
        if f in self.reg:
            raise KeyError(f'{f!r} is already registered')
        self.reg[f] = FakeKey(f, data)
        return self.reg[f]

    def unregister(self, f: Any) -> Any:
        return self.reg.pop(f)   # KeyError like the real one

    def close(self) -> None:
        # Closing an epoll object does not wake a thread blocked in select()
        self.reg.clear()
        self.closed = True

    def _ready(self) -> list:
        # A descriptor closed by this process silently leaves the epoll
        # interest list (the selector keeps its key, the kernel never
        # reports it again): a locally closed connection is never ready.
        return [k for f, k in self.reg.items()
                if not f.closed and f._readable()]

    def select(self, timeout: Any = None) -> list:
        S.check()
        if self.closed:
            raise ValueError('I/O operation on closed epoll object')
        if not self._ready():
            S.block_until(lambda: bool(self._ready()), 'select')
        else:
            S.point('select')
        ready = self._ready()
        if len(ready) > 1:
            # the order of a ready batch is the environment's: rotations
            r = S.choose(len(ready), 'selorder')
            ready = ready[r:] + ready[:r]
        return [(k, 1) for k in ready]


class FakeSelectors:
    EVENT_READ = 1
    DefaultSelector = FakeSelector


class FakeSock(FakeConn):
    def send(self, b: Any) -> None:  # type: ignore[override]
        self.peer.inbox.append((b, 'sig'))


class _DummySocket:
    def connect(self, addr: Any) -> None:
        port = addr[1]
        if port in WORLD.listen:
            WORLD.listen[port].append(None)

    def close(self) -> None:
        pass


class FakeSocketMod:
    AF_INET = 2
    SOCK_STREAM = 1

    @staticmethod
    def socketpair() -> tuple:
        x, y = FakeSock('hot0'), FakeSock('hot1')
        x.peer, y.peer = y, x
        x.owner = y.owner = S.me().proc
        return x, y

    @staticmethod
    def socket(*a: Any, **k: Any) -> Any:
        return _DummySocket()


class FakeSignal:
    SIGINT = 2
    SIGKILL = 9
    SIG_IGN = 1
    CTRL_C_EVENT = 0

    @staticmethod
    def signal(*a: Any) -> Any:
        return None


class FakeTime:
    @staticmethod
    def sleep(x: float) -> None:
        S.check()
        S.sleep(x)

    @staticmethod
    def time() -> float:
        return S.clock

    perf_counter = time


class FakeOS:
    def __getattr__(self, k: str) -> Any:
        import os
        return getattr(os, k)

    def kill(self, pid: Any, sig: Any) -> None:
        S.check()
        me = S.me()
        WORLD.exits.append(me.proc)
        S.kill_proc(me.proc)
        # hand the baton on; never returns
        S._switch(me, True, 'exit', None, True)
        raise Abort()

    def getpid(self) -> int:
        return 1

    def cpu_count(self) -> int:
        return 2


class FakeRandom:
    """`random` as used by ServerBase.assign_tasks, owned by the explorer."""

    @staticmethod
    def shuffle(lst: list) -> None:
        n = len(lst)
        if n <= 1 or len(set(lst)) <= 1:
            return
        perms = _distinct_orders(lst)
        c = S.choose(len(perms), 'shuffle')
        lst[:] = perms[c]

    @staticmethod
    def random() -> float:
        return 0.5


def _distinct_orders(lst: list) -> list:
    if len(lst) <= 3:
        seen = []
        for p in itertools.permutations(lst):
            if list(p) not in seen:
                seen.append(list(p))
        return seen
    seen = []
    for r in range(len(lst)):
        p = lst[r:] + lst[:r]
        if p not in seen:
            seen.append(p)
    return seen


class _UUIDMod:
    """uuid module stand-in for compiler/task.py: reproducible ids."""
    UUID = _real_uuid.UUID

    @staticmethod
    def uuid4() -> Any:
        WORLD.uuid_counter += 1
        return _real_uuid.UUID(int=WORLD.uuid_counter)


class RegWorker(_REAL_WORKER):  # type: ignore[misc,valid-type]
    def __init__(self, id: int, conn: Any) -> None:
        WORLD.workers[S.me().proc] = self
        WORLD.worker_by_id[id] = self
        super().__init__(id, conn)

    def _process_task_completion(self, task: Any, result: Any) -> None:
        from vf import trees
        reported = task.return_address in self._tasks
        trees.LOG.append(('completed', tuple(task.return_address), self._id,
                          reported))
        super()._process_task_completion(task, result)

    def _handle_cancel(self, addr: Any) -> None:
        super()._handle_cancel(addr)
        from vf import trees
        trees.LOG.append(('cancel-handled', tuple(addr), self._id))


def fake_get_worker() -> Any:
    return WORLD.workers[S.me().proc]


_PATCHED = False


def patch() -> None:
    global _PATCHED
    if _PATCHED:
        return
    _PATCHED = True
    B.Thread = CThread
    B.Queue = CQueue
    B.selectors = FakeSelectors
    B.socket = FakeSocketMod
    B.signal = FakeSignal
    B.Listener = FakeListener
    B.Client = FakeClient
    B.Process = CProcess
    B.time = FakeTime
    B.random = FakeRandom
    B.os = FakeOS()
    B.set_blas_thread_counts = lambda n: None
    D.Thread = CThread
    D.selectors = FakeSelectors
    D.socket = FakeSocketMod
    D.time = FakeTime
    D.Listener = FakeListener
    A.selectors = FakeSelectors
    MG.selectors = FakeSelectors
    MG.time = FakeTime
    W.Thread = CThread
    W.Queue = CQueue
    W.Lock = CLock
    W.os = FakeOS()
    W.signal = FakeSignal
    W.Client = FakeClient
    W.time = FakeTime
    W.Process = CProcess
    W.set_blas_thread_counts = lambda n: None
    W.Worker = RegWorker
    W.get_worker = fake_get_worker
    C.Client = FakeClient
    C.signal = FakeSignal
    C.time = FakeTime
    CT_.uuid = _UUIDMod


# -------------------------------------------------------------------- world
class World:
    """One execution of one scenario under one schedule."""

    def __init__(
        self,
        choices: Any = (),
        fault: tuple | None = None,
        trace_threads: Any = None,
        trace_files: Any = (),
        trace_funcs: Any = None,
        horizon: int = 20000,
        expect: Any = None,
        record_steps: bool = False,
    ) -> None:
        global S, WORLD
        patch()
        WORLD = self
        self.conns: list[FakeConn] = []
        self.conn_serial = itertools.count()
        self.listen: dict = {}
        self.listening: set = set()
        self.workers: dict = {}
        self.worker_by_id: dict = {}
        self.thread_counter: collections.Counter = collections.Counter()
        self.proc_counter = 0
        self.uuid_counter = 0
        self.errkind = fault[2] if fault else 'pipe'
        self.trace_threads = trace_threads
        self.exits: list = []
        self.nodes: dict = {}           # name -> server/manager object
        self.out: dict = {}             # observations
        self.sent: list = []            # (label, msg name, brief payload)
        self.monitors: list[Callable] = []
        self.hook_errors: list = []
        self.end_hooks: list[Callable] = []
        self.snapshot: dict = {}
        S = Sched(
            choices, fault, trace_files=trace_files, trace_funcs=trace_funcs,
            horizon=horizon, on_end=self._on_end, on_kill=self._on_kill,
            on_step=self._on_step, expect=expect,
        )
        self.S = S
        if record_steps:
            S.step_kinds = []
            S.dec_at_step = []
        S.branching = False
        # per-execution resets of process-global state the runtime mutates
        logging.setLogRecordFactory(_ORIG_FACTORY)
        RuntimeTask.task_counter = 0
        logging.getLogger().handlers.clear()
        logging.getLogger('bqskit.runtime').handlers.clear()
        logging.getLogger().setLevel(logging.WARNING)
        C._compiler_instances.clear()
        W._worker = None

    # hooks ---------------------------------------------------------------
    def on_send(self, conn: FakeConn, obj: Any) -> None:
        if isinstance(obj, tuple) and len(obj) == 2 and hasattr(obj[0], 'name'):
            self.sent.append((conn.label, obj[0].name, obj[1]))

    def on_recv(self, conn: FakeConn, obj: Any) -> None:
        pass

    def _on_kill(self, proc: str) -> None:
        for c in self.conns:
            if c.owner == proc:
                c.dead = True

    def _on_step(self) -> None:
        for m in self.monitors:
            try:
                m()
            except Abort:
                raise
            except BaseException:  # noqa
                import traceback
                self.hook_errors.append(traceback.format_exc())

    def _on_end(self) -> None:
        for h in self.end_hooks:
            h()

    # topology builders ------------------------------------------------------
    def spawn(self, name: str, fn: Callable, proc: str,
              traced: bool = False) -> None:
        if name == proc + '.main' and proc[0] in 'smw':
            fn = as_process_main(fn, proc)   # servers, managers, boss-mode worker
        S.spawn(name, fn, proc, traced)

    def attached_server(self, nworkers: int, port: int = 7472,
                        worker_port: int = 7474) -> None:
        def server() -> None:
            s = A.AttachedServer(nworkers, port, worker_port,
                                 log_level=100)
            self.nodes['srv'] = s
            s.run()
        self.spawn('srv.main', server, 'srv')

    def detached(self, managers: list[int], port: int = 7472) -> None:
        """One DetachedServer over len(managers) Managers with that many
        workers each."""
        ipports = []
        for i, nw in enumerate(managers):
            mport = 7500 + i
            wport = 7600 + i
            ipports.append(('sim', mport))

            def mgr(i: int = i, nw: int = nw, mport: int = mport,
                    wport: int = wport) -> None:
                m = MG.Manager(mport, nw, worker_port=wport, log_level=100)
                self.nodes[f'm{i}'] = m
                m.run()
            self.spawn(f'm{i}.main', mgr, f'm{i}')

        def server() -> None:
            s = D.DetachedServer(ipports, port)
            self.nodes['srv'] = s
            s.run()
        self.spawn('srv.main', server, 'srv')

    def client(self, idx: int, program: Callable, port: int = 7472) -> None:
        """`program(compiler, out)` runs in its own simulated process."""
        name = f'cli{idx}'

        def body() -> None:
            o = self.out.setdefault(name, {})
            try:
                comp = C.Compiler(ip='sim', port=port)
            except Abort:
                raise
            except BaseException as e:  # noqa
                o['connect_exc'] = repr(e)
                o['done'] = True
                return
            o['compiler'] = comp
            S.settle()
            o['booted'] = True
            WORLD.boot_done()
            if not S.branching:
                S.block_until(lambda: S.branching, 'bootbarrier')
            try:
                program(comp, o)
            except Abort:
                raise
            except BaseException as e:  # noqa
                import traceback
                o['program_exc'] = repr(e)
                o['program_tb'] = traceback.format_exc()
            o['done'] = True
        self.spawn(name + '.main', body, name)

    def boot_done(self) -> None:
        self._booted = getattr(self, '_booted', 0) + 1
        if self._booted >= self.n_clients:
            S.branching = True
            self.boot_steps = S.steps

    n_clients = 1
    boot_steps = 0

    def run(self, first: str = 'srv.main') -> None:
        t0 = _real_time.time()
        S.run(first)
        self.wall = _real_time.time() - t0

    # helpers for oracles ------------------------------------------------------
    def alive_threads(self) -> dict:
        return {
            n: (t.kind, t.label) for n, t in S.T.items()
            if t.alive and not t.killed
        }


def reset_globals() -> None:
    """Restore logging state after a batch of executions."""
    logging.setLogRecordFactory(_ORIG_FACTORY)


# ------------------------------------------------------- scripted boss (E1a)
class BossConn:
    """The boss side of ONE worker's connection, played by a passive script.

    Children are "executed elsewhere": when the worker sends SUBMIT /
    SUBMIT_BATCH the boss either evaluates the (leaf) child at once and
    queues its RESULT for the worker's incoming thread ('remote'), or sends
    the tasks back to the same worker ('local').  CANCEL is broadcast back as
    a server would.  All nondeterminism left is the interleaving of the
    worker's two threads, which is what this harness explores at source-line
    granularity.
    """

    def __init__(self, mode: str, out: dict) -> None:
        self.inbox: collections.deque = collections.deque()
        self.mode = mode
        self.out = out
        self.closed = False
        self.n = 0
        self.label = 'boss'
        self.owner = 'w0'
        self.serial = 0
        self.finished = False

    def _readable(self) -> bool:
        return bool(self.inbox)

    def _push(self, obj: Any) -> None:
        self.inbox.append((pickle.dumps(obj), _summ(obj)))

    def recv(self) -> Any:
        S.check()
        if not self.inbox:
            S.block_until(lambda: bool(self.inbox), 'recv', 'boss')
        else:
            S.point('recv', 'boss')
        return pickle.loads(self.inbox.popleft()[0])

    def send(self, obj: Any) -> None:
        from bqskit.runtime.message import RuntimeMessage as M
        from bqskit.runtime.result import RuntimeResult
        S.check()
        S.point('send', 'boss', branch=False)
        obj = pickle.loads(pickle.dumps(obj))
        msg, p = obj
        WORLD.sent.append(('w0>boss', msg.name, p))
        if msg in (M.SUBMIT, M.SUBMIT_BATCH):
            tasks = [p] if msg == M.SUBMIT else list(p)
            local = []
            for t in tasks:
                self.n += 1
                remote = self.mode == 'remote' or (
                    self.mode == 'alternate' and self.n % 2 == 1)
                fn, a, k = t.fnargs
                if remote and fn.__name__ in ('leaf', 'aleaf', 'raiser'):
                    try:
                        if fn.__name__ == 'aleaf':
                            co = fn(*a, **k)
                            try:
                                co.send(None)
                                raise RuntimeError('aleaf suspended')
                            except StopIteration as e:
                                val = e.value
                        else:
                            val = fn(*a, **k)
                    except Exception as e:  # noqa: the child raised
                        import traceback
                        self._finish('exc', 'RuntimeError',
                                     traceback.format_exc())
                        return
                    self._push((M.RESULT,
                                RuntimeResult(t.return_address, val, 99)))
                else:
                    local.append(t)
            if local:
                self._push((M.SUBMIT_BATCH, local))
        elif msg == M.RESULT:
            if p.return_address.worker_id == -1:
                self._finish('ok', p.result)
            else:
                self._push((M.RESULT, p))
        elif msg == M.ERROR:
            text = p[1] if isinstance(p, tuple) else p
            self._finish('exc', 'RuntimeError', text)
        elif msg == M.CANCEL:
            self._push((M.CANCEL, p))
        # WAITING / UPDATE / LOG / STARTED: bookkeeping only

    def _finish(self, *ev: Any) -> None:
        from bqskit.runtime.message import RuntimeMessage as M
        if self.finished:
            self.out.setdefault('extra', []).append(list(ev))
            return
        self.finished = True
        self.out['root'] = list(ev)
        self._push((M.SHUTDOWN, None))

    def poll(self, timeout: float = 0.0) -> bool:
        return bool(self.inbox)

    def close(self) -> None:
        self.closed = True

    def __hash__(self) -> int:
        return 0
