"""Shared driver of the C04 and C05 checks (one traversal, two emphases).

quick     BFS from the empty circuit: depth 3 on (2,2) with the lean
          alphabet, depth 2 on (2,3) (full alphabet), (2,2,2) and (3,2,2)
          (lean); before that, one-deviation histories of two fixed scripts
          that build staggered grids on (2,2,2) and (2,3,2,2) with the full
          alphabet (start from non-initial states).  ~45 s with 16 procs.
thorough  BFS depth 3 on (2,2), (2,3) (full) and (2,2,2), (3,2,2) (lean);
          deviation-bounded long histories on 5 qubits and on 6 mixed-radix
          qudits (one position of a 26-28 call brick-work script replaced by
          every alphabet call, rest of the script run behind it); two
          consecutive deviations after a 14-call script; then depth 4 on
          (2,2) (lean) for whatever time is left (a BFS-order prefix).
Every part has its own share of the time budget; a part that is cut short
is reported through ctx.cap (exhaustive: false) with what was completed.
"""
from __future__ import annotations

import time
from collections import Counter

from vf import histbfs
from vf.c04_model import MOD, NONTRIVIAL_RULE, replay_case
from vf.common import Ctx

BUDGET = {'quick': 100.0, 'thorough': 1560.0}
BOUND = {
    'quick': (
        'all call histories of length <= 2 on radixes (2,3) [full alphabet], '
        '(2,2,2) and (3,2,2) [lean alphabet], and of length <= 3 on (2,2) '
        '[lean alphabet], states merged by canonical key; plus every '
        'one-position deviation (full alphabet: every region shape, point, '
        'cycle index) of an 8-call script on (2,2,2) and a 9-call script on '
        '(2,3,2,2) that build staggered grids, the rest of the script run '
        'behind the deviation (26,313 transitions); measured with 16 procs: '
        '~174,000 transitions / ~43,600 states in 42-52 s wall at load ~20; '
        'exhaustive is true only if no time cap was hit'),
    'thorough': (
        'the staggered-script deviations of the quick tier; '
        'histories of length <= 3 on (2,2), (2,3) [full] and (2,2,2), '
        '(3,2,2) [lean]; every single-position deviation of a 28-call '
        '5-qubit and a 26-call (2,3,2,2,3,2) brick-work script; two '
        'consecutive deviations after a 14-call 5-qubit script; length <= 4 '
        'on (2,2) [lean] as far as the remaining time allows'),
}


def brickwork(radixes: tuple, layers: int) -> list:
    """append-only script: per layer a 1-qudit operation on every qudit, then
    2-qudit operations on alternating neighbour pairs (alternating order)."""
    n = len(radixes)
    s, k = [], 1
    for layer in range(layers):
        for q in range(n):
            s.append(['append', [[radixes[q]], [q], k]])
            k += 1
        for a in range(layer % 2, n - 1, 2):
            loc = [a, a + 1] if layer % 4 < 2 else [a + 1, a]
            s.append(['append', [[radixes[q] for q in loc], loc, k]])
            k += 1
    return s


def _bfs_part(rad: tuple, lean: bool, depth: int) -> dict:
    return {'cfg': {'radixes': list(rad), 'lean': lean}, 'depth': depth,
            'name': 'x'.join(map(str, rad)) + f'-depth{depth}' + ('-lean' if lean else '')}


def _mid_cfg(rad: tuple) -> dict:
    """Full alphabet (every region shape, every point) on a mid-size circuit."""
    return {'radixes': list(rad), 'max_ops': 14, 'max_cycles': 10}


def staggered_scripts() -> list[dict]:
    """Two fixed 8-9 call scripts that build a *staggered* grid (gates of
    arity 1-3, idle cells, 2-qudit gates on non-adjacent qudits, one insert
    into an idle cell).  Every position of a script is replaced by every
    call of the full alphabet (one deviation), the rest runs behind it; the
    position after the last call is 'every call on the reached state'."""
    def op(rad: tuple, loc: list, k: int) -> list:
        return [[rad[q] for q in loc], loc, k]
    a = (2, 2, 2)
    sa = [
        ['append', op(a, [0, 1], 1)], ['append', op(a, [2], 2)],
        ['append', op(a, [2], 3)], ['append', op(a, [2, 1], 4)],
        ['append', op(a, [0], 5)], ['append', op(a, [0, 2], 6)],
        ['insert', 1, op(a, [1], 7)], ['append', op(a, [2, 0, 1], 8)],
    ]
    b = (2, 3, 2, 2)
    sb = [
        ['append', op(b, [1], 1)], ['append', op(b, [0, 2], 2)],
        ['append', op(b, [3], 3)], ['append', op(b, [1, 2], 4)],
        ['append', op(b, [3, 1, 0], 5)], ['append', op(b, [2], 6)],
        ['insert', 1, op(b, [3], 7)], ['append', op(b, [2, 3], 8)],
        ['append', op(b, [3, 0], 9)],
    ]
    return [
        {'cfg': _mid_cfg(a), 'script': sa, 'name': 'staggered-2x2x2-1deviation'},
        {'cfg': _mid_cfg(b), 'script': sb, 'name': 'staggered-2x3x2x2-1deviation'},
    ]


def _long_cfg(rad: tuple) -> dict:
    return {'radixes': list(rad), 'long': True, 'max_ops': 80, 'max_cycles': 60}


def plan(tier: str) -> list[dict]:
    """A list of stages; the parts of one stage share one worker pool."""
    if tier == 'quick':
        return [{'kind': 'dev', 'share': 0.35, 'split': 6,
                 'parts': staggered_scripts()},
                {'kind': 'bfs', 'share': 1.0, 'parts': [
            _bfs_part((2, 3), False, 2), _bfs_part((2, 2, 2), True, 2),
            _bfs_part((3, 2, 2), True, 2), _bfs_part((2, 2), True, 3)]}]
    a, b = (2, 2, 2, 2, 2), (2, 3, 2, 2, 3, 2)
    return [
        {'kind': 'dev', 'share': 0.08, 'split': 6, 'parts': staggered_scripts()},
        {'kind': 'bfs', 'share': 0.55, 'parts': [
            _bfs_part((2, 2), False, 3), _bfs_part((2, 3), False, 3),
            _bfs_part((2, 2, 2), True, 3), _bfs_part((3, 2, 2), True, 3)]},
        {'kind': 'dev', 'share': 0.45, 'parts': [
            {'cfg': _long_cfg(a), 'script': brickwork(a, 4),
             'name': 'long-5qubits-1deviation'},
            {'cfg': _long_cfg(b), 'script': brickwork(b, 3),
             'name': 'long-6qudits-mixed-1deviation'}]},
        {'kind': 'bfs', 'share': 0.5, 'parts': [
            {'cfg': _long_cfg(a), 'root': brickwork(a, 2), 'depth': 2,
             'name': 'long-5qubits-2deviations-after-script'}]},
        {'kind': 'bfs', 'share': 1.0, 'parts': [_bfs_part((2, 2), True, 4)]},
    ]


def run_search(ctx: Ctx, prop: str) -> None:
    t_end = ctx.t0 + BUDGET[ctx.tier]
    states = trans = nontriv = maxd = 0
    methods: Counter = Counter()
    found: dict[str, dict] = {}
    others: Counter = Counter()
    for stage in plan(ctx.tier):
        left = t_end - time.time()
        names = [p['name'] for p in stage['parts']]
        if left < 5:
            ctx.cap(f'time budget exhausted before {names}')
            continue
        deadline = time.time() + left * stage['share']
        if stage['kind'] == 'bfs':
            RS = histbfs.bfs_multi(MOD, stage['parts'], procs=ctx.procs,
                                   deadline=deadline)
        else:
            RS = histbfs.deviations(
                MOD, [(p['cfg'], p['script']) for p in stage['parts']],
                procs=ctx.procs, deadline=deadline,
                split=stage.get('split', 1))
        for part, R in zip(stage['parts'], RS):
            states += R.states
            trans += R.transitions
            nontriv += R.nontrivial
            maxd = max(maxd, R.max_depth + len(part.get('root') or []))
            methods.update(R.methods)
            ctx.part(part['name'], states=R.states, transitions=R.transitions,
                     broken_states=R.broken_states, max_depth=R.max_depth,
                     levels=R.levels, completed=R.capped is None)
            if R.capped:
                ctx.cap(f'{part["name"]}: {R.capped}')
            for smp in R.samples[:2]:
                ctx.sample({'config': part['cfg']['radixes'], **smp})
            for (p, sig), rec in R.findings.items():
                if p != prop:
                    others[f'{p}:{sig}'] += rec['count']
                    continue
                cur = found.get(sig)
                if cur is None:
                    found[sig] = dict(rec)
                else:
                    cur['count'] += rec['count']
                    if rec['size'] < cur['size']:
                        cur.update(what=rec['what'], replay=rec['replay'],
                                   size=rec['size'])
    # simplest counterexample first
    for sig, rec in sorted(found.items(), key=lambda kv: kv[1]['size']):
        ctx.violation(sig, rec['what'], rec['replay'])
        extra = rec['count'] - 1
        if sig in ctx.known_hits:
            ctx.known_counts[sig] += extra
        for v in ctx.violations:
            if v['signature'] == sig:
                v['count'] += extra
    if others:
        ctx.cov['findings_of_the_sibling_property'] = dict(others)
    by_method: Counter = Counter()
    for k, v in methods.items():
        by_method[k.split(':', 1)[0]] += v
        ctx.outcomes[k] += v
    ctx.part('calls_per_method', **dict(by_method))
    ctx.cov['states'] = states
    ctx.cov['transitions'] = trans
    ctx.cov['traces_validated_against_impl'] = trans
    ctx.cov['evaluations'] = trans
    ctx.cov['distinct_nontrivial'] = nontriv
    ctx.cov['max_depth'] = maxd
    ctx.cov['bound'] = BOUND[ctx.tier]
    ctx.cov['rule'] = (
        'breadth-first over all histories of public Circuit editing calls '
        '(arguments instantiated from the current grid, in and out of range) '
        'from the empty circuit, plus deviation-bounded long histories in the '
        'thorough tier; every history is executed on the real Circuit and '
        'judged against the per-qudit timeline model; non-trivial = '
        + NONTRIVIAL_RULE)


def replay(ctx: Ctx, obj: dict, prop: str) -> bool:
    F = replay_case(obj)
    mine = [f for f in F if f[0] == prop]
    for p, sig, what in mine:
        print(f'  {sig}: {what}')
    return not mine
