"""C20: judging of single cases (real BQSKit call vs. reference model).

`judge(case) -> (violations, stats)`; `violations` is a list of
`(signature, what)`; `stats` a dict of counters.  A case is a JSON object, so
the same function serves exploration and replay.
"""
from __future__ import annotations

import itertools as it
import math
import random
import warnings
from typing import Any, Callable

import numpy as np

import vf.common  # noqa: F401  (repo selection)
from vf import c20_ref as R

import bqskit.ir  # noqa: F401  (bqskit.qis.graph cannot be imported first)
from bqskit.compiler.machine import MachineModel
from bqskit.ir.location import CircuitLocation
from bqskit.qis.graph import CouplingGraph
from bqskit.qis.permutation import PermutationMatrix
from bqskit.qis.state.state import StateVector
from bqskit.qis.unitary.unitarybuilder import UnitaryBuilder
from bqskit.qis.unitary.unitarymatrix import UnitaryMatrix

ATOL = 1e-10     # products of <= 3 unitaries of dimension <= 256: error ~1e-14


class V:
    """Collector for one case."""

    def __init__(self) -> None:
        self.v: list[tuple[str, str]] = []
        self.stats: dict[str, int] = {}
        self._seen: set[str] = set()

    def bad(self, sig: str, what: str) -> None:
        if sig not in self._seen:
            self._seen.add(sig)
            self.v.append((sig, what))

    def n(self, key: str, k: int = 1) -> None:
        self.stats[key] = self.stats.get(key, 0) + k


def call(fn: Callable, *a: Any, **kw: Any) -> tuple:
    try:
        with warnings.catch_warnings():
            warnings.simplefilter('ignore')
            return ('ok', fn(*a, **kw))
    except Exception as e:  # judged by the caller
        return ('exc', type(e).__name__, str(e)[:200])


def _locs(n: int, kmax: int) -> list[tuple[int, ...]]:
    out = []
    for k in range(1, min(n, kmax) + 1):
        out.extend(it.permutations(range(n), k))
    return out


def _edge_set(g: Any) -> set[tuple[int, int]]:
    return {R.norm(e) for e in g}


# ------------------------------------------------------------------ graph
def judge_graph(case: dict, c: V) -> None:
    n = case['n']
    edges = [tuple(e) for e in case['edges']]
    kmax = case.get('kmax') or n
    full = bool(case.get('full'))
    E = {R.norm(e) for e in edges}
    A = R.adj(n, E)
    tag = f'n={n} edges={sorted(E)}'
    conn = R.connected(n, A)

    r = call(CouplingGraph, edges, n)
    if r[0] != 'ok':
        c.bad(f'graph-constructor-raises-{r[1]}', f'CouplingGraph({edges},{n}): {r[2]}')
        return
    g = r[1]
    c.n('graphs')

    # -- construction variants describe the same graph
    if g.num_qudits != n or _edge_set(g) != E or len(g) != len(E):
        c.bad('graph-constructor-wrong-edge-set', f'{tag}: num_qudits={g.num_qudits} edges={sorted(g)}')
    for name, alt in (
        ('flipped', [(v, u) for u, v in edges]),
        ('set', set(edges)),
        ('reversed-list', list(reversed(edges))),
        ('copy', g),
    ):
        r = call(CouplingGraph, alt, n)
        if r[0] != 'ok':
            c.bad(f'graph-constructor-{name}-raises-{r[1]}', f'{tag}: {r[2]}')
            continue
        h = r[1]
        if h.num_qudits != n or _edge_set(h) != E or not (h == g):
            c.bad(f'graph-constructor-{name}-differs', f'{tag}: {sorted(h)} n={h.num_qudits} eq={h == g}')
        elif hash(h) != hash(g):
            # observation only: == / hash consistency of CouplingGraph is not
            # part of the C20 statement
            c.n('observed_equal_graphs_with_different_hash')
        c.n('ctor_variants')

    # -- connectivity
    r = call(g.is_fully_connected)
    nxc = bool(R.nx.is_connected(R.nxg(n, E)))
    if nxc != conn:
        raise RuntimeError('oracles disagree on connectivity')
    if r[0] != 'ok':
        c.bad(f'is_fully_connected-raises-{r[1]}', f'{tag}: {r[2]}')
    elif bool(r[1]) != conn:
        c.bad('is_fully_connected-wrong', f'{tag}: got {r[1]}, graph connected={conn}')
    c.n('is_fully_connected')

    # -- all pairs
    dist = [R.bfs_dist(A, s) for s in range(n)]
    nxd = dict(R.nx.all_pairs_shortest_path_length(R.nxg(n, E)))
    for s in range(n):
        for t in range(n):
            if nxd[s].get(t, R.INF) != dist[s][t]:
                raise RuntimeError('oracles disagree on distances')
    r = call(g.all_pairs_shortest_path)
    if r[0] != 'ok':
        c.bad(f'all_pairs_shortest_path-raises-{r[1]}', f'{tag}: {r[2]}')
    else:
        D = r[1]
        ok_shape = len(D) == n and all(len(row) == n for row in D)
        if not ok_shape:
            c.bad('all_pairs_shortest_path-wrong-shape', f'{tag}: {D}')
        else:
            off = [(i, j, D[i][j], dist[i][j]) for i in range(n) for j in range(n)
                   if i != j and D[i][j] != dist[i][j]]
            if off:
                i, j, got, want = off[0]
                c.bad('all_pairs_shortest_path-offdiagonal-wrong',
                      f'{tag}: D[{i}][{j}]={got}, shortest path has length {want}')
            diag = [(i, D[i][i]) for i in range(n) if D[i][i] != 0]
            if diag:
                c.bad('all_pairs_shortest_path-diagonal-not-zero',
                      f'{tag}: D[{diag[0][0]}][{diag[0][0]}]={diag[0][1]}; the distance from a vertex '
                      'to itself is 0 (the empty path)')
    c.n('all_pairs')

    # -- single source
    for s in range(n):
        r = call(g.get_shortest_path_tree, s)
        reach_all = all(d < R.INF for d in dist[s])
        c.n('sssp')
        if r[0] != 'ok':
            if r[1] == 'RuntimeError' and not reach_all:
                c.n('sssp_unreachable_raises')
                continue        # documented behaviour: 'No path found to qudit'
            c.bad(f'shortest_path_tree-raises-{r[1]}' + ('-on-connected' if reach_all else ''),
                  f'{tag} source={s}: {r[2]}')
            continue
        paths = r[1]
        if len(paths) != n:
            c.bad('shortest_path_tree-wrong-length', f'{tag} source={s}: {paths}')
            continue
        for t in range(n):
            if dist[s][t] == R.INF:
                continue
            p = tuple(paths[t])
            if len(p) == 0 or p[0] != s or p[-1] != t:
                c.bad('shortest_path_tree-wrong-endpoints', f'{tag} source={s} target={t}: {p}')
            elif any(R.norm((a, b)) not in E for a, b in zip(p, p[1:])):
                c.bad('shortest_path_tree-not-a-path', f'{tag} source={s} target={t}: {p}')
            elif len(p) - 1 != dist[s][t]:
                c.bad('shortest_path_tree-not-shortest',
                      f'{tag} source={s} target={t}: {p} has {len(p) - 1} edges, distance is {dist[s][t]}')

    # -- neighbourhoods, degrees
    for q in range(n):
        r = call(g.get_neighbors_of, q)
        if r[0] != 'ok':
            c.bad(f'get_neighbors_of-raises-{r[1]}', f'{tag} q={q}: {r[2]}')
        elif sorted(r[1]) != sorted(A[q]):
            c.bad('get_neighbors_of-wrong', f'{tag} q={q}: {r[1]}')
        c.n('neighbors')
    r = call(g.get_qudit_degrees)
    if r[0] != 'ok':
        c.bad(f'get_qudit_degrees-raises-{r[1]}', f'{tag}: {r[2]}')
    elif list(r[1]) != [len(x) for x in A]:
        c.bad('get_qudit_degrees-wrong', f'{tag}: {r[1]}')

    # -- connected subsets of size k
    for k in range(1, min(n, kmax) + 1):
        want = R.connected_subsets(n, A, k)
        r = call(g.get_subgraphs_of_size, k)
        c.n('subgraphs_of_size')
        if r[0] != 'ok':
            c.bad(f'subgraphs_of_size-raises-{r[1]}', f'{tag} k={k}: {r[2]}')
            continue
        got = [tuple(l) for l in r[1]]
        if any(len(l) != k or len(set(l)) != k for l in got):
            c.bad('subgraphs_of_size-wrong-location-size', f'{tag} k={k}: {got}')
            continue
        gs = [frozenset(l) for l in got]
        if set(gs) - want:
            c.bad('subgraphs_of_size-spurious', f'{tag} k={k}: not connected {sorted(map(sorted, set(gs) - want))[:3]}')
        if want - set(gs):
            c.bad('subgraphs_of_size-missing', f'{tag} k={k}: missing {sorted(map(sorted, want - set(gs)))[:3]}')
        if len(gs) != len(set(gs)):
            dup = sorted(l for l in got if gs.count(frozenset(l)) > 1)[:4]
            c.bad('subgraphs_of_size-duplicate-vertex-set',
                  f'{tag} k={k}: {len(gs)} locations for {len(set(gs))} connected vertex sets, e.g. {dup}')
    for k in (0, n + 1):
        r = call(g.get_subgraphs_of_size, k)
        if not (r[0] == 'exc' and r[1] == 'ValueError'):
            c.bad('subgraphs_of_size-bad-size-accepted', f'{tag} k={k}: {r}')

    # -- subgraphs
    def want_sub(loc: tuple, ren: dict) -> set:
        return R.relabel_edges(R.induced_edges(E, loc), ren)

    for loc in _locs(n, kmax):
        k = len(loc)
        r = call(g.get_subgraph, list(loc))
        c.n('get_subgraph_default')
        dflt = {q: i for i, q in enumerate(loc)}
        if r[0] != 'ok':
            c.bad(f'get_subgraph-raises-{r[1]}', f'{tag} loc={loc}: {r[2]}')
        elif r[1].num_qudits != k or _edge_set(r[1]) != want_sub(loc, dflt):
            kind = 'ordered' if list(loc) == sorted(loc) else 'unordered'
            c.bad(f'get_subgraph-default-renumbering-wrong-{kind}-location',
                  f'{tag} loc={loc}: n={r[1].num_qudits} {sorted(r[1])} want {sorted(want_sub(loc, dflt))}')
        if not full and list(loc) != sorted(loc):
            continue
        for perm in it.permutations(range(k)):
            ren = {q: perm[i] for i, q in enumerate(loc)}
            r = call(g.get_subgraph, list(loc), dict(ren))
            c.n('get_subgraph_renumbered')
            if r[0] != 'ok':
                c.bad(f'get_subgraph-renumbering-raises-{r[1]}', f'{tag} loc={loc} ren={ren}: {r[2]}')
            elif r[1].num_qudits != k or _edge_set(r[1]) != want_sub(loc, ren):
                mono = all(ren[a] < ren[b] for a, b in it.combinations(sorted(loc), 2))
                c.bad('get_subgraph-explicit-renumbering-wrong-'
                      + ('order-preserving' if mono else 'non-order-preserving'),
                      f'{tag} loc={loc} ren={ren}: {sorted(r[1])} want {sorted(want_sub(loc, ren))}')
            if k >= 2 and list(loc) == sorted(loc):
                # deprecated pair: induced edges, then relabel with the same map
                r1 = call(g.get_induced_subgraph, list(loc))
                if r1[0] != 'ok':
                    c.bad(f'get_induced_subgraph-raises-{r1[1]}', f'{tag} loc={loc}: {r1[2]}')
                    continue
                ind = list(r1[1])
                r2 = call(CouplingGraph.relabel_subgraph, ind, dict(ren))
                c.n('relabel_subgraph')
                if r2[0] != 'ok':
                    c.bad(f'relabel_subgraph-raises-{r2[1]}', f'{tag} edges={ind} ren={ren}: {r2[2]}')
                elif _edge_set(r2[1]) != want_sub(loc, ren):
                    c.bad('relabel_subgraph-explicit-relabeling-wrong',
                          f'{tag} edges={ind} ren={ren}: {sorted(r2[1])}')
        if k >= 2:
            r = call(g.get_induced_subgraph, list(loc))
            c.n('get_induced_subgraph')
            if r[0] != 'ok':
                c.bad(f'get_induced_subgraph-raises-{r[1]}', f'{tag} loc={loc}: {r[2]}')
            else:
                got = [R.norm(e) for e in r[1]]
                if set(got) != R.induced_edges(E, loc):
                    c.bad('get_induced_subgraph-wrong', f'{tag} loc={loc}: {r[1]}')
                elif len(got) != len(set(got)):
                    c.bad('get_induced_subgraph-duplicate-edge', f'{tag} loc={loc}: {r[1]}')

    # -- is_linear
    if n >= 2:
        r = call(g.is_linear)
        want = R.is_path_graph(n, A)
        c.n('is_linear')
        if r[0] != 'ok':
            c.bad(f'is_linear-raises-{r[1]}', f'{tag}: {r[2]}')
        elif bool(r[1]) != want:
            c.bad('is_linear-true-on-disconnected-graph' if (r[1] and not conn)
                  else f'is_linear-wrong-{"true" if r[1] else "false"}',
                  f'{tag}: is_linear()={r[1]} but the graph is {"" if want else "not "}a path '
                  f'(connected={conn}, degrees={[len(x) for x in A]})')

    # -- maximal matching
    El = sorted(E)
    if n <= 4:
        ignores = [list(s) for k in range(len(El) + 1) for s in it.combinations(El, k)]
    else:
        ignores = [[]] + [[e] for e in El]
    ignores += [[(e[1], e[0])] for e in El]
    for ign in ignores:
        igs = {R.norm(e) for e in ign}
        for rnd in (False, True):
            r = call(g.maximal_matching, list(ign), rnd)
            c.n('maximal_matching')
            if r[0] != 'ok':
                c.bad(f'maximal_matching-raises-{r[1]}', f'{tag} ignore={ign}: {r[2]}')
                continue
            m = [R.norm(e) for e in r[1]]
            used = [q for e in m for q in e]
            if any(e not in E for e in m):
                c.bad('maximal_matching-non-edge', f'{tag} ignore={ign}: {r[1]}')
            elif any(e in igs for e in m):
                c.bad('maximal_matching-uses-ignored-edge', f'{tag} ignore={ign}: {r[1]}')
            elif len(used) != len(set(used)):
                c.bad('maximal_matching-shares-vertex', f'{tag} ignore={ign}: {r[1]}')
            elif any(e not in igs and e[0] not in used and e[1] not in used for e in El):
                c.bad('maximal_matching-not-maximal', f'{tag} ignore={ign} randomize={rnd}: {r[1]}')

    # -- connectivity without one vertex
    if n >= 2:
        for q in range(n):
            rest = [x for x in range(n) if x != q]
            want = R.connected(n, A, rest)
            r = call(g.is_fully_connected_without, q)
            c.n('connected_without')
            if r[0] != 'ok':
                c.bad(f'is_fully_connected_without-raises-{r[1]}', f'{tag} q={q}: {r[2]}')
            elif bool(r[1]) != want:
                c.bad('is_fully_connected_without-wrong', f'{tag} q={q}: got {r[1]}')

    # -- rooted span (contract only meaningful on a connected graph)
    if conn:
        for root in range(n):
            r = call(g.get_rooted_minimum_span, root)
            c.n('rooted_span')
            if r[0] != 'ok':
                c.bad(f'rooted_minimum_span-raises-{r[1]}', f'{tag} root={root}: {r[2]}')
                continue
            span = [tuple(e) for e in r[1]]
            reached = {root}
            ok = len(span) == n - 1
            why = 'edge-count'
            for u, v in span:
                if not ok:
                    break
                if R.norm((u, v)) not in E:
                    ok, why = False, 'non-edge'
                elif u not in reached or v in reached:
                    ok, why = False, 'not-growing-from-root'
                reached.add(v)
            if ok and reached != set(range(n)):
                ok, why = False, 'not-spanning'
            if not ok:
                c.bad(f'rooted_minimum_span-{why}', f'{tag} root={root}: {span}')

    c.stats['outcome'] = f'graph:connected={conn}:path={R.is_path_graph(n, A)}'  # type: ignore
    if n >= 3 and 0 < len(E) < n * (n - 1) // 2:
        c.n('nontrivial')


# ------------------------------------------------------------------ embed
def judge_embed(case: dict, c: V) -> None:
    (n1, e1), (n2, e2) = case['a'], case['b']
    e1 = [tuple(e) for e in e1]
    e2 = [tuple(e) for e in e2]
    want = R.embeds(n1, e1, n2, e2)
    if n1 <= n2 and R.embeds_nx(n1, e1, n2, e2) != want:
        raise RuntimeError('oracles disagree on embedding')
    a = CouplingGraph(e1, n1)
    b = CouplingGraph(e2, n2)
    r = call(a.is_embedded_in, b)
    c.n('embed')
    tag = f'self=(n={n1},{e1}) other=(n={n2},{e2})'
    if r[0] != 'ok':
        c.bad(f'is_embedded_in-raises-{r[1]}', f'{tag}: {r[2]}')
    elif bool(r[1]) != want:
        c.bad(f'is_embedded_in-wrong-{"true" if r[1] else "false"}', f'{tag}: got {r[1]}')
    c.stats['outcome'] = f'embed:{want}'  # type: ignore
    if e1 and e2 and (n1, e1) != (n2, e2):
        c.n('nontrivial')


# -------------------------------------------------------------------- qpu
def judge_qpu(case: dict, c: V) -> None:
    n = case['n']
    edges = [tuple(e) for e in case['edges']]
    remote = [tuple(e) for e in case['remote']]
    w0, wr, ov = case['w']
    if ov and not isinstance(ov[0][0], (list, tuple)):
        ov = [ov]                       # older replay files: one [edge, weight]
    over = {tuple(e): x for e, x in ov} if ov else {}
    E = {R.norm(e) for e in edges}
    tag = f'n={n} edges={edges} remote={remote} weights={case["w"]}'
    r = call(CouplingGraph, edges, n, remote, w0, wr, over)
    if r[0] != 'ok':
        c.bad(f'graph-constructor-weighted-raises-{r[1]}', f'{tag}: {r[2]}')
        return
    g = r[1]
    c.n('qpu_graphs')
    W = {e: w0 for e in E}
    for e in remote:
        W[R.norm(e)] = wr
    for e, x in over.items():
        W[R.norm(e)] = x
    want = R.weighted_dist(n, W)
    nxG = R.nxg(n, [])
    for (u, v), x in W.items():
        nxG.add_edge(u, v, weight=x)
    nxd = dict(R.nx.all_pairs_dijkstra_path_length(nxG))
    for i in range(n):
        for j in range(n):
            if abs(nxd[i].get(j, R.INF) - want[i][j]) > 1e-9 and not (nxd[i].get(j, R.INF) == want[i][j]):
                raise RuntimeError('oracles disagree on weighted distances')
    # the same weighted graph written with every edge as (low, high) is equal
    asc = call(
        CouplingGraph, sorted(E), n, [R.norm(e) for e in remote], w0, wr,
        {R.norm(e): x for e, x in over.items()},
    )
    written = 'ascending' if all(e[0] < e[1] for e in edges) else 'some-edges-descending'
    if asc[0] == 'ok':
        c.n('weighted_eq')
        eq = call(lambda: g == asc[1])
        if eq[0] != 'ok' or not eq[1]:
            c.bad('weighted-graph-not-equal-to-the-same-graph-written-ascending',
                  f'{tag}: == gives {eq[1:]}')
    r = call(g.all_pairs_shortest_path)
    c.n('all_pairs_weighted')
    c.n('all_pairs_weighted_' + written)
    if r[0] != 'ok':
        c.bad(f'all_pairs_shortest_path-weighted-raises-{r[1]}', f'{tag}: {r[2]}')
    else:
        D = r[1]
        for i in range(n):
            for j in range(n):
                if i != j and not (D[i][j] == want[i][j] or abs(D[i][j] - want[i][j]) <= 1e-9):
                    c.bad('all_pairs_shortest_path-weighted-offdiagonal-wrong'
                          + ('-edges-written-descending' if written != 'ascending' else ''),
                          f'{tag}: D[{i}][{j}]={D[i][j]} want {want[i][j]}')
    # single-source paths on a weighted graph: only validity is judged (the
    # method counts hops; the docstring does not say which length it means)
    A = R.adj(n, E)
    for s in range(n):
        r = call(g.get_shortest_path_tree, s)
        if r[0] == 'ok':
            for t, p in enumerate(r[1]):
                p = tuple(p)
                if p and (p[0] != s or p[-1] != t or any(R.norm(x) not in E for x in zip(p, p[1:]))):
                    c.bad('shortest_path_tree-not-a-path', f'{tag} source={s}: {p}')

    # QPUs = components of the graph without its remote edges
    local = E - {R.norm(e) for e in remote}
    LA = R.adj(n, local)
    comps = []
    seen: set[int] = set()
    for q in range(n):
        if q not in seen:
            comp = R.component_of(LA, q)
            seen |= comp
            comps.append(comp)
    r = call(g.get_qpu_to_qudit_map)
    c.n('qpu_maps')
    if r[0] != 'ok':
        c.bad(f'qpu_to_qudit_map-raises-{r[1]}', f'{tag}: {r[2]}')
        return
    q2 = [list(x) for x in r[1]]
    if sorted(map(sorted, q2)) != sorted(map(sorted, comps)) or any(len(x) != len(set(x)) for x in q2):
        c.bad('qpu_to_qudit_map-wrong-partition', f'{tag}: {q2} want {sorted(map(sorted, comps))}')
        return
    if call(g.is_distributed) != ('ok', bool(remote)):
        c.bad('is_distributed-wrong', f'{tag}')
    if call(g.qpu_count) != ('ok', len(comps)):
        c.bad('qpu_count-wrong', f'{tag}: {call(g.qpu_count)}')
    true_map = [next(i for i, x in enumerate(q2) if q in x) for q in range(n)]
    r = call(g.get_qudit_to_qpu_map)
    map_ok = False
    if r[0] != 'ok':
        c.bad(f'qudit_to_qpu_map-raises-{r[1]}', f'{tag}: {r[2]}')
    elif list(r[1]) != true_map:
        c.bad('qudit_to_qpu_map-not-indexed-by-qudit',
              f'{tag}: qpu_to_qudit={q2} but qudit_to_qpu={list(r[1])}; entry q must be the QPU '
              f'containing qudit q, i.e. {true_map}')
    else:
        map_ok = True
    want_adj: list[set[int]] = [set() for _ in q2]
    for u, v in remote:
        a, b = true_map[u], true_map[v]
        want_adj[a].add(b)
        want_adj[b].add(a)
    r = call(g.get_qpu_connectivity)
    if r[0] != 'ok':
        c.bad(f'qpu_connectivity-raises-{r[1]}', f'{tag}: {r[2]}')
    else:
        got = [set(x) - {i} for i, x in enumerate(r[1])]
        if got != [x - {i} for i, x in enumerate(want_adj)]:
            if map_ok:
                c.bad('qpu_connectivity-wrong', f'{tag}: {r[1]} want {want_adj}')
            else:
                c.n('qpu_connectivity_wrong_because_of_map')
    r = call(g.get_individual_qpu_graphs)
    if r[0] != 'ok':
        c.bad(f'individual_qpu_graphs-raises-{r[1]}', f'{tag}: {r[2]}')
    elif not remote:
        if not (len(r[1]) == 1 and r[1][0] == g):
            c.bad('individual_qpu_graphs-undistributed-not-self', f'{tag}: {r[1]}')
    else:
        gs = r[1]
        okk = len(gs) == len(q2)
        if okk:
            for sub, qpu in zip(gs, q2):
                ren = {q: i for i, q in enumerate(qpu)}
                if sub.num_qudits != len(qpu) or _edge_set(sub) != R.relabel_edges(R.induced_edges(E, qpu), ren):
                    okk = False
        if not okk:
            c.bad('individual_qpu_graphs-wrong', f'{tag}: {[sorted(x) for x in gs]} for QPUs {q2}')
    inter = sorted(true_map) != true_map
    c.stats['outcome'] = f'qpu:count={len(comps)}:interleaved={inter}'  # type: ignore
    if remote:
        c.n('nontrivial')


# --------------------------------------------------------------- topology
def judge_topology(case: dict, c: V) -> None:
    kind, args = case['kind'], list(case['args'])
    fn = getattr(CouplingGraph, kind)
    n, E = R.topology(kind, *args)
    tag = f'CouplingGraph.{kind}{tuple(args)}'
    r = call(fn, *args)
    c.n('topology')
    if r[0] != 'ok':
        if kind == 'ring' and args[0] < 3:
            return      # a cycle needs three vertices; nothing to judge
        c.bad(f'topology-{kind}-raises-{r[1]}', f'{tag}: {r[2]}')
        return
    g = r[1]
    if kind == 'ring' and args[0] < 3:
        return
    if g.num_qudits != n or _edge_set(g) != E:
        c.bad(f'topology-{kind}-wrong-edges', f'{tag}: n={g.num_qudits} {sorted(g)} want n={n} {sorted(E)}')
        return
    c.n('nontrivial')
    sub = V()
    judge_graph({'n': n, 'edges': sorted(E), 'kmax': case.get('kmax', 3)}, sub)
    for sig, what in sub.v:
        c.bad(sig, what)
    for k, v in sub.stats.items():
        if isinstance(v, int) and k != 'nontrivial':
            c.n(k, v)
    c.stats['outcome'] = f'topology:{kind}'  # type: ignore


# ---------------------------------------------------------------- relabel
def judge_relabel(case: dict, c: V) -> None:
    """`relabel_subgraph(edges)` without a map: 'vertices are renumbered in
    least to greatest order and in the set {0,...,|V|-1}'."""
    edges = [tuple(e) for e in case['edges']]
    verts = sorted({q for e in edges for q in e})
    ren = {q: i for i, q in enumerate(verts)}
    want = R.relabel_edges(edges, ren)
    r = call(CouplingGraph.relabel_subgraph, list(edges))
    c.n('relabel_default')
    tag = f'relabel_subgraph({edges})'
    if r[0] != 'ok':
        c.bad(f'relabel_subgraph-default-raises-{r[1]}', f'{tag}: {r[2]}')
    elif _edge_set(r[1]) != want:
        c.bad('relabel_subgraph-default-not-least-to-greatest',
              f'{tag}: got {sorted(r[1])}, ranking the labels {verts} gives {sorted(want)}')
    if verts != list(range(len(verts))):
        c.n('nontrivial')
    c.stats['outcome'] = f'relabel:maxlabel>=8={max(verts) >= 8}'  # type: ignore


# ---------------------------------------------------------------- machine
def judge_machine(case: dict, c: V) -> None:
    n = case['n']
    edges = [tuple(e) for e in case['edges']]
    A = R.adj(n, edges)
    tag = f'MachineModel({n}, {edges})'
    for how in ('edge-list', 'CouplingGraph'):
        arg = edges if how == 'edge-list' else CouplingGraph(edges, n)
        r = call(MachineModel, n, arg)
        if r[0] != 'ok':
            c.bad(f'machine-constructor-raises-{r[1]}', f'{tag} via {how}: {r[2]}')
            continue
        m = r[1]
        cgn = m.coupling_graph.num_qudits
        for k in range(1, n + 1):
            want = R.connected_subsets(n, A, k)
            r = call(m.get_locations, k)
            c.n('machine_locations')
            if cgn < n:
                # one cause: the model's coupling graph lost the isolated
                # qudits above the largest one that has an edge
                trunc = {s for s in want if max(s) < cgn}
                if r[0] == 'ok' and {frozenset(l) for l in r[1]} == want:
                    continue
                if (r[0] == 'exc' and r[1] == 'ValueError' and k > cgn) or \
                        (r[0] == 'ok' and {frozenset(l) for l in r[1]} == trunc):
                    c.bad('machine-coupling-graph-drops-trailing-isolated-qudits',
                          f'{tag} via {how}: model.num_qudits={n} but model.coupling_graph.num_qudits={cgn}; '
                          f'get_locations({k}) -> {r[1:] if r[0] == "exc" else sorted(map(tuple, r[1]))}, '
                          f'connected {k}-sets of the machine: {sorted(map(sorted, want))}')
                    continue
            if r[0] != 'ok':
                c.bad(f'machine-get_locations-raises-{r[1]}', f'{tag} via {how} k={k}: {r[2]}')
                continue
            got = {frozenset(l) for l in r[1]}
            if got != want:
                c.bad('machine-get_locations-wrong',
                      f'{tag} via {how} k={k}: missing {sorted(map(sorted, want - got))[:4]} '
                      f'spurious {sorted(map(sorted, got - want))[:4]}')
    if edges:
        c.n('nontrivial')
    c.stats['outcome'] = f'machine:tail-isolated={len(A[n - 1]) == 0}'  # type: ignore


# ------------------------------------------------------------ permutation
def judge_perm(case: dict, c: V) -> None:
    n, radix, loc = case['n'], case['radix'], tuple(case['loc'])
    tag = f'from_qudit_location({n}, {radix}, {loc})'
    fns = [('from_qudit_location', lambda: PermutationMatrix.from_qudit_location(n, radix, loc))]
    if radix == 2:
        fns.append(('from_qubit_location', lambda: PermutationMatrix.from_qubit_location(n, loc)))
    for name, fn in fns:
        r = call(fn)
        c.n('perm')
        if r[0] != 'ok':
            c.bad(f'{name}-raises-{r[1]}', f'{tag}: {r[2]}')
            continue
        P = r[1]
        if tuple(P.radixes) != (radix,) * n:
            c.bad(f'{name}-wrong-radixes', f'{tag}: {P.radixes}')
        perm = R.read_qudit_permutation(np.asarray(P.numpy).real
                                        if np.all(np.asarray(P.numpy).imag == 0) else np.asarray(P.numpy), n, radix)
        if perm is None:
            c.bad(f'{name}-not-a-qudit-permutation', f'{tag}')
            continue
        if tuple(perm[:len(loc)]) != loc:
            inv = [0] * n
            for i, q in enumerate(perm):
                inv[q] = i
            kind = 'inverse-permutation' if tuple(inv[:len(loc)]) == loc else 'wrong-permutation'
            c.bad(f'{name}-{kind}',
                  f'{tag}: output position i carries input qudit {perm}[i]; wanted location[i]')
        elif len(loc) == n and not np.array_equal(np.asarray(P.numpy).real, R.qudit_permutation_matrix(loc, radix)):
            raise RuntimeError('permutation oracles disagree')
    ident = list(loc) == list(range(len(loc)))
    if not ident:
        c.n('nontrivial')
    c.stats['outcome'] = f'perm:identity={ident}:full={len(loc) == n}'  # type: ignore


def judge_swap(case: dict, c: V) -> None:
    radix = case['radix']
    r = call(PermutationMatrix.gen_swap_unitary, radix)
    c.n('swap')
    if r[0] != 'ok':
        c.bad(f'gen_swap_unitary-raises-{r[1]}', f'radix={radix}: {r[2]}')
        return
    if tuple(r[1].radixes) != (radix, radix) or not np.array_equal(
        np.asarray(r[1].numpy).real, R.qudit_permutation_matrix((1, 0), radix),
    ):
        c.bad('gen_swap_unitary-wrong', f'radix={radix}')
    c.n('nontrivial')
    c.stats['outcome'] = 'swap'  # type: ignore


# ------------------------------------------------------------- unitaries
def _cat(radixes: Any, seed: int, name: str) -> np.ndarray:
    return dict(R.catalogue(list(radixes), seed))[name]


def _close(a: Any, b: Any) -> bool:
    a = np.asarray(a)
    b = np.asarray(b)
    return a.shape == b.shape and bool(np.max(np.abs(a - b), initial=0.0) <= ATOL)


def judge_otimes(case: dict, c: V) -> None:
    rs = [tuple(r) for r in case['radixes']]
    names = case['names']
    seed = case['seed']
    mats = [_cat(r, seed, nm) for r, nm in zip(rs, names)]
    us = [UnitaryMatrix(m, r) for m, r in zip(mats, rs)]
    want = mats[0]
    for m in mats[1:]:
        want = np.kron(want, m)
    wr = tuple(x for r in rs for x in r)
    tag = f'otimes radixes={rs} names={names}'
    r = call(us[0].otimes, *us[1:])
    c.n('otimes')
    if r[0] != 'ok':
        c.bad(f'otimes-raises-{r[1]}', f'{tag}: {r[2]}')
    else:
        if tuple(r[1].radixes) != wr:
            c.bad('otimes-wrong-radixes', f'{tag}: {r[1].radixes}')
        if not _close(r[1].numpy, want):
            c.bad('otimes-wrong-matrix', tag)
    if len(us) == 3:
        r = call(lambda: us[0].otimes(us[1]).otimes(us[2]))
        if r[0] == 'ok' and not (_close(r[1].numpy, want) and tuple(r[1].radixes) == wr):
            c.bad('otimes-not-associative', tag)
    # raw arrays: radixes are inferred, so only judged where inference is defined
    if all(set(rr) == {2} for rr in rs[1:]) or all(set(rr) == {3} for rr in rs[1:]):
        r = call(us[0].otimes, *mats[1:])
        if r[0] != 'ok':
            c.bad(f'otimes-ndarray-raises-{r[1]}', f'{tag}: {r[2]}')
        elif not (_close(r[1].numpy, want) and tuple(r[1].radixes) == wr):
            c.bad('otimes-ndarray-wrong', tag)
    if any(nm != 'identity' for nm in names):
        c.n('nontrivial')
    c.stats['outcome'] = f'otimes:{len(rs)}'  # type: ignore


def judge_ipower(case: dict, c: V) -> None:
    rs, name, p, seed = tuple(case['radixes']), case['name'], case['power'], case['seed']
    m = _cat(rs, seed, name)
    u = UnitaryMatrix(m, rs)
    want = np.eye(m.shape[0], dtype=np.complex128)
    base = m if p >= 0 else m.conj().T
    for _ in range(abs(p)):
        want = want @ base
    r = call(u.ipower, p)
    c.n('ipower')
    tag = f'ipower radixes={rs} {name}^{p}'
    if r[0] != 'ok':
        c.bad(f'ipower-raises-{r[1]}', f'{tag}: {r[2]}')
    elif tuple(r[1].radixes) != rs:
        c.bad('ipower-wrong-radixes', f'{tag}: {r[1].radixes}')
    elif not _close(r[1].numpy, want):
        c.bad('ipower-wrong-matrix' + ('-negative-power' if p < 0 else ''), tag)
    if name != 'identity' and p not in (0, 1):
        c.n('nontrivial')
    c.stats['outcome'] = f'ipower:sign={(p > 0) - (p < 0)}'  # type: ignore


def judge_state(case: dict, c: V) -> None:
    rs, name, seed = tuple(case['radixes']), case['name'], case['seed']
    m = _cat(rs, seed, name)
    u = UnitaryMatrix(m, rs)
    d = m.shape[0]
    tag = f'get_statevector radixes={rs} {name}'
    vecs = [np.eye(d, dtype=np.complex128)[:, k] for k in range(d)] + [R.generic_state(d, seed)]
    inferable = set(rs) == {2} or set(rs) == {3}
    for k, v in enumerate(vecs):
        forms = [('StateVector', lambda v=v: StateVector(v, rs))]
        if inferable:
            forms.append(('ndarray', lambda v=v: v))
        for fname, mk in forms:
            r = call(lambda: u.get_statevector(mk()))
            c.n('statevector')
            if r[0] != 'ok':
                c.bad(f'get_statevector-{fname}-raises-{r[1]}', f'{tag} state#{k}: {r[2]}')
            elif tuple(r[1].radixes) != rs:
                c.bad('get_statevector-wrong-radixes', f'{tag}: {r[1].radixes}')
            elif not _close(r[1].numpy, m @ v):
                c.bad('get_statevector-wrong-vector', f'{tag} state#{k}')
    if name != 'identity':
        c.n('nontrivial')
    c.stats['outcome'] = 'state'  # type: ignore


def _start(rs: tuple, start: str, seed: int, c: V, tag: str) -> tuple[Any, np.ndarray] | None:
    b = UnitaryBuilder(len(rs), rs)
    d = int(np.prod(rs))
    T = np.eye(d, dtype=np.complex128)
    if start == 'generic':
        rng = np.random.RandomState(3000 + seed + d)
        A = rng.randn(d, d) + 1j * rng.randn(d, d)
        Q, _ = np.linalg.qr(A)
        r = call(b.apply_right, UnitaryMatrix(Q, rs), list(range(len(rs))))
        if r[0] != 'ok' or not _close(b.get_unitary().numpy, Q):
            c.bad('builder-apply_right-on-all-qudits-wrong', f'{tag}: {r}')
            return None
        T = Q
    return b, T


def judge_builder(case: dict, c: V) -> None:
    rs, loc, name = tuple(case['radixes']), tuple(case['loc']), case['name']
    side, inverse, start, seed = case['side'], bool(case['inverse']), case['start'], case['seed']
    sub = tuple(rs[q] for q in loc)
    tag = f'UnitaryBuilder{rs}.apply_{side}({name}{sub}, {loc}, inverse={inverse}) from {start}'
    st = _start(rs, start, seed, c, tag)
    if st is None:
        return
    b, T = st
    m = _cat(sub, seed, name)
    u = UnitaryMatrix(m, sub)
    G = R.embed(m.conj().T if inverse else m, loc, rs)
    want = G @ T if side == 'right' else T @ G
    adjacent = list(loc) == list(range(loc[0], loc[0] + len(loc)))
    shape = 'adjacent-ascending' if adjacent else ('ascending' if list(loc) == sorted(loc) else 'permuted')
    # eval_ variants first (must not modify the builder)
    if not inverse:
        ev = call(getattr(b, f'eval_apply_{side}'), m, CircuitLocation(loc))
        c.n('eval_apply')
        if ev[0] != 'ok':
            c.bad(f'builder-eval_apply_{side}-raises-{ev[1]}', f'{tag}: {ev[2]}')
        elif not _close(ev[1], want):
            c.bad(f'builder-eval_apply_{side}-wrong-{shape}-location', tag)
        if not _close(b.get_unitary().numpy, T):
            c.bad(f'builder-eval_apply_{side}-modifies-builder', tag)
    r = call(getattr(b, f'apply_{side}'), u, list(loc), inverse)
    c.n('apply')
    if r[0] != 'ok':
        c.bad(f'builder-apply_{side}-raises-{r[1]}', f'{tag}: {r[2]}')
    else:
        got = b.get_unitary()
        if tuple(got.radixes) != rs:
            c.bad('builder-get_unitary-wrong-radixes', tag)
        if not _close(got.numpy, want):
            c.bad(f'builder-apply_{side}-wrong-{shape}-location' + ('-inverse' if inverse else ''), tag)
    if name != 'identity' and (not adjacent or len(rs) > len(loc)):
        c.n('nontrivial')
    c.stats['outcome'] = f'builder:{side}:{shape}:inv={inverse}'  # type: ignore


def judge_env(case: dict, c: V) -> None:
    rs, loc, start, seed = tuple(case['radixes']), tuple(case['loc']), case['start'], case['seed']
    tag = f'UnitaryBuilder{rs} ({start}).calc_env_matrix({loc})'
    st = _start(rs, start, seed, c, tag)
    if st is None:
        return
    b, T = st
    want = R.partial_trace_env(T, loc, rs)
    sub = tuple(rs[q] for q in loc)
    # the defining property: tr(E G) = tr(T (G on loc)) for every G
    G = _cat(sub, seed, 'generic')
    if abs(np.trace(want @ G) - np.trace(T @ R.embed(G, loc, rs))) > 1e-9:
        raise RuntimeError('environment oracle inconsistent')
    r = call(b.calc_env_matrix, list(loc))
    c.n('env')
    if r[0] != 'ok':
        nonqubit = any(x != 2 for x in rs)
        c.bad(f'calc_env_matrix-raises-{r[1]}' + ('-non-qubit-radixes' if nonqubit else ''),
              f'{tag}: {r[2]}')
    elif not _close(r[1], want):
        c.bad('calc_env_matrix-wrong', tag)
    if start == 'generic':
        c.n('nontrivial')
    c.stats['outcome'] = f'env:qubits={all(x == 2 for x in rs)}'  # type: ignore


JUDGES = {
    'graph': judge_graph, 'embed': judge_embed, 'qpu': judge_qpu,
    'topology': judge_topology, 'relabel': judge_relabel,
    'machine': judge_machine, 'perm': judge_perm, 'swap': judge_swap,
    'otimes': judge_otimes, 'ipower': judge_ipower, 'state': judge_state,
    'builder': judge_builder, 'env': judge_env,
}


def judge(case: dict) -> tuple[list[tuple[str, str]], dict]:
    c = V()
    random.seed(case.get('seed', 0))     # maximal_matching(randomize=True)
    JUDGES[case['part']](case, c)
    c.n('cases')
    c.n('cases_' + case['part'])
    return c.v, c.stats
