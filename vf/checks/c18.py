"""C18 -- every library gate obeys the gate contract.

Engine E3.  The class list is read from `bqskit.ir.gates.__all__`; the
admissible constructor arguments per class are tabulated in vf/c18_grid.py
(from signatures and docstrings); classes that cannot be covered are listed
with a reason in the evidence (`parts.SKIPPED`).  Every construction is
judged at every point of a parameter grid by vf/c18_judge.py.

Phase 1  every non-composed gate construction, full parameter grid
         ({0, pi/2, pi, 3pi/2, -pi, 100.3, 1e-9, two seeded generics}^n for
         n <= 2 (3 thorough); axis-aligned + all-equal + generic beyond).
Phase 2  Controlled (1-2 controls, radix 2-4 (5), every control-level
         assignment), Power (-2..3), Dagger, Embedded (every injective level
         map), FrozenParameter (every subset), Tagged, VariableLocation over
         a menu of inner gates that passed phase 1; Dagger/Power/Controlled
         once more over a few composed gates (mixed-radix parameterized).
Phase 3  == / hash over all pairs of constructions inside each class (and
         inner gate), and over one default construction of every class.
"""
from __future__ import annotations

import json
from typing import Any

from vf.common import Ctx, HarnessError, pmap

COMPOSITION_CLAUSES = (
    'constructor', 'get_unitary', 'get_grad', 'grad-', 'get_unitary_and_grad',
    'inverse', 'advertised', 'attributes', 'expr-',
)


def _work(item: dict) -> dict:
    from vf.c18_judge import judge
    v, st = judge(item)
    return {'i': item['i'], 'v': v, 'stats': st}


def _key(spec: dict) -> str:
    return json.dumps(spec, sort_keys=True)


def _cost(item: dict) -> int:
    s = json.dumps(item.get('spec', {}))
    w = 1
    for name, k in (('PauliGate', 60), ('VariableUnitaryGate', 10), ('U8Gate', 20), ('MPR', 8),
                    ('DiagonalGate', 8), ('PauliZGate', 8), ('CircuitGate', 10), ('U3Gate', 6)):
        if name in s:
            w = max(w, k)
    return w


class Collector:
    def __init__(self, ctx: Ctx) -> None:
        self.ctx = ctx
        self.best: dict[str, list] = {}
        self.counts: dict[str, int] = {}
        self.by_class: dict[str, dict[str, int]] = {}
        self.results: dict[int, dict] = {}
        self.done = 0

    def run(self, items: list[dict], deadline: float) -> bool:
        order = sorted(items, key=lambda it: -_cost(it))
        n0 = self.done
        index = {it['i']: it for it in items}
        for res in pmap(_work, order, procs=self.ctx.procs, deadline=deadline):
            self.done += 1
            item = index[res['i']]
            self.results[res['i']] = res
            cls = item.get('cls', 'pairs')
            d = self.by_class.setdefault(cls, {})
            for k, x in res['stats'].items():
                if isinstance(x, int):
                    d[k] = d.get(k, 0) + x
            d['violating_constructions'] = d.get('violating_constructions', 0) + (1 if res['v'] else 0)
            self.ctx.outcomes[f'{cls}:' + ('ok' if not res['v'] else '+'.join(sorted(s.split(":", 1)[1] for s, _ in res['v']))[:80])] += 1
        return self.done - n0 == len(items)

    def discard(self, i: int) -> None:
        """Forget the violations of work item i (they are consequences of a
        defect that is reported where it belongs)."""
        res = self.results.get(i)
        if res:
            res['v'] = []

    def summarize(self, items: dict[int, dict]) -> None:
        self.best, self.counts = {}, {}
        for i in sorted(self.results):
            for sig, what in self.results[i]['v']:
                self.counts[sig] = self.counts.get(sig, 0) + 1
                if sig not in self.best:
                    self.best[sig] = [i, what, items[i]]


def run(ctx: Ctx) -> None:
    import os
    from vf import c18_grid as GR
    import vf.c18_judge as J      # imported before the pools fork
    J._qiskit_map()
    thorough = not ctx.quick
    budget = (70 if ctx.quick else 27 * 60) * float(os.environ.get('VERIF_BUDGET_SCALE', '1'))
    deadline = ctx.t0 + budget
    col = Collector(ctx)
    counter = [0]

    def mk(spec: dict, **kw: Any) -> dict:
        it = {'spec': spec, 'seed': ctx.seed, 'tier': ctx.tier, 'cls': GR.spec_class(spec), 'i': counter[0]}
        it.update(kw)
        counter[0] += 1
        return it

    # ---------------- phase 1
    specs, skipped, notes = GR.base_specs(thorough)
    seen = {_key(s) for s in specs}
    for s in GR.INNER_MENU:
        if _key(s) not in seen:
            seen.add(_key(s))
            specs.append(s)
    items1 = [mk(s) for s in specs]
    # composed gates that serve as inner gates of the second level are judged
    # together with the base gates (one pool less)
    items1s = [mk(s, light=True, second_inner=True) for s in GR.SECOND_LEVEL_INNER]
    for s in specs[:3] + specs[-2:]:
        ctx.sample(GR.show(s), limit=12)
    complete = col.run(items1 + items1s, deadline)
    ctx.part('phases', base_constructions=len(items1) + len(items1s), base_done_at_s=round(ctx.elapsed(), 1))
    info: dict[str, dict] = {}
    broken: dict[str, list[str]] = {}
    for it in items1 + items1s:
        res = col.results.get(it['i'])
        if res is None:
            continue
        if 'info' in res['stats']:
            info[_key(it['spec'])] = res['stats']['info']
        broken[_key(it['spec'])] = [s.split(':', 1)[1] for s, _ in res['v']]

    # ---------------- phase 2
    items2: list[dict] = []
    dropped = []
    menu = []
    for s in GR.INNER_MENU:
        k = _key(s)
        if k not in info:
            continue
        bad = [b for b in broken.get(k, []) if b.startswith(COMPOSITION_CLAUSES)]
        if bad:
            dropped.append(f'{GR.show(s)}: {bad[0]}')
            continue
        menu.append(s)
        skip_opt = any(b.startswith(('optimize', 'calc_params')) for b in broken.get(k, []))
        for cs in GR.composed_specs(s, info[k], thorough):
            items2.append(mk(cs, light=not (thorough and info[k]['num_params'] <= 2), skip_optimize=skip_opt))
    menu_keys = {_key(s) for s in menu}
    items2b: list[dict] = []
    for it in items1s:
        s = it['spec']
        k = _key(s)
        if _key(s['args'][0]['$gate']) not in menu_keys:
            # its own failures are consequences of the broken base gate
            dropped.append(f'{GR.show(s)} (second level): its inner gate was dropped')
            col.discard(it['i'])
            continue
        if k not in info:
            continue
        bad = [b for b in broken.get(k, []) if b.startswith(COMPOSITION_CLAUSES)]
        if bad:
            dropped.append(f'{GR.show(s)} (second level): {bad[0]}')
            continue
        skip_opt = any(b.startswith(('optimize', 'calc_params')) for b in broken.get(k, []))
        for cs in GR.composed_specs(s, info[k], thorough, second_level=True):
            items2b.append(mk(cs, light=True, second_level=True, skip_optimize=skip_opt))
    if complete:
        for s in items2[:2] + items2[len(items2) // 2:len(items2) // 2 + 2]:
            ctx.sample(GR.show(s['spec']), limit=12)
        complete = col.run(items2 + items2b, deadline)
        ctx.part('phases', composed_constructions=len(items2) + len(items2b), composed_done_at_s=round(ctx.elapsed(), 1))
    items1 = items1 + items1s

    # ---------------- phase 3
    items3: list[dict] = []
    if complete:
        groups: dict[str, list[dict]] = {}
        for it in items1:
            groups.setdefault(it['cls'], []).append(it['spec'])
        for it in items2:
            inner = it['spec']['args'][0]['$gate'] if it['spec'].get('args') and isinstance(it['spec']['args'][0], dict) and '$gate' in it['spec']['args'][0] else None
            tag = it['cls'] + ' over ' + (GR.show(inner) if inner else '-')
            groups.setdefault(tag, []).append(it['spec'])
        defaults = []
        dseen = set()
        for it in items1 + items2:
            if it['cls'] not in dseen:
                dseen.add(it['cls'])
                defaults.append(it['spec'])
        groups['one construction per class'] = defaults
        for name, ss in groups.items():
            if len(ss) >= 2:
                for a in range(0, len(ss), 120):
                    part = ss[a:a + 120]
                    if len(part) >= 2:
                        items3.append({'kind': 'eqhash', 'group': name, 'specs': part, 'seed': ctx.seed,
                                       'cls': 'pairs', 'i': counter[0]})
                        counter[0] += 1
        complete = col.run(items3, deadline)
        ctx.part('phases', pair_groups=len(items3), pairs_done_at_s=round(ctx.elapsed(), 1))

    total = len(items1) + len(items2) + len(items2b) + len(items3)
    if not complete:
        ctx.cap(f'time budget of {budget}s reached after {col.done} of >= {total} work items '
                '(phases run in order 1 base gates, 2 composed gates, 3 ==/hash pairs)')

    # ---------------- evidence
    ctx.cov['evaluations'] = col.done
    nontriv = 0
    npoints = 0
    for it in items1 + items2 + items2b:
        res = col.results.get(it['i'])
        if res is None:
            continue
        npoints += res['stats'].get('points', 0)
        inf = res['stats'].get('info')
        if inf and (inf['num_params'] > 0 or it['cls'] in GR.COMPOSED or it['spec'].get('args')):
            nontriv += 1
    ctx.cov['distinct_nontrivial'] = nontriv
    ctx.cov['parameter_points'] = npoints
    ctx.cov['rule'] = (
        'one evaluation = one gate construction (distinct by its construction recipe) judged on its whole '
        'parameter grid, or one group of constructions judged pairwise for ==/hash; non-trivial = the gate '
        'is parameterized, composed, or built with non-default constructor arguments. parameter_points is '
        'the number of (gate, parameter vector) pairs at which all point clauses were evaluated.'
    )
    for cls in sorted(col.by_class):
        ctx.part(cls, **col.by_class[cls])
    ctx.part('SKIPPED', **{k: v for k, v in skipped.items()})
    ctx.part('aliases', **notes['aliases'])
    ctx.part('exported_instances', names=notes['instances'])
    ctx.part('inner_menu', used=[GR.show(s) for s in menu], dropped=dropped)
    concrete, _, _, _ = GR.classify()
    uncovered = [n for n in concrete if n not in col.by_class and n not in skipped]
    ctx.part('coverage_of___all__', exported=len(__import__('bqskit.ir.gates', fromlist=['x']).__all__),
             concrete_classes=len(concrete), covered=len([n for n in concrete if n in col.by_class]),
             skipped=len(skipped), uncovered=uncovered)
    if uncovered and complete:
        raise HarnessError(f'exported gate classes neither covered nor skipped: {uncovered}')
    ctx.assumptions += [
        'numpy, Qiskit gate matrices and the reference arithmetic in vf/c20_ref.py are trusted',
        'calc_params is judged up to a global phase (U3Gate/U8Gate cannot express one); PauliZGate only on diagonal targets',
        'optimize: a result attaining the maximum of |tr(env U)| instead of Re tr(env U) is counted '
        '(optimize_attains_max_abs_trace_only) but not reported; the search for a better point is coordinate '
        'ascent on a 4pi/96 grid plus local steps, so it can miss a better point but cannot invent one',
        'a gate whose get_grad raises NotImplementedError is documented as not differentiable; its gradient clauses are skipped',
        'VariableLocationGate algebra is judged only at saturated location parameters; it is built for qubit gates only (documented TODO)',
        'central differences: h=1e-6, tolerance 1e-7*(1+|p|_1/10)*max(1,|grad|), confirmed with a 5-point stencil at h=1e-3',
    ]

    from vf.c18_judge import judge
    col.summarize({it['i']: it for it in items1 + items2 + items2b + items3})
    for sig, rec in sorted(col.best.items(), key=lambda kv: kv[1][0]):
        _, what, item = rec
        again = [sig in [s for s, _ in judge(dict(item))[0]] for _ in range(2)]
        if not all(again):
            ctx.part('unreproducible', **{sig: 1})
            continue
        rep = {'item': {k: v for k, v in item.items() if k != 'i'}, 'signature': sig}
        for _ in range(col.counts[sig]):
            ctx.violation(sig, what, rep)


def replay(ctx: Ctx, obj: Any) -> bool:
    from vf.c18_judge import judge
    if not isinstance(obj, dict) or 'item' not in obj:
        raise HarnessError('malformed C18 replay object')
    item = dict(obj['item'])
    item['i'] = 0
    v, _ = judge(item)
    for sig, what in v:
        print(f'# {sig}: {what}')
    return obj['signature'] not in [s for s, _ in v]
