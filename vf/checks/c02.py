"""C02 -- compile() output is executable on the target machine model.

Part A (compilations).  Shares the executions of C01 and C03 through the
on-disk result cache of `vf.c01_cases` (keyed by case, seed and a hash of
the selected bqskit tree + this harness, so nothing stale can be read): a
stated subset of C01's and C03's enumerations, plus models those do not
have -- every connected graph on 4 vertices, tree-5, grid 2x2, and the
Rigetti Ankaa / Quantinuum gate sets from `bqskit.ext` on 3-4 qudit
connected subgraphs.  Every returned circuit is judged from the model
*specification*: width and radixes equal the model's, every non-placeholder
gate is native, every pair of qudits of every multi-qudit operation is an
edge.  `MachineModel.is_compatible` (placeholders stripped) must agree.

Part B (pure enumeration).  `is_compatible(circuit, placement)` against the
independent check on every (circuit of <= 2 operations over 1-3 qudit gates
on <= 3 qudits, labelled graph on <= 4 vertices, gate set, radix pattern,
injective placement or None).  For this comparison the first condition is
"the circuit fits and every qudit has the radix of the machine qudit it is
placed on" -- what a placement-taking API can mean; demanding equal width
there would demand more than the method is for.
"""
from __future__ import annotations

import itertools as it
from typing import Any

from vf import c01_cases as K
from vf import c01_driver as D
from vf import c01_oracle as O
from vf.checks import c01
from vf.checks import c03
from vf.common import Ctx
from vf.common import pmap

RULE = (
    'A: one compile per case (subset of C01+C03 enumerations, cached, plus '
    'every connected 4-vertex graph / tree-5 / grid / vendor gate sets); '
    'B: every (circuit<=2 ops, labelled graph<=4 vertices, gate set, radix '
    'pattern, placement) pair for is_compatible; non-trivial A = ran and the '
    'input circuit has >= 1 multi-qudit gate / the target is not an '
    'identity; B = pairs where the three conditions do '
    'not all hold trivially (some condition false, or a multi-qudit gate '
    'on a non-complete graph)'
)


def mk(inp: dict, model: dict | None, level: int, mss: int = 3) -> dict:
    return {'input': inp, 'model': model, 'level': level, 'mss': mss,
            'eps': 1e-8}


def extra_cases(ctx: Ctx) -> list:
    """Models C01/C03 do not have."""
    u3 = K.generic_angles(ctx.seed, 0)
    M = K.model_spec
    c4 = [['CNOT', [0, 3]], ['CNOT', [1, 2]], ['CZ', [0, 2]]]
    c4b = [['U3', [0], u3], ['CNOT', [0, 2]], ['CNOT', [3, 1]]]
    f3 = [['U3', [0], u3], ['CNOT', [0, 2]], ['CZ', [1, 2]]]
    graphs = K.connected_graphs(4)
    cases = []
    levels = [1] if ctx.quick else [1, 2]
    gsets = [K.GS_DEFAULT] if ctx.quick else \
        [K.GS_DEFAULT, K.GS_ZX, K.GS_ISWAP]
    for lvl in levels:
        for gs in gsets:
            for g in graphs:
                name = f'graph4-{len(g)}e-' + '+'.join(gs).lower()
                cases.append(mk(K.circuit_spec(4, c4), M(4, g, gs, name=name),
                                lvl))
                if not ctx.quick:
                    cases.append(mk(K.circuit_spec(4, c4b),
                                    M(4, g, gs, name=name), lvl))
                    cases.append(mk(K.circuit_spec(3, f3),
                                    M(4, g, gs, name=name), lvl))
    tree5 = M(5, K.TREE5, K.GS_DEFAULT, name='tree5')
    grid = M(4, K.GRID22, K.GS_ZX, name='grid2x2-zx')
    ankaa_line = M(3, K.LINE3, K.GS_RIGETTI, name='ankaa-line3',
                   vendor='rigetti-ankaa')
    ankaa_grid = M(4, K.GRID22, K.GS_RIGETTI, name='ankaa-grid2x2',
                   vendor='rigetti-ankaa')
    h1 = M(3, None, K.GS_QUANTINUUM, name='quantinuum-all3',
           vendor='quantinuum')
    for lvl in levels:
        cases.append(mk(K.circuit_spec(4, c4), tree5, lvl))
        cases.append(mk(K.circuit_spec(3, f3), tree5, lvl))
        cases.append(mk(K.circuit_spec(4, c4), grid, lvl))
        cases.append(mk(K.circuit_spec(3, f3), ankaa_line, lvl))
        cases.append(mk(K.circuit_spec(3, f3[1:]), ankaa_grid, lvl))
        cases.append(mk(K.circuit_spec(3, f3), h1, lvl))
        cases.append(mk(K.circuit_spec(2, [['CNOT', [0, 1]]]), h1, lvl))
    # Gate sets without a general single-qudit gate: the analytic Z-X-Z-X-Z
    # rule picks SX or RX and RZ or U1 independently, by what the model
    # offers -- every pairing, on a circuit (the rule is on the circuit path)
    for xg in ('SX', 'RX'):
        for zg in ('RZ', 'U1'):
            gs = ['CNOT', zg, xg]
            nm = '+'.join(gs).lower()
            for lvl in levels:
                cases.append(mk(K.circuit_spec(3, f3),
                                M(3, K.LINE3, gs, name='line3-' + nm), lvl))
                cases.append(mk(K.circuit_spec(2, [['U3', [0], u3],
                                                   ['CNOT', [0, 1]]]),
                                M(2, None, gs, name='all2-' + nm), lvl))
    cases.append(mk({'kind': 'unitary', 'gen': ['perm', [0, 1, 3, 2]]},
                    M(2, None, K.GS_RIGETTI, name='ankaa-all2',
                      vendor='rigetti-ankaa'), 1))
    cases.append(mk({'kind': 'unitary', 'gen': ['generic', 1, 2, 0]},
                    M(1, [], K.GS_QUANTINUUM, name='quantinuum-1',
                      vendor='quantinuum'), 1))
    if not ctx.quick:
        cases.append(mk(K.circuit_spec(1, [['H', [0]]]),
                        M(3, K.LINE3, K.GS_DEFAULT, name='line3'), 4))
        cases.append(mk(K.circuit_spec(1, [['H', [0]]]),
                        M(3, K.LINE3, K.GS_DEFAULT, name='line3'), 3))
    return cases


def enumerate_cases(ctx: Ctx) -> list:
    """Subset of C01's enumeration: every circuit of <= 1 operation, every
    variant / qutrit / constant / CZ-only case (thorough: every circuit of
    <= 2 operations without CCX at levels 1-2, <= 1 operation at levels 3-4,
    the variants); subset of C03's: every state, system and list case and
    the level-1 unitaries (thorough: levels 1 and 4, permutations, diagonals,
    identities, near-identities, generic, Toffoli, qutrit targets)."""
    a = c01.enumerate_cases(ctx)
    b = c03.enumerate_cases(ctx)
    if ctx.quick:
        def keep1(c: dict) -> bool:
            s, m = c['input'], c['model']
            special = any(k in s for k in ('barrier', 'measure', 'blocked'))
            odd_model = m is not None and (
                'U3' not in m['gates'] or m['d'] != 2 or c['mss'] != 3)
            return len(s['ops']) <= 1 or special or (
                odd_model and len(s['ops']) <= 2 and c['level'] == 1
                and s['n'] <= 2)

        def keep3(c: dict) -> bool:
            s = c['input']
            if s['kind'] != 'unitary':
                return True
            return c['level'] == 1 and (
                c['model'] is not None or s['gen'][0] in (
                    'perm', 'generic', 'shift3', 'csum3', 'toffoli'))
        a = [c for c in a if keep1(c)]
        b = [c for c in b if keep3(c)]
    else:
        def keep1t(c: dict) -> bool:
            s = c['input']
            special = any(k in s for k in ('barrier', 'measure', 'blocked'))
            nccx = sum(1 for o in s['ops'] if o[0] == 'CCX')
            if c['level'] >= 3:
                return len(s['ops']) <= 1 or (special and c['level'] == 3
                                              and s['n'] == 2)
            return (len(s['ops']) <= 2 and nccx == 0) or \
                (len(s['ops']) == 1) or (special and c['level'] == 1)

        def keep3t(c: dict) -> bool:
            s = c['input']
            if s['kind'] != 'unitary':
                return True
            return c['level'] in (1, 4) and s['gen'][0] not in (
                'prod2', 'clifford1', 'qft', 'fredkin')
        a = [c for c in a if keep1t(c)]
        b = [c for c in b if keep3t(c)]
    cases = a + b + extra_cases(ctx)
    seen: set = set()
    out = []
    for c in cases:
        k = K.stable_hash(c)
        if k not in seen:
            seen.add(k)
            out.append(c)
    return out


def _kind(case: dict) -> str:
    s = case['input']
    k = s['kind']
    if k == 'circuit' and s.get('d', 2) != 2:
        k += f'-radix{s["d"]}'
    return k


def _judge_rec(case: dict, kind: str, rec: dict) -> list:
    F = D.Finding
    out = []
    b = K.branches(case)
    sq = next((x for x in b if x.startswith('sq:')), 'sq:?')
    lvl = f'level{case["level"]}'
    ms = case.get('model')
    mname = 'model=None' if ms is None else f'{ms["n"]}-qudit model'
    ex = rec['exec']
    if not ex['shape_ok']:
        # circuits: the level decides (only level 4 lacks the final
        # ApplyPlacement); targets: no synthesis workflow places its output
        base = kind.replace('list-', '').split('-radix')[0]
        where = f'{base}:{lvl}' if base == 'circuit' else base
        out.append(F(
            f'wrong-width-or-radixes:{where}',
            f'output has width {rec["width"]} radixes {rec["radixes"]} for a '
            f'{mname}',
        ))
    if ex['bad_gates']:
        names = '+'.join(ex['bad_gates'])
        if sq == 'sq:none-in-model' and all(
                n in ('T', 'U3Gate', 'H', 'RZ', 'RX', 'RY', 'SX')
                for n in ex['bad_gates']):
            names = 'single-qudit-gates-left'
        elif kind.replace('list-', '') in ('state', 'system') and all(
                n in ('RX', 'RY', 'RZ') for n in ex['bad_gates']):
            # whichever of the layer generator's rotations survive the scan
            names = 'RX/RY/RZ-from-layer-generator'
        out.append(F(
            f'non-native-gates:{kind.replace("list-", "")}:{names}:{sq}',
            f'output contains {ex["bad_gates"]} (all gates: '
            f'{rec["gates_out"]}); native set is '
            f'{(ms or {}).get("gates", "the default set")}',
        ))
    if ex['bad_edges']:
        out.append(F(
            f'uncoupled-multi-qudit-gate:{kind}:{lvl}:{sq}',
            f'multi-qudit operations on uncoupled pairs {ex["bad_edges"]} '
            f'(edges {(ms or {}).get("edges")})',
        ))
    if rec['compat'] is not True and rec['compat'] is not False:
        out.append(F(f'is_compatible-raised:{kind}', str(rec['compat'])))
    elif rec['compat'] != rec['fits']:
        out.append(F(
            f'is_compatible-disagrees:says-{rec["compat"]}:{kind}:{sq}',
            f'is_compatible={rec["compat"]} but the independent check of '
            f'fit/gates/coupling says {rec["fits"]} ({ex})',
        ))
    return out


def judge(case: dict, rec: dict) -> list:
    if rec['status'] != 'ok':
        return []       # C02 is about returned circuits; crashes are C01/C03's
    if 'items' in rec:
        out = []
        for item, r in zip(case['input']['items'], rec['items']):
            out += _judge_rec(case, 'list-' + item['kind'], r)
        return out
    return _judge_rec(case, _kind(case), rec)


# ====================================================== part B: enumeration
def _labelled_graphs(n: int) -> list:
    pairs = [(a, b) for a in range(n) for b in range(a + 1, n)]
    out = []
    for r in range(len(pairs) + 1):
        for es in it.combinations(pairs, r):
            out.append([list(e) for e in es])
    return out


_B_GATESETS = [['CNOT', 'U3'], ['CZ', 'U3', 'T'], ['CNOT', 'CCX', 'U3', 'T']]


def _b_circuits(w: int) -> list:
    alpha = [['U3', [q], [0.1, 0.2, 0.3]] for q in range(min(w, 2))]
    alpha += [['T', [w - 1]]]
    if w >= 2:
        alpha += [['CNOT', [0, w - 1]], ['CZ', [w - 1, 0]]]
    if w >= 3:
        alpha += [['CNOT', [1, 2]], ['CCX', [0, 1, 2]], ['CCX', [2, 0, 1]]]
    out = [[]]
    out += [[a] for a in alpha]
    out += [[a, b] for a in alpha for b in alpha]
    return out


def _b_chunk(arg: tuple) -> dict:
    """All pairs for one (machine width, radix pattern, gate set, number of
    edges of the labelled graph or None for all)."""
    from bqskit.compiler.machine import MachineModel
    from bqskit.ir.circuit import Circuit
    n, rad, gsi, ecount = arg
    gs = _B_GATESETS[gsi]
    native = [K.gate(g) for g in gs]
    res = {'pairs': 0, 'nontrivial': 0, 'true': 0, 'false': 0,
           'disagree': [], 'raised': 0}
    for w in range(1, min(n, 3) + 1):
        placements: list = [None] + [list(p) for p in
                                     it.permutations(range(n), w)]
        for crad in ([2] * w, ([3] + [2] * (w - 1)) if 3 in rad else None):
            if crad is None:
                continue
            circs = []
            for ops in _b_circuits(w):
                if any(K.gate(o[0]).num_qudits > 0 and
                       any(crad[q] != 2 for q in o[1]) for o in ops):
                    continue        # qubit gates only on qubit wires
                c = Circuit(w, crad)
                for o in ops:
                    c.append_gate(K.gate(o[0]), o[1],
                                  o[2] if len(o) > 2 else [])
                circs.append((ops, c, O.flat_ops(c)))
            for edges in _labelled_graphs(n):
                if ecount is not None and len(edges) != ecount:
                    continue
                model = MachineModel(n, [tuple(e) for e in edges],
                                     set(native), list(rad))
                full = len(edges) == n * (n - 1) // 2
                for ops, c, fo in circs:
                    for pl in placements:
                        want = O.judge_executable(
                            fo, w, crad, n, rad, edges, native,
                            placement=pl, exact_width=False)['ok']
                        try:
                            got = bool(model.is_compatible(c, pl))
                        except Exception as e:  # noqa
                            res['raised'] += 1
                            got = f'raised {type(e).__name__}'
                        res['pairs'] += 1
                        res['true' if want else 'false'] += 1
                        if not want or (not full and any(
                                len(o[1]) > 1 for o in ops)):
                            res['nontrivial'] += 1
                        if got != want and len(res['disagree']) < 5:
                            res['disagree'].append({
                                'ops': ops, 'circuit_radixes': list(crad),
                                'n': n, 'model_radixes': list(rad),
                                'edges': edges, 'gates': gs,
                                'placement': pl, 'is_compatible': got,
                                'independent': want,
                            })
    return res


def _b_items(ctx: Ctx) -> list:
    """quick: machines of <= 3 qudits completely, 4 qubits with the default
    gate set; thorough: everything up to 4 qudits."""
    items = []
    for n in (1, 2, 3, 4):
        rads = [[2] * n]
        if n >= 2:
            rads.append([2] * (n - 1) + [3])
            rads.append([3] + [2] * (n - 1))
        for rad in rads:
            for gsi in range(len(_B_GATESETS)):
                if n < 4:
                    items.append((n, rad, gsi, None))
                    continue
                if ctx.quick and (gsi != 0 or rad != [2] * n):
                    continue
                for ecount in range(7):
                    items.append((n, rad, gsi, ecount))
    items.sort(key=lambda x: -x[0])
    return items


def _b_signature(d: dict) -> str:
    why = []
    ops = d['ops']
    pl = d['placement']
    rev = pl is not None and any(
        # an edge (a<b) of the circuit lands on (pl[a] > pl[b])
        pl[min(o[1][i], o[1][j])] > pl[max(o[1][i], o[1][j])]
        for o in ops for i in range(len(o[1]))
        for j in range(i + 1, len(o[1]))
    )
    if rev and d['is_compatible'] is False:
        why.append('placement-reverses-an-edge')
    else:
        if any(r != 2 for r in d['circuit_radixes'] + d['model_radixes']):
            why.append('mixed-radix')
        if any(len(o[1]) > 2 for o in ops):
            why.append('3-qudit-gate')
        if pl is not None:
            why.append('with-placement')
    return (f'is_compatible-enumeration:says-{d["is_compatible"]}:'
            f'independent-{d["independent"]}:' + ','.join(why))


def replay_b(d: dict) -> bool:
    from bqskit.compiler.machine import MachineModel
    from bqskit.ir.circuit import Circuit
    native = [K.gate(g) for g in d['gates']]
    c = Circuit(len(d['circuit_radixes']), d['circuit_radixes'])
    for o in d['ops']:
        c.append_gate(K.gate(o[0]), o[1], o[2] if len(o) > 2 else [])
    model = MachineModel(d['n'], [tuple(e) for e in d['edges']], set(native),
                         d['model_radixes'])
    want = O.judge_executable(
        O.flat_ops(c), c.num_qudits, d['circuit_radixes'], d['n'],
        d['model_radixes'], d['edges'], native, placement=d['placement'],
        exact_width=False)['ok']
    try:
        got: Any = bool(model.is_compatible(c, d['placement']))
    except Exception as e:  # noqa
        got = f'raised {type(e).__name__}'
    print(f'is_compatible={got} independent={want}')
    return got == want


# ===================================================================== run
def run(ctx: Ctx) -> None:
    cases = enumerate_cases(ctx)
    ctx.assumptions += [
        'placeholders (measurement, barrier, reset) are set aside as the '
        'statement says; is_compatible is asked about the output with them '
        'stripped',
        'compile(model=None) is judged against the documented default model '
        '(all-to-all CNOT+U3, or CSUM+VariableUnitary for qudits)',
        'part B compares is_compatible(circuit, placement) with the '
        'placement form of condition 1 (fits + radixes match where placed)',
    ]
    ctx.cov['space'] = {
        'compile_cases': len(cases),
        'from_C01': sum(1 for c in cases if c['input']['kind'] == 'circuit'),
        'from_C03': sum(1 for c in cases if c['input']['kind'] != 'circuit'),
        'connected_graphs_on_4_vertices': len(K.connected_graphs(4)),
    }
    for c in cases[:: max(1, len(cases) // 4)][:4]:
        ctx.sample(D.short(c))

    # ---- part B first (cheap, bounded)
    tot = {'pairs': 0, 'nontrivial': 0, 'true': 0, 'false': 0, 'raised': 0}
    dis: list = []
    for r in pmap(_b_chunk, _b_items(ctx), procs=ctx.procs):
        for k in tot:
            tot[k] += r[k]
        dis += r['disagree']
    ctx.part('is_compatible_enumeration', **tot, disagreements=len(dis))
    ctx.outcomes['B:independent-true'] += tot['true']
    ctx.outcomes['B:independent-false'] += tot['false']
    for d in sorted(dis, key=lambda d: (len(d['ops']), d['n'],
                                        len(d['edges']), str(d))):
        ctx.violation(
            _b_signature(d),
            f'is_compatible={d["is_compatible"]} but independent check says '
            f'{d["independent"]} for ops {d["ops"]} (radixes '
            f'{d["circuit_radixes"]}) on a {d["n"]}-qudit model radixes '
            f'{d["model_radixes"]} edges {d["edges"]} gates {d["gates"]} '
            f'placement {d["placement"]}', {'part': 'B', 'pair': d},
        )
    ctx.sample({'part': 'B', 'example_item': '(n=3, radixes [2,2,3], '
                'gate set CZ+U3+T): every circuit x labelled graph x '
                'placement'})

    # ---- part A
    D.explore(ctx, cases, judge, (80 if ctx.quick else 2400), rule=RULE)
    ctx.cov['evaluations'] += tot['pairs']
    ctx.cov['distinct_nontrivial'] += tot['nontrivial']
    ctx.cov['compile_evaluations'] = ctx.cov['evaluations'] - tot['pairs']


def replay(ctx: Ctx, obj: dict) -> bool:
    if obj.get('part') == 'B':
        return replay_b(obj['pair'])
    return D.replay_case(ctx, obj, judge)
