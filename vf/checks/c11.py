"""C11 -- block-wise and control-flow passes apply bodies exactly as specified.

Two bounded-exhaustive explorations, both on the real passes running on the
in-process loop-back worker (vf/loopback.py):

control   every term of nesting <= 2 over Workflow | IfThenElse | While |
          DoWhile | DoThenDecide | ParallelDo with logging bodies that change
          the circuit and every PassData field, under every scripted
          predicate outcome sequence of length <= L (3 quick, 4 thorough).
          Oracle: a reference interpreter of the term language written here
          (plain dict state, numpy only) -- the invocation trace, the state
          every body / predicate is shown and the final state must equal the
          interpreter's.
foreach   ForEachBlockPass on every tagged circuit of a small scope
          partitioned by QuickPartitioner(2|3) plus hand-built block layouts,
          x collection filters x replace filters x body behaviours x
          calculate_error_bound.  Oracle: body invoked once per collected
          operation with its content and induced sub-model; output grid equals
          the input grid with exactly the accepted results substituted, cell
          by cell; flattened per-qudit timelines and the unitary (own numpy
          product) equal the reference; error >= D - 2 D^2.
"""
from __future__ import annotations

import copy
import itertools
from typing import Any

import numpy as np

from vf.common import Ctx
from vf.common import pmap

LEVEL = 'exploration'

KIND_NAME = {
    'wf': 'workflow', 'if': 'ifthenelse', 'while': 'whileloop',
    'dowhile': 'dowhileloop', 'dtd': 'dothendecide', 'par': 'paralleldo',
    'body': 'body',
}


# ======================================================================
#                              control part
# ======================================================================
def d1_terms() -> list:
    """Depth-1 constructs; bodies are placeholders renumbered later."""
    b = ['body', 0]
    return [
        ['wf', [b, b]],
        ['if', 'p', b, b],
        ['if', 'p', b, None],
        ['while', 'p', b],
        ['dowhile', 'p', b],
        ['dtd', 'p', b],
        ['par', 'p', [b, b], False],
    ]


def renumber(term: list) -> list:
    """Give every body a unique k and every predicate a unique pid (DFS)."""
    ctr = {'b': 0, 'p': 0}

    def go(t: Any) -> Any:
        if t is None:
            return None
        k = t[0]
        if k == 'body':
            ctr['b'] += 1
            return ['body', ctr['b'] - 1]
        if k == 'wf':
            return ['wf', [go(x) for x in t[1]]]
        ctr['p'] += 1
        pid = 'p%d' % (ctr['p'] - 1)
        if k == 'if':
            return ['if', pid, go(t[2]), go(t[3])]
        if k in ('while', 'dowhile', 'dtd'):
            return [k, pid, go(t[2])]
        if k == 'par':
            return ['par', pid, [go(x) for x in t[2]], bool(t[3])]
        raise ValueError(k)
    return go(copy.deepcopy(term))


def all_terms(thorough: bool) -> list:
    """Every term of nesting <= 2, simplest first."""
    b = ['body', 0]
    slot = [b] + d1_terms()
    out: list = []
    seen = set()

    def add(t: list) -> None:
        t = renumber(t)
        key = repr(t)
        if key not in seen:
            seen.add(key)
            out.append(t)

    add(b)
    for t in d1_terms():
        add(t)
    for x in slot:
        add(['while', 'p', x])
        add(['dowhile', 'p', x])
        add(['dtd', 'p', x])
        add(['if', 'p', x, None])
    for x, y in itertools.product(slot, slot):
        add(['wf', [x, y]])
        add(['if', 'p', x, y])
        add(['par', 'p', [x, y], False])
    # pick_first (next + cancel), outermost only
    for x, y in itertools.product(slot, slot):
        add(['par', 'p', [x, y], True])
    if thorough:
        for x, y, z in itertools.product(slot, slot, slot):
            add(['wf', [x, y, z]])
            add(['par', 'p', [x, y, z], False])
    return out


def ids_of(t: Any) -> set:
    if t is None:
        return set()
    k = t[0]
    if k == 'body':
        return {'b%d' % t[1]}
    if k == 'wf':
        return set().union(*[ids_of(x) for x in t[1]])
    if k == 'if':
        return {t[1]} | ids_of(t[2]) | ids_of(t[3])
    if k in ('while', 'dowhile', 'dtd'):
        return {t[1]} | ids_of(t[2])
    if k == 'par':
        return {t[1]}.union(*[ids_of(x) for x in t[2]])
    raise ValueError(k)


def owners(t: Any, parent: str = 'top', out: dict | None = None) -> dict:
    """id -> kind of the construct that invokes it."""
    out = {} if out is None else out
    if t is None:
        return out
    k = t[0]
    if k == 'body':
        out['b%d' % t[1]] = parent
    elif k == 'wf':
        for x in t[1]:
            owners(x, 'workflow' if parent == 'top' else parent, out)
    elif k == 'if':
        out[t[1]] = 'ifthenelse'
        owners(t[2], 'ifthenelse', out)
        owners(t[3], 'ifthenelse', out)
    elif k in ('while', 'dowhile', 'dtd'):
        out[t[1]] = KIND_NAME[k]
        owners(t[2], KIND_NAME[k], out)
    elif k == 'par':
        out[t[1]] = 'paralleldo'
        for x in t[2]:
            owners(x, 'paralleldo', out)
    return out


def depth(t: Any) -> int:
    if t is None or t[0] == 'body':
        return 0
    k = t[0]
    if k == 'wf':
        return 1 + max(depth(x) for x in t[1])
    if k == 'if':
        return 1 + max(depth(t[2]), depth(t[3]))
    if k == 'par':
        return 1 + max(depth(x) for x in t[2])
    return 1 + depth(t[2])


class Script:
    def __init__(self, scripts: dict, bound: int) -> None:
        self.s = scripts
        self.pos: dict = {}
        self.bound = bound
        self.first_exhausted: str | None = None
        self.calls = 0

    def ask(self, pid: str) -> bool:
        self.calls += 1
        i = self.pos.get(pid, 0)
        self.pos[pid] = i + 1
        s = self.s.get(pid, ())
        if i < len(s):
            return bool(s[i])
        if self.first_exhausted is None and len(s) < self.bound:
            self.first_exhausted = pid
        return False


_RZ_KEY: dict = {}


def effect(k: int, st: dict) -> None:
    """What Touch(k) does, on the interpreter's plain state."""
    from vf.c11_passes import model_digest, opkey, rz_on_qudit0
    from bqskit.compiler.machine import MachineModel
    from bqskit.ir.gates import RZGate
    from bqskit.ir.operation import Operation
    n = len(st['radixes'])
    theta = 0.25 * (k + 1)
    st['ops'][k % n].append(opkey(Operation(RZGate(), k % n, [theta])))
    st['user'].setdefault('marks', {'seq': []})['seq'].append(k)
    st['user']['key%d' % k] = {'n': [k, {'deep': [k, 'x']}]}
    im = st['initial_mapping']
    st['initial_mapping'] = [x + 1 for x in im[1:] + im[:1]]
    fm = st['final_mapping']
    st['final_mapping'] = [x + 2 for x in [fm[1], fm[0]] + fm[2:]]
    st['placement'] = [x + 1 for x in reversed(st['placement'])]
    st['error'] = st['error'] + 0.125
    st['seed'] = (st['seed'] or 0) + k + 1
    m = st['model']['n'] + 1
    if m not in _RZ_KEY:
        _RZ_KEY[m] = model_digest(
            MachineModel(m, [(i, i + 1) for i in range(m - 1)]),
        )
    st['model'] = copy.deepcopy(_RZ_KEY[m])
    st['target'] = (rz_on_qudit0(theta, n) @ np.asarray(st['target'])).tolist()
    # keep dict key order canonical (observe() sorts user keys)
    st['user'] = {kk: st['user'][kk] for kk in sorted(st['user'], key=str)}


def snap(st: dict) -> dict:
    return copy.deepcopy(st)


def interp(t: Any, st: dict, tr: list, S: Script) -> None:
    """The reference interpreter: what the term must do."""
    k = t[0]
    if k == 'body':
        tr.append(['body', 'b%d' % t[1], snap(st)])
        effect(t[1], st)
    elif k == 'wf':
        for x in t[1]:
            interp(x, st, tr, S)
    elif k == 'if':
        a = S.ask(t[1])
        tr.append(['pred', t[1], a, snap(st)])
        if a:
            interp(t[2], st, tr, S)
        elif t[3] is not None:
            interp(t[3], st, tr, S)
    elif k == 'while':
        while True:
            a = S.ask(t[1])
            tr.append(['pred', t[1], a, snap(st)])
            if not a:
                break
            interp(t[2], st, tr, S)
    elif k == 'dowhile':
        interp(t[2], st, tr, S)
        while True:
            a = S.ask(t[1])
            tr.append(['pred', t[1], a, snap(st)])
            if not a:
                break
            interp(t[2], st, tr, S)
    elif k == 'dtd':
        old = snap(st)
        interp(t[2], st, tr, S)
        a = S.ask(t[1])
        tr.append(['cond', t[1], a, snap(old['ops']), snap(st['ops'])])
        if not a:
            st.clear()
            st.update(old)
            tr.append(['ctl', 'dtd-reject', None])
    elif k == 'par':
        before = snap(st)
        results, btr = [], []
        for x in t[2]:
            s = snap(st)
            sub: list = []
            interp(x, s, sub, S)
            results.append(s)
            btr.append(sub)
        idsets = [sorted(ids_of(x)) for x in t[2]]
        if t[3]:
            tr.append(['parfirst', t[1], btr, idsets, results])
            # continuation is schedule dependent: judged by the matcher
            return
        tr.append(['par', t[1], btr, idsets])
        best = 0
        for i in range(1, len(results)):
            a = S.ask(t[1])
            tr.append([
                'lt', t[1], a, snap(results[i]['ops']),
                snap(results[best]['ops']),
            ])
            if a:
                best = i
        st.clear()
        st.update(snap(results[best]))
        tr.append(['ctl', 'par-select', {
            'before': before,
            'losers': [r for i, r in enumerate(results) if i != best],
        }])
    else:
        raise ValueError(k)


def flat_count(tr: list) -> int:
    n = 0
    for e in tr:
        if e[0] == 'ctl':
            continue
        if e[0] in ('par', 'parfirst'):
            n += sum(flat_count(b) for b in e[2])
        else:
            n += 1
    return n


FIELDS = [
    'ops', 'radixes', 'target', 'error', 'model', 'placement',
    'initial_mapping', 'final_mapping', 'seed', 'user',
]


def diff_obs(exp: dict, act: dict) -> list:
    out = []
    for f in sorted(set(exp) | set(act)):
        if f not in exp or f not in act:
            out.append(f)
            continue
        e, a = exp[f], act[f]
        if f == 'target':
            ea, aa = np.asarray(e), np.asarray(a)
            if ea.shape != aa.shape or not np.allclose(ea, aa, atol=1e-9):
                out.append(f)
        elif f == 'error':
            if abs(e - a) > 1e-12:
                out.append(f)
        elif e != a:
            out.append(f)
    return out


def field_eq(f: str, x: Any, y: Any) -> bool:
    return not diff_obs({f: x}, {f: y})


def fields_name(fs: list) -> str:
    if set(fs) == {'initial_mapping', 'final_mapping'}:
        return 'mappings'
    return '+'.join('circuit' if f == 'ops' else f for f in fs)


def match(exp: list, act: list, own: dict, last_ctl: Any = None) -> tuple:
    """Compare a structured expected trace with a flat actual one.
    Returns (mismatch | None, events consumed, final-candidates | None).
    `last_ctl`: the last state-restoring / selecting step before this
    stretch of the trace (used to name the cause of a state mismatch)."""
    pos = 0
    for e in exp:
        if e[0] == 'ctl':
            last_ctl = e
            continue
        if e[0] == 'par':
            total = sum(flat_count(b) for b in e[2])
            seg = act[pos:pos + total]
            pos += len(seg)
            if len(seg) < total:
                return ({'kind': 'structure', 'owner': 'paralleldo',
                         'detail': 'missing-invocations'}, pos, None)
            got = 0
            for btr, ids in zip(e[2], e[3]):
                proj = [a for a in seg if a[1] in ids]
                got += len(proj)
                m, used, _ = match(btr, proj, own, last_ctl)
                if m is None and used != len(proj):
                    m = {'kind': 'structure', 'owner': 'paralleldo',
                         'detail': 'extra-invocations'}
                if m is not None:
                    return (m, pos, None)
            if got != total:
                return ({'kind': 'structure', 'owner': 'paralleldo',
                         'detail': 'foreign-invocation-inside'}, pos, None)
            continue
        if e[0] == 'parfirst':
            # next()+cancel: branches may be cut short; at least one is
            # complete; the result is that of a complete branch.
            allids = set().union(*[set(i) for i in e[3]]) | {e[1]}
            seg = []
            while pos < len(act) and act[pos][1] in allids:
                seg.append(act[pos])
                pos += 1
            complete = []
            for bi, (btr, ids) in enumerate(zip(e[2], e[3])):
                proj = [a for a in seg if a[1] in ids]
                need = flat_count(btr)
                if len(proj) > need:
                    return ({'kind': 'structure', 'owner': 'paralleldo',
                             'detail': 'extra-invocations'}, pos, None)
                pref = _prefix(btr, len(proj))
                m, used, _ = match(pref, proj, own, last_ctl)
                if m is not None:
                    return (m, pos, None)
                if len(proj) == need:
                    complete.append(bi)
            for a in seg:
                if a[0] == 'lt' and a[1] == e[1] and a[2] is not False:
                    return ({'kind': 'structure', 'owner': 'paralleldo',
                             'detail': 'less-than-answer'}, pos, None)
            if not complete:
                return ({'kind': 'structure', 'owner': 'paralleldo',
                         'detail': 'pick-first-no-branch-completed'},
                        pos, None)
            return (None, pos, [e[4][bi] for bi in complete])
        if pos >= len(act):
            return ({'kind': 'structure', 'owner': own.get(e[1], 'top'),
                     'detail': 'missing-invocation', 'exp': e[:3],
                     'act': None}, pos, None)
        a = act[pos]
        pos += 1
        if a[0] != e[0] or a[1] != e[1]:
            return ({'kind': 'structure', 'owner': own.get(e[1], 'top'),
                     'detail': 'wrong-invocation', 'exp': e[:2],
                     'act': a[:2]}, pos, None)
        if e[0] in ('pred', 'cond', 'lt') and a[2] != e[2]:
            return ({'kind': 'structure', 'owner': own.get(e[1], 'top'),
                     'detail': 'answer', 'exp': e[:3], 'act': a[:3]},
                    pos, None)
        if e[0] in ('body', 'pred', 'end'):
            eo, ao = e[-1], a[-1]
            d = diff_obs(eo, ao)
            if d:
                return ({'kind': 'obs', 'fields': d, 'cause': last_ctl,
                         'event': e[0], 'owner': own.get(e[1], 'top'),
                         'exp': {f: eo.get(f) for f in d},
                         'act': {f: ao.get(f) for f in d}}, pos, None)
        else:
            if a[3] != e[3] or a[4] != e[4]:
                return ({'kind': 'obs', 'fields': ['ops'],
                         'cause': last_ctl, 'event': e[0],
                         'owner': own.get(e[1], 'top'),
                         'exp': {'ops': [e[3], e[4]]},
                         'act': {'ops': [a[3], a[4]]}}, pos, None)
    return (None, pos, None)


def _prefix(tr: list, n: int) -> list:
    """The first n flat events of a structured trace (ctl dropped)."""
    out: list = []
    for e in tr:
        if n <= 0:
            break
        if e[0] == 'ctl':
            continue
        if e[0] in ('par', 'parfirst'):
            # nested parallel section: keep whole if it fits, else cut here
            c = sum(flat_count(b) for b in e[2])
            if c <= n:
                out.append(e)
                n -= c
            else:
                break
        else:
            out.append(e)
            n -= 1
    return out


def signature_of(m: dict) -> str:
    if m['kind'] == 'structure':
        return 'trace-%s-%s' % (m['owner'], m['detail'])
    fs = fields_name(m['fields'])
    cause = m['cause']
    if cause is None:
        return 'state-shown-to-%s-of-%s-differs-%s' % (
            m['event'], m['owner'], fs,
        )
    if cause[1] == 'dtd-reject':
        return 'dothendecide-rejected-branch-%s-changed' % fs
    if cause[1] == 'dtd-accept':
        return 'dothendecide-accepted-branch-%s-differ' % fs
    if cause[1] == 'par-select':
        info = cause[2]
        cls = set()
        for f in m['fields']:
            a = m['act'][f]
            if field_eq(f, a, info['before'].get(f)):
                cls.add('dropped')
            elif any(field_eq(f, a, lo.get(f)) for lo in info['losers']):
                cls.add('taken-from-losing-branch')
            else:
                cls.add('corrupt')
        return 'paralleldo-selected-branch-%s-%s' % (fs, '+'.join(sorted(cls)))
    return 'state-after-%s-differs-%s' % (cause[1], fs)


_CTL_INIT: dict = {}


def control_initial() -> tuple:
    """(circuit, data dict) every control run starts from."""
    from bqskit.ir.circuit import Circuit
    from bqskit.ir.gates import CNOTGate, RXGate
    c = Circuit(3)
    c.append_gate(CNOTGate(), (0, 1))
    c.append_gate(RXGate(), 2, [0.5])
    d = {
        'initial_mapping': [1, 2, 0], 'final_mapping': [2, 0, 1],
        'placement': [0, 2, 1], 'seed': 5,
        'u0': {'a': [1, 2, {'b': 3}]},
    }
    return c, d


def run_control_case(term: list, scripts: dict, bound: int) -> dict:
    """One (term, scripts) case on the real passes; judged against interp."""
    from vf import c11_passes as P
    from vf.loopback import run_workflow, TaskError
    from bqskit.compiler.passdata import PassData
    circ, d0 = control_initial()
    # expected
    pd = PassData(circ)
    pd.update(copy.deepcopy(d0))
    st0 = P.observe(circ, pd)
    st = snap(st0)
    exp: list = []
    S = Script(scripts, bound)
    interp(term, st, exp, S)
    pick_first = exp and exp[-1][0] == 'parfirst'
    if not pick_first:
        exp.append(['end', 'END', snap(st)])
    # actual
    P.reset(scripts)
    wf = [P.build(term)]
    try:
        out, data = run_workflow(circ.copy(), wf, data=copy.deepcopy(d0))
    except TaskError as e:
        return {'sig': 'control-pass-raised-' + KIND_NAME[term[0]],
                'what': 'workflow raised: %s' % str(e)[-400:],
                'calls': S.calls}
    # anything else (e.g. LoopbackDeadlock) is trouble of the harness and
    # propagates as a harness error, never as a verdict
    act = [list(e) for e in P.TRACE]
    final = P.observe(out, data)
    own = owners(term)
    if not pick_first:
        act.append(['end', 'END', final])
    m, used, cands = match(exp, act, own)
    if m is None and used != len(act):
        a = act[used]
        m = {'kind': 'structure', 'owner': own.get(a[1], 'top'),
             'detail': 'extra-invocation', 'exp': None, 'act': a[:2]}
    if m is None and pick_first:
        ok = any(not diff_obs(c, final) for c in (cands or []))
        if not ok:
            d = diff_obs(cands[0], final) if cands else ['ops']
            m = {'kind': 'obs', 'fields': d,
                 'cause': ['ctl', 'par-select', {
                     'before': st0,
                     'losers': [],
                 }], 'event': 'end', 'owner': 'paralleldo',
                 'exp': {f: cands[0].get(f) for f in d} if cands else {},
                 'act': {f: final.get(f) for f in d}}
    res: dict = {'calls': S.calls, 'events': len(act)}
    if m is not None:
        sig = signature_of(m)
        if pick_first and m['kind'] == 'structure':
            sig = sig.replace('paralleldo-', 'paralleldo-pickfirst-', 1)
        res['sig'] = sig
        small = {k: v for k, v in m.items() if k not in ('cause',)}
        for side in ('exp', 'act'):
            if isinstance(small.get(side), dict):
                small[side] = {
                    k: (v if k != 'target' else '<matrix>')
                    for k, v in small[side].items()
                }
        res['what'] = 'term %s scripts %s: %s' % (term, scripts, small)
    return res


def control_worker(item: tuple) -> dict:
    term, bound = item
    out = {'runs': 0, 'nontrivial': 0, 'viol': [], 'outcomes': {},
           'maxcalls': 0, 'scripts': 0, 'sample': None}
    stack = [{}]
    while stack:
        scripts = stack.pop()
        # does the interpreter exhaust a script inside the bound?
        circ_st = _probe_state()
        S = Script(scripts, bound)
        interp(term, snap(circ_st), [], S)
        if S.first_exhausted is not None:
            p = S.first_exhausted
            cur = tuple(scripts.get(p, ()))
            for ans in (True, False):
                s2 = dict(scripts)
                s2[p] = list(cur + (ans,))
                stack.append(s2)
            continue
        r = run_control_case(term, scripts, bound)
        out['runs'] += 1
        out['scripts'] += 1
        out['maxcalls'] = max(out['maxcalls'], r.get('calls', 0))
        if r.get('calls', 0) > 0:
            out['nontrivial'] += 1
        key = r.get('sig', 'ok')
        out['outcomes'][key] = out['outcomes'].get(key, 0) + 1
        if 'sig' in r:
            out['viol'].append((
                r['sig'], r['what'],
                {'part': 'control', 'term': term, 'scripts': scripts,
                 'bound': bound},
                (depth(term), len(repr(term)), len(repr(scripts))),
            ))
        elif out['sample'] is None and r.get('calls', 0) >= 2:
            out['sample'] = {'term': term, 'scripts': scripts,
                             'events': r.get('events')}
    return out


_PROBE: dict = {}


def _probe_state() -> dict:
    if 's' not in _PROBE:
        from vf import c11_passes as P
        from bqskit.compiler.passdata import PassData
        circ, d0 = control_initial()
        pd = PassData(circ)
        pd.update(copy.deepcopy(d0))
        _PROBE['s'] = P.observe(circ, pd)
    return _PROBE['s']


# ======================================================================
#                              foreach part
# ======================================================================
TAG0 = 0.37
TAGSTEP = 0.0625

BODIES = [
    'identity', 'tounitary', 'grow', 'poplast', 'empty', 'perturb3',
    'perturb6', 'perturball3', 'mixed', 'raise',
]


def _mk_gate(width: int, radixes: tuple) -> Any:
    from bqskit.ir.gates import ControlledGate, RXGate, RZGate, RZZGate
    from bqskit.ir.gates import U8Gate
    if all(r == 2 for r in radixes):
        if width == 1:
            return RXGate()
        if width == 2:
            return RZZGate()
        return ControlledGate(RZGate(), width - 1)
    if width == 1:
        return U8Gate() if radixes[0] == 3 else RXGate()
    # controlled on the leading qudits, target the last
    tgt = U8Gate() if radixes[-1] == 3 else RZGate()
    return ControlledGate(tgt, width - 1, list(radixes[:-1]))


def _cu_matrix(radixes: tuple, tag: float) -> np.ndarray:
    """A deterministic non-trivial unitary on the given radixes."""
    dim = int(np.prod(radixes))
    h = np.zeros((dim, dim), dtype=complex)
    for i in range(dim):
        for j in range(dim):
            h[i, j] = np.cos(1.0 + i * 1.3 + j * 0.7 + tag) + \
                1j * np.sin(0.3 + i * 0.9 - j * 1.1 + tag)
    h = h + h.conj().T
    w, v = np.linalg.eigh(h)
    return v @ np.diag(np.exp(1j * w)) @ v.conj().T


class _Tagger:
    def __init__(self) -> None:
        self.i = 0

    def next(self) -> float:
        self.i += 1
        return TAG0 + (self.i - 1) * TAGSTEP


def _append_spec(c: Any, ops: list, tg: _Tagger) -> None:
    from bqskit.ir.circuit import Circuit
    from bqskit.ir.gates import CircuitGate, ConstantUnitaryGate
    from bqskit.ir.gates import VariableUnitaryGate
    for op in ops:
        k = op[0]
        if k == 'g':
            loc = [int(q) for q in op[1:]]
            rad = tuple(c.radixes[q] for q in loc)
            g = _mk_gate(len(loc), rad)
            c.append_gate(g, loc, [tg.next() * (j + 1) * 0.5
                                   for j in range(g.num_params)])
        elif k == 'blk':
            loc = [int(q) for q in op[1]]
            rad = [c.radixes[q] for q in loc]
            sub = Circuit(len(loc), rad)
            _append_spec(sub, op[2], tg)
            c.append_gate(CircuitGate(sub), loc, sub.params)
        elif k == 'cu':
            loc = [int(q) for q in op[1:]]
            rad = tuple(c.radixes[q] for q in loc)
            c.append_gate(
                ConstantUnitaryGate(_cu_matrix(rad, tg.next()), rad), loc,
            )
        elif k == 'vu':
            loc = [int(q) for q in op[1:]]
            rad = tuple(c.radixes[q] for q in loc)
            u = _cu_matrix(rad, tg.next())
            g = VariableUnitaryGate(len(loc), rad)
            c.append_gate(g, loc, list(np.real(u).ravel())
                          + list(np.imag(u).ravel()))
        else:
            raise ValueError(k)


def build_input(spec: dict) -> Any:
    """Rebuild a foreach input from its JSON spec."""
    from bqskit.ir.circuit import Circuit
    from bqskit.passes import QuickPartitioner
    from vf.loopback import run_workflow
    tg = _Tagger()
    c = Circuit(len(spec['radixes']), spec['radixes'])
    _append_spec(c, spec.get('pre', []), tg)
    if spec.get('base'):
        b = Circuit(len(spec['radixes']), spec['radixes'])
        _append_spec(b, spec['base'], tg)
        if spec.get('partition'):
            b, _ = run_workflow(b, [QuickPartitioner(int(spec['partition']))])
        c.append_circuit(b, list(range(c.num_qudits)))
    _append_spec(c, spec.get('ops', []), tg)
    return c


def grid_of(c: Any) -> dict:
    """(cycle, location tuple) -> operation, read cell by cell."""
    g: dict = {}
    for cy in range(c.num_cycles):
        for q in range(c.num_qudits):
            if c.is_point_idle((cy, q)):
                continue
            op = c[cy, q]
            g[(cy, tuple(op.location))] = op
    return g


def flatten(c: Any) -> list:
    """Leaf operations (gate, global location, params) in program order,
    expanding CircuitGates ourselves."""
    from bqskit.ir.gates import CircuitGate
    out: list = []

    def go(circ: Any, params_of: Any, locmap: list) -> None:
        for op in circ:
            loc = [locmap[q] for q in op.location]
            if isinstance(op.gate, CircuitGate):
                inner = op.gate._circuit
                ps = list(op.params)
                idx = 0
                sub = []
                for iop in inner:
                    npar = iop.gate.num_params
                    sub.append((iop, ps[idx:idx + npar]))
                    idx += npar
                go_list(sub, loc)
            else:
                out.append((op.gate, tuple(loc), tuple(op.params)))

    def go_list(pairs: list, locmap: list) -> None:
        for iop, ps in pairs:
            loc = [locmap[q] for q in iop.location]
            if isinstance(iop.gate, CircuitGate):
                inner = iop.gate._circuit
                idx = 0
                sub = []
                for jop in inner:
                    npar = jop.gate.num_params
                    sub.append((jop, list(ps[idx:idx + npar])))
                    idx += npar
                go_list(sub, loc)
            else:
                out.append((iop.gate, tuple(loc), tuple(ps)))

    go(c, None, list(range(c.num_qudits)))
    return out


def timelines(flat: list, n: int) -> list:
    from vf.c11_passes import opkey
    from bqskit.ir.operation import Operation
    tl: list = [[] for _ in range(n)]
    for g, loc, ps in flat:
        key = opkey(Operation(g, list(range(len(loc))), list(ps)))
        key[1] = list(loc)
        for q in loc:
            tl[q].append(key)
    return tl


def unitary_of(flat: list, radixes: tuple) -> np.ndarray:
    """Product of the leaf operations, by explicit tensor contraction."""
    n = len(radixes)
    dim = int(np.prod(radixes))
    u = np.eye(dim, dtype=complex).reshape(tuple(radixes) + (dim,))
    for g, loc, ps in flat:
        m = np.asarray(g.get_unitary(list(ps)).numpy)
        k = len(loc)
        rl = [radixes[q] for q in loc]
        m = m.reshape(rl + rl)
        u = np.tensordot(m, u, axes=(list(range(k, 2 * k)), list(loc)))
        # tensordot puts the k new axes first: move them back
        u = np.moveaxis(u, list(range(k)), list(loc))
    return u.reshape(dim, dim)


def models_for(variant: str, n: int, radixes: list) -> dict | None:
    """PassData overrides for a model variant."""
    from bqskit.compiler.machine import MachineModel
    from bqskit.ir.gates import CNOTGate, RXGate, RZZGate, U3Gate
    if variant == 'default':
        return None
    if any(r != 2 for r in radixes):
        return None
    if variant == 'line':
        m = MachineModel(
            n + 1, [(i, i + 1) for i in range(n)],
            [RZZGate(), RXGate(), U3Gate()],
        )
        pl = [(i * 2 + 1) % (n + 1) for i in range(n)]
        if len(set(pl)) != n:
            pl = list(range(n, 0, -1))
        return {'model': m, 'placement': pl, 'seed': 11}
    if variant == 'star':
        m = MachineModel(
            n, [(0, i) for i in range(1, n)], [CNOTGate(), U3Gate()],
        )
        return {'model': m, 'placement': list(reversed(range(n)))}
    raise ValueError(variant)


def run_foreach_case(spec: dict, cfg: dict, circ: Any = None) -> dict:
    """One ForEachBlockPass run judged against the reference."""
    from vf import c11_passes as P
    from vf.loopback import run_workflow, TaskError
    from bqskit.ir.circuit import Circuit
    from bqskit.ir.gates import CircuitGate
    from bqskit.ir.operation import Operation
    from bqskit.compiler.passdata import PassData
    from bqskit.passes.control.foreach import gen_replace_filter
    kind, ceb, cf, rf, mv = (
        cfg['body'], cfg['ceb'], cfg['cf'], cfg['rf'], cfg['model'],
    )
    C = circ if circ is not None else build_input(spec)
    n = C.num_qudits
    dd = models_for(mv, n, list(C.radixes))
    if mv != 'default' and dd is None:
        return {'skip': True}
    # PassData's default model (whatever it is) when none is given
    model = dd['model'] if dd else PassData(C).model
    placement = dd['placement'] if dd else list(range(n))
    seed = dd.get('seed') if dd else None
    tagname = 'foreach-%s' % kind

    def V(sig: str, what: str) -> dict:
        return {'sig': sig, 'what': '%s | input %s cfg %s' % (
            what, spec, cfg)}

    # ---- run the real pass
    P.reset()
    fe = P.build_foreach(kind, ceb, cf, rf)
    err = None
    try:
        out, data = run_workflow(C.copy(), [fe], data=dd)
    except TaskError as e:
        err = str(e)
    trace = [list(e) for e in P.TRACE]

    # ---- reference: which operations are collected
    G = grid_of(C)
    order = sorted(G, key=lambda k: (k[0], min(k[1])))
    if cf == 'default':
        chosen = [k for k in order if P.is_default_collected(G[k])]
    elif cf == 'width2':
        chosen = [k for k in order if G[k].num_qudits == 2]
    elif cf == 'all':
        chosen = list(order)
    else:  # parity: the filter's own answers are the specification
        keys = [P.opkey(G[k]) for k in order]
        if any(keys.count(x) > 1 for x in keys):
            return {'skip': True}
        said = [e for e in trace if e[0] == 'cf']
        if sorted(map(repr, (e[1] for e in said))) != \
                sorted(map(repr, keys)):
            return V(
                'foreach-collection-filter-not-shown-every-operation-once',
                'filter was shown %d operations, circuit has %d'
                % (len(said), len(keys)),
            )
        yes = [repr(e[1]) for e in said if e[2]]
        chosen = [k for k in order if repr(P.opkey(G[k])) in yes]

    # ---- reference: content, sub-model, result, acceptance
    exp_calls = []
    results = {}
    for k in chosen:
        op = G[k]
        loc = list(op.location)
        if isinstance(op.gate, CircuitGate):
            sub = op.gate._circuit.copy()
            sub.set_params(op.params)
        else:
            sub = Circuit(len(loc), [C.radixes[q] for q in loc])
            sub.append_gate(op.gate, list(range(len(loc))), op.params)
        edges = sorted(
            sorted([i, j]) for i in range(len(loc)) for j in range(i)
            if (placement[loc[i]], placement[loc[j]]) in model.coupling_graph
            or (placement[loc[j]], placement[loc[i]]) in model.coupling_graph
        )
        exp_calls.append([
            'block', [k[0], loc[0]], P.circ_ops(sub),
            [int(C.radixes[q]) for q in loc],
            {'n': len(loc), 'radixes': [int(C.radixes[q]) for q in loc],
             'edges': edges, 'gates': sorted(g.name for g in model.gate_set)},
            sorted([int(q), i] for i, q in enumerate(loc)),
            seed,
        ])
        if kind != 'raise':
            P.apply_kind(kind, sub)
            results[k] = sub

    got_calls = [e for e in trace if e[0] == 'block']
    ek = sorted(repr(e) for e in exp_calls)
    gk = sorted(repr(e) for e in got_calls)
    if kind == 'raise':
        # the first failure ends the pass: the other blocks may or may not
        # have been started; those that were must be the right ones
        rest = list(ek)
        ok = bool(gk) == bool(ek)
        for g in gk:
            if g in rest:
                rest.remove(g)
            else:
                ok = False
    else:
        ok = ek == gk
    if not ok:
        # which clause?
        e_pts = sorted(repr(e[1]) for e in exp_calls)
        g_pts = sorted(repr(e[1]) for e in got_calls)
        if e_pts != g_pts:
            sig = 'foreach-body-not-invoked-once-per-collected-operation'
        elif sorted(repr(e[2]) for e in exp_calls) != \
                sorted(repr(e[2]) for e in got_calls):
            sig = 'foreach-body-given-wrong-block-content'
        elif sorted(repr(e[4]) for e in exp_calls) != \
                sorted(repr(e[4]) for e in got_calls) or \
                sorted(repr(e[3]) for e in exp_calls) != \
                sorted(repr(e[3]) for e in got_calls):
            sig = 'foreach-body-given-wrong-submodel'
        elif sorted(repr(e[5]) for e in exp_calls) != \
                sorted(repr(e[5]) for e in got_calls):
            sig = 'foreach-body-given-wrong-subnumbering'
        else:
            sig = 'foreach-body-given-wrong-seed'
        firstbad = next((e for e in exp_calls if repr(e) not in gk), None)
        return V(sig, 'expected invocation %s; got %s' % (
            firstbad, [g for g in got_calls
                       if firstbad and g[1] == firstbad[1]][:1]))

    if kind == 'raise':
        if chosen and err is None:
            return V('foreach-body-failure-swallowed',
                     'a raising body did not fail the pass')
        if err is not None and (not chosen or P.BODY_FAILURE not in err):
            return V('foreach-raised-' + _exc_name(err), err[-300:])
        if err is not None:
            return {'outcome': 'raise-propagated', 'blocks': len(chosen),
                    'replaced': 0}
        results = {}
    elif err is not None:
        return V('foreach-raised-%s-body-%s' % (_exc_name(err), kind),
                 err[-400:])

    # ---- acceptance
    if rf in P.REPLACE_FILTERS:
        def accept(res: Any, op: Any) -> bool:
            return {'fn-always': True, 'fn-never': False,
                    'fn-width2': op.num_qudits == 2}[rf]
    else:
        lib = gen_replace_filter(rf, model)

        def accept(res: Any, op: Any) -> bool:
            return bool(lib(res, op))
    EXP = dict(G)
    replaced = 0
    accepted = set()
    for k in chosen:
        if kind == 'raise':
            break
        if accept(results[k], G[k]):
            r = results[k]
            EXP[k] = Operation(CircuitGate(r, True), k[1], r.params)
            replaced += 1
            accepted.add(k)

    # ---- grid, cell by cell
    OUT = grid_of(out)
    if out.num_cycles != C.num_cycles or set(OUT) != set(EXP):
        return V(
            'foreach-output-layout-differs-body-%s' % kind,
            'cells expected %s, got %s' % (sorted(EXP), sorted(OUT)),
        )
    for k in sorted(EXP):
        if P.opkey(EXP[k]) != P.opkey(OUT[k]):
            if k in accepted and P.opkey(OUT[k]) == P.opkey(G[k]):
                sig = 'foreach-accepted-result-not-written-back'
            elif k in accepted:
                sig = 'foreach-written-back-result-differs-body-%s' % kind
            elif k in chosen:
                sig = 'foreach-rejected-result-written-back'
            else:
                sig = 'foreach-untouched-operation-changed'
            return V(sig, 'cell %s expected %s got %s' % (
                k, P.opkey(EXP[k]), P.opkey(OUT[k])))

    # ---- flattened timelines and unitary
    exp_flat: list = []
    for k in sorted(EXP, key=lambda k: (k[0], min(k[1]))):
        one = Circuit(n, C.radixes)
        one.append(EXP[k])
        exp_flat.extend(flatten(one))
    out_flat = flatten(out)
    if timelines(exp_flat, n) != timelines(out_flat, n):
        return V('foreach-timeline-differs-body-%s' % kind,
                 'per-qudit order of leaf operations differs')
    U_exp = unitary_of(exp_flat, tuple(C.radixes))
    U_out = np.asarray(out.get_unitary().numpy)
    if not np.allclose(U_exp, U_out, atol=1e-9):
        U_out = np.asarray(out.get_unitary().numpy)
        if not np.allclose(U_exp, U_out, atol=1e-9):
            return V('foreach-unitary-differs-body-%s' % kind,
                     'max deviation %.3g' % np.abs(U_exp - U_out).max())

    # ---- error bound
    D = None
    if ceb:
        U_in = C.get_unitary()
        D = float(out.get_unitary().get_distance_from(U_in))
        bound = D - 2 * D * D - 1e-7
        if not (float(data.error) >= bound):
            return V(
                'foreach-error-bound-below-actual-distance',
                'data.error=%r < D-2D^2 with D=%r (blocks %d, replaced %d)'
                % (float(data.error), D, len(chosen), replaced),
            )
    return {
        'outcome': 'ok', 'blocks': len(chosen), 'replaced': replaced,
        'untouched': len(G) - replaced,
        'err': None if not ceb else ('zero' if data.error == 0 else 'pos'),
        'D': D,
    }


def _exc_name(err: str) -> str:
    import re
    names = re.findall(r'(\w+(?:Error|Exception))\b', err or '')
    return names[-1] if names else 'error'


def cfgs_full(thorough: bool = True) -> list:
    from vf.c11_passes import STRING_METHODS
    out = []

    def add(body: str, ceb: bool, cf: str, rf: str, model: str) -> None:
        c = {'body': body, 'ceb': ceb, 'cf': cf, 'rf': rf, 'model': model}
        if c not in out:
            out.append(c)
    for b in BODIES:
        for ceb in (False, True):
            add(b, ceb, 'default', 'always', 'default')
    for cf in ('width2', 'all', 'parity'):
        for b in ('grow', 'perturb3'):
            add(b, True, cf, 'always', 'default')
    for rf in STRING_METHODS[1:] + ['fn-always', 'fn-never', 'fn-width2']:
        for b in (('tounitary', 'grow', 'poplast', 'identity') if thorough
                  else ('grow', 'poplast')):
            add(b, True, 'default', rf, 'default')
    add('mixed', True, 'all', 'fn-width2', 'default')
    add('grow', True, 'parity', 'fn-never', 'default')
    for mv in ('line', 'star'):
        for b in ('identity', 'grow'):
            for rf in ('always', 'less-than-respecting',
                       'less-than-respecting-fully'):
                add(b, True, 'default', rf, mv)
        add('perturb3', True, 'all', 'always', mv)
    return out


def cfgs_reduced() -> list:
    return [
        {'body': b, 'ceb': True, 'cf': 'default', 'rf': 'always',
         'model': 'default'}
        for b in ('grow', 'perturb3', 'tounitary')
    ] + [{'body': 'perturball3', 'ceb': True, 'cf': 'all', 'rf': 'always',
          'model': 'line'}]


def alphabet(n: int) -> list:
    a = [['g', q] for q in range(n)]
    a += [['g', p, q] for p in range(n) for q in range(n) if p != q]
    if n >= 3:
        a += [['g', 0, 1, 2], ['g', 2, 0, 1]]
    if n >= 4:
        a += [['g', 1, 3, 2]]
    return a


def handmade_inputs() -> list:
    """Block layouts a partitioner does not produce on its own."""
    b01 = ['blk', [0, 1], [['g', 0, 1], ['g', 0]]]
    b23 = ['blk', [2, 3], [['g', 1], ['g', 1, 0]]]
    b12 = ['blk', [1, 2], [['g', 0, 1], ['g', 1, 0]]]
    nested = ['blk', [0, 1, 2], [['blk', [0, 2], [['g', 0, 1]]], ['g', 1],
                                 ['g', 1, 2]]]
    rev = ['blk', [2, 0], [['g', 0, 1], ['g', 1]]]
    return [
        {'radixes': [2, 2, 2, 2], 'ops': [b01, b23, b12]},
        {'radixes': [2, 2, 2, 2], 'ops': [b12, b01, b23]},
        {'radixes': [2, 2, 2, 2], 'ops': [['g', 0], b12, ['g', 3, 0], b23]},
        {'radixes': [2, 2, 2], 'ops': [nested, ['g', 0, 1], nested]},
        {'radixes': [2, 2, 2], 'ops': [rev, ['blk', [1], [['g', 0]]], rev]},
        {'radixes': [2, 2, 2], 'ops': [['cu', 0, 1], ['vu', 1, 2], ['g', 1],
                                       ['cu', 2]]},
        {'radixes': [2, 2, 2], 'ops': [['vu', 2], ['blk', [0, 1, 2], [
            ['g', 0, 1, 2], ['g', 2]]], ['cu', 2, 0]]},
        {'radixes': [2, 3, 2], 'ops': [
            ['blk', [0, 1], [['g', 0, 1], ['g', 1]]], ['g', 2],
            ['blk', [1, 2], [['g', 1, 0], ['g', 0]]], ['cu', 0, 1]]},
        {'radixes': [3, 2, 3], 'ops': [
            ['blk', [0, 1, 2], [['g', 1, 0], ['g', 1, 2]]],
            ['blk', [2, 0], [['g', 0], ['g', 1]]], ['vu', 1, 0]]},
        {'radixes': [2, 2], 'ops': []},
        {'radixes': [2, 2], 'ops': [['blk', [0, 1], []]]},
        {'radixes': [2, 2, 2], 'ops': [
            ['blk', [0, 1], [['g', 0, 1]]], ['blk', [0, 1], [['g', 0, 1]]],
            ['blk', [1, 2], [['g', 0]]], ['blk', [0, 1], [['g', 1]]]]},
    ]


def foreach_items(thorough: bool) -> list:
    """(spec, 'full'|'reduced') work items, simplest first."""
    items: list = []
    for s in handmade_inputs():
        items.append((s, 'full'))
    n = 3
    A = alphabet(n)
    rad = [2] * n
    for L in (1, 2):
        for seq in itertools.product(A, repeat=L):
            for bs in (2, 3):
                items.append((
                    {'radixes': rad, 'base': [list(o) for o in seq],
                     'partition': bs},
                    'full' if thorough or L == 1 or bs == 2 else 'reduced',
                ))
                if L == 2:
                    items.append(({
                        'radixes': rad, 'pre': [['g', 1]],
                        'base': [list(o) for o in seq], 'partition': bs,
                        'ops': [['g', 2, 0]],
                    }, 'full' if thorough else 'reduced'))
    for seq in itertools.product(A, repeat=3):
        for bs in (2, 3) if thorough else (2,):
            items.append(({'radixes': rad, 'base': [list(o) for o in seq],
                           'partition': bs},
                          'full' if thorough else 'reduced'))
    if thorough:
        A4 = alphabet(4)
        for L in (2, 3):
            for seq in itertools.product(A4, repeat=L):
                for bs in (2, 3):
                    items.append(({
                        'radixes': [2] * 4, 'base': [list(o) for o in seq],
                        'partition': bs}, 'reduced'))
        for seq in itertools.product(A, repeat=4):
            for bs in (2, 3):
                items.append(({'radixes': rad, 'base': [list(o) for o in seq],
                               'partition': bs}, 'reduced'))
    return items


_CFG_CACHE: dict = {}


def foreach_worker(arg: tuple) -> dict:
    chunk, thorough = arg
    out = {'runs': 0, 'nontrivial': 0, 'viol': [], 'outcomes': {},
           'inputs': 0, 'skipped': 0, 'per_body': {}, 'per_cf': {},
           'per_rf': {}, 'replaced': 0, 'blocks': 0, 'errpos': 0,
           'alone': 0, 'adjacent': 0, 'sample': None}
    if not _CFG_CACHE:
        _CFG_CACHE['full'] = cfgs_full(thorough)
        _CFG_CACHE['reduced'] = cfgs_reduced()
    from bqskit.ir.gates import CircuitGate
    for spec, which in chunk:
        C = build_input(spec)
        out['inputs'] += 1
        G = grid_of(C)
        per_cycle: dict = {}
        for (cy, loc), op in G.items():
            if isinstance(op.gate, CircuitGate):
                per_cycle.setdefault(cy, []).append(loc)
        if any(len(v) == 1 and sum(1 for k in G if k[0] == cy) == 1
               for cy, v in per_cycle.items()):
            out['alone'] += 1
        if any(len(v) >= 2 for v in per_cycle.values()):
            out['adjacent'] += 1
        for cfg in _CFG_CACHE[which]:
            r = run_foreach_case(spec, cfg, C)
            if r.get('skip'):
                out['skipped'] += 1
                continue
            out['runs'] += 1
            for nm, key in (('per_body', 'body'), ('per_cf', 'cf'),
                            ('per_rf', 'rf')):
                out[nm][cfg[key]] = out[nm].get(cfg[key], 0) + 1
            if 'sig' in r:
                out['viol'].append((
                    r['sig'], r['what'],
                    {'part': 'foreach', 'input': spec, 'cfg': cfg},
                    (len(repr(spec)), len(repr(cfg))),
                ))
                key = r['sig']
            else:
                key = '%s/blocks%s/repl%s/err-%s' % (
                    r['outcome'], min(r['blocks'], 2),
                    min(r['replaced'], 2), r.get('err'))
                out['replaced'] += r['replaced']
                out['blocks'] += r['blocks']
                if r.get('err') == 'pos':
                    out['errpos'] += 1
                if r['replaced'] >= 1 and r.get('untouched', 0) >= 1:
                    out['nontrivial'] += 1
                    if out['sample'] is None and r['replaced'] >= 2:
                        out['sample'] = {'input': spec, 'cfg': cfg,
                                         'blocks': r['blocks'],
                                         'replaced': r['replaced'],
                                         'D': r.get('D')}
            out['outcomes'][key] = out['outcomes'].get(key, 0) + 1
    return out


# ======================================================================
#                               driver
# ======================================================================
def _merge(ctx: Ctx, part: str, r: dict, viols: list) -> None:
    ctx.cov['evaluations'] += r['runs']
    ctx.cov['distinct_nontrivial'] += r['nontrivial']
    for k, v in r['outcomes'].items():
        ctx.outcomes['%s:%s' % (part, k)] += v
    viols.extend(r['viol'])
    if r.get('sample') is not None:
        ctx.sample({part: r['sample']})


def dispatch(item: tuple) -> tuple:
    part, arg = item
    if part == 'control':
        return part, control_worker(arg)
    return part, foreach_worker(arg)


def _warm() -> None:
    """Import everything heavy (bqskit.passes alone takes seconds) in the
    parent so that forked pool workers inherit it."""
    import bqskit.passes  # noqa: F401
    import bqskit.ir.gates  # noqa: F401
    import vf.c11_passes  # noqa: F401
    import vf.loopback  # noqa: F401
    import bqskit.utils.random as R
    try:
        R.find_library('c')     # fills the memo before the fork
    except Exception:
        pass


def run(ctx: Ctx) -> None:
    _warm()
    thorough = not ctx.quick
    ctx.cov['rule'] = (
        'control: a run in which at least one scripted predicate is '
        'consulted; foreach: a run in which at least one block result is '
        'written back while at least one other operation must stay untouched'
    )
    viols: list = []

    # two pools with their own time caps, so that neither part can starve
    # the other on a loaded machine
    terms = all_terms(thorough)

    def bound_of(t: list) -> int:
        # thorough: outcome sequences of length <= 4, except <= 3 for the
        # three-slot terms (their script spaces multiply)
        if not thorough:
            return 3
        wide = (t[0] == 'wf' and len(t[1]) > 2) or \
            (t[0] == 'par' and len(t[2]) > 2)
        return 3 if wide else 4
    items = foreach_items(thorough)
    nfull = sum(1 for _, w in items if w == 'full')
    chunk = 2 if thorough else 4
    full = [it for it in items if it[1] == 'full']
    red = [it for it in items if it[1] == 'reduced']
    fwork = [full[i:i + chunk] for i in range(0, len(full), chunk)] + \
        [red[i:i + 8 * chunk] for i in range(0, len(red), 8 * chunk)]
    done = 0
    done_inputs = 0
    maxcalls = 0
    agg: dict = {'per_body': {}, 'per_cf': {}, 'per_rf': {}}
    tot = {'replaced': 0, 'blocks': 0, 'errpos': 0, 'alone': 0,
           'adjacent': 0, 'skipped': 0}
    # the simplest cases run right here, before any pool exists: whatever
    # the machine is doing, the run has judged something
    n_inline = 8
    for t in terms[:n_inline]:
        r = control_worker((t, bound_of(t)))
        _merge(ctx, 'control', r, viols)
        done += 1
        maxcalls = max(maxcalls, r['maxcalls'])
        ctx.part('control', terms=1, runs=r['runs'])
    first = fwork[0][:1]
    fwork[0] = fwork[0][1:]
    r = foreach_worker((first, thorough))
    _merge(ctx, 'foreach', r, viols)
    done_inputs += r['inputs']
    for nm in agg:
        for k, v in r[nm].items():
            agg[nm][k] = agg[nm].get(k, 0) + v
    for k in tot:
        tot[k] += r[k]
    for part, r in pmap(
            dispatch,
            [('control', (t, bound_of(t))) for t in terms[n_inline:]],
            procs=ctx.procs,
            deadline=ctx.t0 + (600 if thorough else 35)):
        _merge(ctx, part, r, viols)
        done += 1
        maxcalls = max(maxcalls, r['maxcalls'])
        ctx.part('control', terms=1, runs=r['runs'])
    ctx.part('control', wall_s=round(ctx.elapsed(), 1))
    for part, r in pmap(
            dispatch, [('foreach', (w, thorough)) for w in fwork if w],
            procs=ctx.procs,
            deadline=ctx.t0 + (1700 if thorough else 75)):
        _merge(ctx, part, r, viols)
        done_inputs += r['inputs']
        for nm in agg:
            for k, v in r[nm].items():
                agg[nm][k] = agg[nm].get(k, 0) + v
        for k in tot:
            tot[k] += r[k]
    bound = 4 if thorough else 3
    if done < len(terms):
        ctx.cap('control: %d of %d terms (simplest first) inside the time cap'
                % (done, len(terms)))
    kinds: dict = {}
    for t in terms:
        kinds[KIND_NAME[t[0]]] = kinds.get(KIND_NAME[t[0]], 0) + 1
    ctx.part('control', terms_enumerated=len(terms), script_bound=bound,
             script_bound_three_slot_terms=3,
             max_predicate_calls_in_a_run=maxcalls, outer_kinds=kinds,
             pick_first_terms=sum(1 for t in terms
                                  if t[0] == 'par' and t[3]))
    if done_inputs < len(items):
        ctx.cap('foreach: %d of %d inputs inside the time cap (hand-built '
                'and shortest sequences first)' % (done_inputs, len(items)))
    ctx.part('foreach', wall_s=round(ctx.elapsed(), 1),
             inputs=done_inputs, inputs_enumerated=len(items),
             inputs_full_config=nfull,
             configs_full=len(cfgs_full(thorough)),
             configs_reduced=len(cfgs_reduced()),
             runs_per_body=agg['per_body'],
             runs_per_collection_filter=agg['per_cf'],
             runs_per_replace_filter=agg['per_rf'],
             blocks_processed=tot['blocks'], blocks_replaced=tot['replaced'],
             runs_with_positive_error=tot['errpos'],
             inputs_with_block_alone_in_cycle=tot['alone'],
             inputs_with_adjacent_blocks=tot['adjacent'],
             runs_skipped_not_applicable=tot['skipped'])
    # ParallelDo under every schedule within a deviation bound, on the real
    # runtime inside the E1 world (vf/c11_world.py)
    from vf import c11_world
    st = c11_world.run_part(ctx, seconds=None if thorough else 50)
    ctx.cov['evaluations'] = ctx.cov.get('evaluations', 0) + st['executions']
    ctx.cov['distinct_nontrivial'] = ctx.cov.get('distinct_nontrivial', 0) \
        + len([k for k in ctx.outcomes if '/paralleldo/' in k])
    ctx.assumptions.extend([
        'control and for-each passes run on the one-worker, zero-preemption '
        'loop-back schedule; ParallelDo (ordered and pick_first) is '
        'additionally run by the real server/worker classes under every '
        'schedule within the stated deviation bound (part paralleldo-world)',
        'string replace filters are taken as given: acceptance is what '
        'gen_replace_filter(method, model) answers on the reference result',
    ])

    if not ctx.cov['samples']:
        ctx.sample({'control-term': terms[min(20, len(terms) - 1)]})
    # simplest counterexample first for each signature
    viols.sort(key=lambda v: (v[3], repr(v[2])))
    for sig, what, rep, _ in viols:
        ctx.violation(sig, what, rep)


def replay(ctx: Ctx, obj: dict) -> bool:
    if obj.get('engine') == 'E1':
        from vf import explore
        v = explore.replay_item(obj['spec'], obj['choices'],
                                obj.get('fault'), obj.get('judge', 'c11w'))
        for sig, what in v:
            print(f'# {sig}: {what[:500]}')
        return not v
    if obj['part'] == 'control':
        r = run_control_case(obj['term'], obj['scripts'], obj.get('bound', 3))
    else:
        r = run_foreach_case(obj['input'], obj['cfg'])
    if 'sig' in r:
        print('#', r['sig'], '--', r['what'][:600])
        return False
    return True
