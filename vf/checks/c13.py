"""C13 -- task failures reach their client; no client request takes the server
down.

(b) error propagation: task trees with a raising body at every position,
    every schedule within the deviation bound (E1).
(a) client API histories: every sequence of client calls up to a depth over
    task ids in every state, on a real DetachedServer with real managers,
    workers and Compiler clients, judged against a per-task state machine;
    a bystander client's task must be neither exposed nor disturbed.
"""
from __future__ import annotations

import time

from vf import explore
from vf import judges  # noqa: F401
from vf import trees
from vf.checks import c07
from vf.common import Ctx
from vf.explore import register_judge
from vf.judges import client_ops
from vf.judges import tb_signature
from vf.scenarios import L, A, TOPOS

LEVEL = 'model_checking'
R = ['raise', 9]

ETREES = {
    'raise-root': R,
    'raise-child': ['submit', R],
    'raise-grandchild': ['submit', ['submit', R]],
    'raise-in-map': ['map', [L(1), R, L(3)]],
    'raise-all-map': ['map', [['raise', 9], ['raise', 9]]],
    'raise-in-mapnext': ['mapnext', [R, L(2)]],
    'raise-after-work': ['seq', [L(1), R]],
    'raise-nested-map': ['map', [['submit', R], L(2)]],
    'raise-rev': ['rev2', R, L(2)],
}
OTHER = ['map', [L(7), A(8)]]


def err_spec(topo: str, name: str) -> dict:
    return {'name': f'{topo}/{name}', 'topo': TOPOS[topo],
            'clients': [[['compile', ETREES[name]]]]}


def err_spec2(topo: str, name: str) -> dict:
    return {'name': f'{topo}/2cli/{name}', 'topo': TOPOS[topo],
            'clients': [[['compile', ETREES[name]]],
                        [['compile', OTHER]]]}


# ------------------------------------------------------------ (a) histories
OK_TREE = ['submit', L(1)]
BAD_TREE = ['submit', ['raise', 9]]
BYSTANDER = [['submit', 'x', OTHER], ['sleep', 50], ['status', 'x'],
             ['result', 'x']]


def histories(depth: int) -> list:
    """All client-0 call sequences of length <= depth (simplest first).

    Slots: 'a', 'b' own submissions (at most two, at most one raising),
    'u' a well-formed id the server has never seen, 'o' the bystander
    client's task id.
    """
    out: list = []

    def ext(h: list, own: list, nbad: int, dead: bool) -> None:
        if h:
            out.append(h)
        if len(h) >= depth or dead:
            return
        if len(own) < 2:
            s = 'ab'[len(own)]
            ext(h + [['submit', s, OK_TREE]], own + [s], nbad, False)
            if nbad == 0:
                ext(h + [['submit', s, BAD_TREE]], own + [s], 1, False)
        for s in own + ['u', 'o']:
            ext(h + [['status', s]], own, nbad, False)
            ext(h + [['cancel', s]], own, nbad, False)
            # an unsuccessful result() ends the client's connection
            ext(h + [['result', s]], own, nbad, s in ('u', 'o'))
        if own:
            ext(h + [['sleep', 1]], own, nbad, False)

    ext([], [], 0, False)
    out.sort(key=lambda h: (len(h), str(h)))
    return out


def hist_spec(topo: str, h: list, idx: int) -> dict:
    script = [['continue_after_exc'], ['sleep', 1], ['fresh_id', 'u'],
              ['steal', 'o', 'cli1', 'x']] + h + [['fresh_id', 'p'],
                                                  ['status', 'p']]
    return {
        'name': f'{topo}/hist/' + ' '.join(
            f'{o[0]}({o[1]}{"!" if o[0] == "submit" and o[2] is BAD_TREE else ""})'
            for o in h),
        'topo': TOPOS[topo], 'clients': [script, BYSTANDER],
        'history': h,
    }


def model(h: list) -> list:
    """Per-op admitted outcomes of the per-task state machine.

    Returns [(op, state_of_slot_before, admitted)] where admitted is a set of
    outcome labels: 'UNKNOWN' 'RUNNING' 'DONE' (status), 'value' (result),
    'ack' (cancel), 'ok' (submit/sleep), 'boom' (the call raises the task's
    own error), 'reject' (an error to this client only; its connection is
    gone afterwards), 'dead' (connection already gone).
    """
    st: dict = {'u': 'unknown', 'o': 'other'}
    bad: dict = {}
    alive = True
    maybe_err = False     # a raising task was submitted: its ERROR may land
    sure_err = False      # ... and has certainly landed (after a sleep)
    out = []
    for op in h:
        k, s = op[0], op[1]
        state = st.get(s, '-') if k != 'sleep' else '-'
        if k == 'sleep' and (not alive or sure_err):
            # a sleep is local to the client: it succeeds whatever the state
            # of the connection, and leaves a pending error pending
            out.append((op, state, {'ok'}))
            continue
        if not alive:
            out.append((op, state, {'dead'}))
            continue
        adm: set = set()
        if sure_err:
            adm = {'boom'}
            alive = False
            out.append((op, state, adm))
            continue
        if maybe_err:
            adm.add('boom')
        if k == 'submit':
            st[s] = 'running'
            bad[s] = op[2] is BAD_TREE or op[2] == BAD_TREE
            if bad[s]:
                maybe_err = True
            adm.add('ok')
        elif k == 'sleep':
            for x in st:
                if st[x] == 'running':
                    st[x] = 'failed' if bad.get(x) else 'done'
                    if bad.get(x):
                        sure_err = True
            adm.add('ok')
        elif k == 'status':
            adm |= {
                'unknown': {'UNKNOWN'}, 'other': {'UNKNOWN'},
                'running': {'RUNNING'} if bad.get(s) else {'RUNNING', 'DONE'},
                'done': {'DONE'}, 'fetched': {'UNKNOWN', 'DONE'},
                'cancelled': {'UNKNOWN'},
            }[state]
        elif k == 'result':
            if state in ('running', 'done') and not bad.get(s):
                adm.add('value')
                st[s] = 'fetched'
            elif state == 'running' and bad.get(s):
                adm = {'boom'}
                alive = False
            else:
                adm.add('reject')
                alive = False
        elif k == 'cancel':
            adm.add('ack')
            if state in ('running', 'done'):
                st[s] = 'cancelled'
            if state == 'other':
                adm.add('reject')
        out.append((op, state, adm))
    model.maybe_err = maybe_err or sure_err     # type: ignore[attr-defined]
    model.alive = alive                         # type: ignore[attr-defined]
    return out


def classify(op: list, ev: list) -> str:
    if ev[2] == 'ok':
        if op[0] == 'status':
            return ev[3]
        return {'result': 'value', 'cancel': 'ack'}.get(op[0], 'ok')
    msg = ev[4]
    if 'boom-' in msg:
        return 'boom'
    if 'Connection unexpectedly none' in msg:
        return 'dead'
    if 'Unknown task' in msg or 'cause: EOFError' in msg:
        # the server answers ERROR 'Unknown task.' and drops the connection;
        # the ERROR may be overtaken by the close, which the client sees as
        # end-of-file: either way an error to this client only
        return 'reject'
    return 'error:' + tb_signature(msg)


def judge_c13a(spec: dict, rec: dict, fault) -> list:
    v: list = []
    h = spec['history']
    m = model(h)
    evs = rec['clients'].get('cli0', {}).get('events', [])
    # script = 3 setup ops + history + 2 probe ops
    hev = evs[3:3 + len(h)]
    first_bad = None
    c0_alive = True
    for i, (op, state, adm) in enumerate(m):
        if i >= len(hev):
            where = rec['alive'].get('cli0.main')
            first_bad = (op, state, f'no answer: client blocked at {where}')
            v.append((f'client-hang:{op[0]}:{state}',
                      f'history {spec["name"]}: {op[0]}({op[1]}) on a '
                      f'{state} task never returned (blocked {where})'))
            break
        got = classify(op, hev[i])
        if not c0_alive:
            # An earlier call already ended this client's connection (the
            # raising task's error may land on any call after its submit;
            # the static model cannot know on which): from then on every
            # call finds the connection gone, a sleep stays local.
            adm = {'ok'} if op[0] == 'sleep' else {'dead'}
        if got in ('boom', 'reject', 'dead') or got.startswith('error'):
            c0_alive = False
        if got not in adm:
            first_bad = (op, state, got)
            detail = hev[i][4][-500:] if hev[i][2] == 'exc' else hev[i][3]
            v.append((
                f'api:{op[0]}:{state}:{got.split("@")[0]}',
                f'history {spec["name"]}: {op[0]}({op[1]}) on a {state} task '
                f'answered {got}, the state machine admits {sorted(adm)}; '
                f'detail: {detail}',
            ))
            break
    # the server must survive every well-formed request
    srv_alive = 'srv.main' in rec['alive']
    if not srv_alive:
        op, state, got = first_bad or (('?', '?'), '?', '?')
        for i, (o2, s2, adm) in enumerate(m):
            if i < len(hev) and classify(o2, hev[i]).startswith('error'):
                op, state = o2, s2
                break
        tbs = [tb for n, tb in rec['thread_errors'] if n.startswith('srv')]
        errs = [t for _, t in rec['errors_sent'] if 'boom-' not in t]
        why = tb_signature((errs + tbs + [''])[0])
        v.append((
            f'server-down:{op[0]}:{state}:{why}',
            f'history {spec["name"]}: the server is no longer running after '
            f'{op[0]}({op[1]}) on a {state} task; {(tbs + errs + [""])[0][-600:]}',
        ))
    elif c0_alive and first_bad is None:
        probe = evs[3 + len(h):]
        pending_boom = (
            model.maybe_err and len(probe) == 2          # type: ignore
            and probe[1][2] == 'exc' and 'boom-' in probe[1][4]
        )
        if pending_boom:
            pass    # the raising task's own error, delivered on this call
        elif len(probe) < 2 or probe[1][2] != 'ok' \
                or probe[1][3] != 'UNKNOWN':
            v.append(('server-probe-failed',
                      f'history {spec["name"]}: probe status(unknown) gave '
                      f'{probe}'))
    # the bystander is neither exposed nor disturbed
    by = rec['clients'].get('cli1', {}).get('events', [])
    touched = any(op[1] == 'o' for op in h)
    want = [('submit', 'ok', None), ('sleep', 'ok', None),
            ('status', 'ok', 'DONE'), ('result', 'ok', trees.expected(OTHER))]
    if srv_alive or touched:
        for j, (k, okexc, val) in enumerate(want):
            if j >= len(by):
                v.append((
                    'bystander-hang' + (':after-foreign-id' if touched else ''),
                    f'history {spec["name"]}: the other client never '
                    f'finished {k}; events {by}'))
                break
            if k == 'status' and by[j][2] == 'ok' and by[j][3] == 'RUNNING' \
                    and spec.get('bystander_may_still_run'):
                # under a non-default schedule the bystander's virtual sleep
                # may end before its task does: RUNNING is then a correct
                # answer (the value of result() below is still judged)
                continue
            if by[j][2] != okexc or (val is not None and by[j][3] != val):
                v.append((
                    'bystander-disturbed' + (':after-foreign-id' if touched
                                             else ''),
                    f'history {spec["name"]}: the other client\'s {k} gave '
                    f'{by[j][2:]} instead of {val!r}'))
                break
    return v


register_judge('c13a', judge_c13a)


# ---------------------------------------------------------------- the check
TX = ['map', [L(11), L(12)]]
TY = ['submit', A(21)]
TA = ['seq', [L(31), L(32)]]


def churn_specs(topo: str) -> list:
    """Clients coming and going while other clients' tasks are alive: task
    ids, mailboxes and results must stay with their own client and task.
    Virtual sleeps fix the order of the clients' calls; the scheduler explores
    the order of everything else."""
    t = TOPOS[topo]
    S = [
        ('leaver-then-second-submit',
         [[['submit', 'a', TA], ['sleep', 2], ['close']],
          [['sleep', 1], ['submit', 'x', TX], ['sleep', 2],
           ['submit', 'y', TY], ['sleep', 5], ['status', 'x'],
           ['result', 'x'], ['result', 'y']]]),
        ('sequential-clients',
         [[['submit', 'a', TA], ['result', 'a'], ['close']],
          [['sleep', 3], ['submit', 'x', TX], ['result', 'x'],
           ['submit', 'y', TY], ['result', 'y']]]),
        ('cancel-then-resubmit',
         [[['submit', 'a', TA], ['cancel', 'a'], ['submit', 'b', TY],
           ['result', 'b']],
          [['sleep', 1], ['submit', 'x', TX], ['sleep', 3],
           ['result', 'x']]]),
        ('three-clients',
         [[['submit', 'a', TA], ['sleep', 2], ['close']],
          [['sleep', 1], ['submit', 'x', TX], ['sleep', 4], ['result', 'x']],
          [['sleep', 3], ['submit', 'y', TY], ['result', 'y']]]),
        ('fetch-then-others-submit',
         [[['submit', 'a', TA], ['result', 'a'], ['sleep', 3],
           ['submit', 'b', TX], ['result', 'b']],
          [['sleep', 1], ['submit', 'x', TY], ['sleep', 1], ['close']]]),
    ]
    return [{'name': f'{topo}/churn/{n}', 'topo': t, 'clients': c}
            for n, c in S]


def plan_b(ctx: Ctx) -> list:
    q = ctx.quick
    topos = ['a1', 'a2', 'd2', 'd11'] + ([] if q else ['a3', 'd21'])
    P = [('errors/deviation<=1',
          [err_spec(tp, t) for tp in topos for t in ETREES]
          + [err_spec2(tp, t) for tp in ('d2', 'd11') for t in
             ('raise-root', 'raise-child', 'raise-in-map')],
          1, 'deviation', 90 if q else 900)]
    P.append(('client-churn/deviation<=1',
              [s for tp in (('d2',) if q else ('d2', 'd11'))
               for s in churn_specs(tp)],
              1, 'deviation', 60 if q else 900))
    if not q:
        P.append(('errors/deviation<=2',
                  [err_spec(tp, t) for tp in ('a2', 'd11') for t in ETREES]
                  + [err_spec2('d11', 'raise-child')],
                  2, 'deviation', 2400))
    return P


def run(ctx: Ctx) -> None:
    c07.run(ctx, judge='c13', plan_fn=plan_b)
    # (a) API histories
    depth = 3 if ctx.quick else 4
    hs = histories(depth)
    specs = [hist_spec('d2', h, i) for i, h in enumerate(hs)]
    t0 = time.time()
    st = explore.explore(ctx, specs, 'c13a', 0, 'deviation',
                         deadline=t0 + (120 if ctx.quick else 1500),
                         part='api-histories')
    ctx.part('api-histories', depth=depth, histories=len(hs),
             executions=st['executions'], complete=st['complete'],
             wall_s=round(time.time() - t0, 1))
    if not ctx.quick and st['complete']:
        # the short histories again under every 1-deviation schedule
        t0 = time.time()
        short = [dict(hist_spec('d11', h, i), bystander_may_still_run=True)
                 for i, h in enumerate(histories(2))]
        st2 = explore.explore(ctx, short, 'c13a', 1, 'deviation',
                              deadline=t0 + 1200,
                              part='api-histories/deviation<=1')
        ctx.part('api-histories/deviation<=1', depth=2,
                 histories=len(short), executions=st2['executions'],
                 complete=st2['complete'])
        st['executions'] += st2['executions']
        st['transitions'] += st2['transitions']
    ctx.cov['evaluations'] += st['executions']
    ctx.cov['traces_validated_against_impl'] += st['executions']
    ctx.cov['transitions'] += st['transitions']
    ctx.cov['states'] = len(getattr(ctx, '_states', ()))
    ctx.cov['distinct_nontrivial'] = len(ctx.outcomes)


def replay(ctx: Ctx, obj: dict) -> bool:
    return c07.replay(ctx, obj)
