"""C07 -- every awaited runtime future resolves exactly once with its own
result (E1: controlled-thread scheduler over the real runtime classes)."""
from __future__ import annotations

import time

from vf import explore
from vf import judges  # noqa: F401
from vf.common import Ctx
from vf.scenarios import TREES
from vf.scenarios import boss_spec
from vf.scenarios import compile_spec

LEVEL = 'model_checking'


def plan(ctx: Ctx) -> list:
    """[(part, specs, bound, model, seconds)] in execution order."""
    q = ctx.quick
    P = []
    # (a) one worker, both of its threads, source-line granularity
    line1 = ['submit', 'seq2', 'map2', 'mapnext2', 'rev2']
    P.append(('line/remote/preempt<=1',
              [boss_spec('remote', t) for t in line1]
              + [boss_spec('local', t) for t in ('seq2', 'map2')]
              + [boss_spec('alternate', t) for t in ('map2', 'mapnext2')],
              1, 'preemption', 60 if q else 300))
    P.append(('line/remote/preempt<=2',
              [boss_spec('remote', t) for t in
               (('submit', 'seq2', 'mapnext2', 'map2', 'rev2')
                if q else line1)],
              2, 'preemption', 100 if q else 900))
    if not q:
        P.append(('line/local/preempt<=2',
                  [boss_spec('local', t) for t in ('seq2', 'map2')]
                  + [boss_spec('alternate', t) for t in ('map2', 'mapnext2')],
                  2, 'preemption', 900))
        P.append(('line/remote/preempt<=3',
                  [boss_spec('remote', 'submit')], 3, 'preemption', 900))
    # (b) whole runtime, visible-operation granularity
    trees1 = ['leaf', 'submit', 'seq2', 'map2', 'map3', 'mapnext2',
              'mapnext3', 'rev2', 'seqmap', 'mapmix', 'nest']
    topos1 = ['a1', 'a2', 'a3', 'd2', 'd11']
    if not q:
        trees1 += ['map4', 'deep3', 'mapmap']
        topos1 += ['a4', 'd22', 'd111', 'd21']
    P.append(('world/deviation<=1',
              [compile_spec(tp, tr) for tp in topos1 for tr in trees1],
              1, 'deviation', 120 if q else 900))
    small = [('a2', 'map2'), ('a2', 'rev2'), ('d11', 'submit')]
    if not q:
        small = [(tp, tr) for tp in ('a1', 'a2', 'a3', 'd2', 'd11')
                 for tr in ('submit', 'seq2', 'map2', 'mapnext2', 'rev2',
                            'map3', 'mapmix')]
    P.append(('world/deviation<=2',
              [compile_spec(tp, tr) for tp, tr in small],
              2, 'deviation', 100 if q else 2400))
    if not q:
        P.append(('world/deviation<=3',
                  [compile_spec('a2', 'map2')], 3, 'deviation', 1200))
    return P


def run(ctx: Ctx, judge: str = 'c07', plan_fn=plan) -> None:
    total = {'executions': 0, 'transitions': 0}
    for part, specs, bound, model, secs in plan_fn(ctx):
        t0 = time.time()
        st = explore.explore(ctx, specs, judge, bound, model,
                             deadline=t0 + secs, part=part)
        total['executions'] += st['executions']
        total['transitions'] += st['transitions']
        ctx.part(part, scenarios=len(specs), bound=bound, cost_model=model,
                 executions=st['executions'], complete=st['complete'],
                 wall_s=round(time.time() - t0, 1),
                 per_scenario={k: v['executions']
                               for k, v in st['per_scenario'].items()})
    if judge == 'c07':
        selftest(ctx)
    states = getattr(ctx, '_states', set())
    ctx.cov.update({
        'states': len(states),
        'transitions': total['transitions'],
        'traces_validated_against_impl': total['executions'],
        'evaluations': total['executions'],
        'distinct_nontrivial': len(ctx.outcomes),
        'rule': 'every schedule (choice sequence) within the stated '
                'preemption/deviation bound of every listed scenario is '
                'executed once on the real runtime classes; distinct = '
                'distinct (scenario, client-observed outcome, body placement)'
                ' labels; states = distinct fingerprints of the whole world '
                'at scheduling points (counted, never used for pruning)',
    })
    ctx.assumptions += [
        'interleaving granularity: source lines inside the worker (harness '
        'a), visible operations elsewhere',
        'transport: reliable FIFO per connection',
        'every explored trace is an execution of the implementation itself',
    ]


def selftest(ctx: Ctx) -> None:
    """Replay every schedule (deviation <= 1) of one scenario twice and
    require identical observations: the explorer owns all nondeterminism."""
    from vf.common import pmap
    spec = compile_spec('a2', 'rev2')
    frontier = [(spec, [], None, 'c07', 1, 'deviation', None)]
    n = 0
    while frontier:
        nxt = []
        for r in pmap(explore.selftest_item, frontier, procs=ctx.procs,
                      chunksize=4):
            n += 1
            nxt += [(spec, ch, None, 'c07', 1, 'deviation', None)
                    for ch in r['children']]
        frontier = nxt
    ctx.part('determinism-selftest', scenario=spec['name'],
             schedules_replayed_twice=n, divergences=0)


def replay(ctx: Ctx, obj: dict) -> bool:
    v = explore.replay_item(obj['spec'], obj['choices'], obj.get('fault'),
                            obj.get('judge', 'c07'))
    for sig, what in v:
        print(f'# {sig}: {what[:500]}')
    return not v
