"""C14 -- a crashed worker or manager unblocks every waiting client with an
error (E1, fault enumeration: every crash point of every explored schedule x
every victim x every send-error kind)."""
from __future__ import annotations

import collections
import time

from vf import explore
from vf import judges  # noqa: F401
from vf.checks import c07
from vf.common import Ctx
from vf.common import pmap
from vf.scenarios import L, A, TOPOS

LEVEL = 'fault_enumeration'

SCEN = {
    'single': [[['compile', ['submit', L(1)]], ['close']]],
    'map3nested': [[['compile', ['map', [L(1), ['submit', L(2)], A(3)]]],
                    ['close']]],
    'two-clients': [[['compile', ['submit', L(1)]], ['close']],
                    [['compile', ['map', [L(2), L(3)]]], ['close']]],
    'submit-result': [[['submit', 'a', ['map', [L(1), L(2)]]],
                       ['result', 'a'], ['close']]],
}


def spec(topo: str, name: str) -> dict:
    return {'name': f'{topo}/{name}', 'topo': TOPOS[topo],
            'clients': SCEN[name], 'want_steps': True}


def plan(ctx: Ctx) -> list:
    """[(part, specs, schedule bound, deviation kinds, errkinds, seconds)]"""
    q = ctx.quick
    P = []
    if q:
        combos = [('a2', 'single'), ('a2', 'map3nested'), ('a3', 'single'),
                  ('d2', 'map3nested'), ('d11', 'single'),
                  ('d11', 'map3nested'), ('d11', 'two-clients')]
    else:
        combos = [(tp, n) for tp in ('a2', 'a3', 'd2', 'd11')
                  for n in ('single', 'map3nested')]
        combos += [(tp, 'two-clients') for tp in ('d2', 'd11')]
    if not q:
        combos += [(tp, 'submit-result') for tp in ('a2', 'd11')]
        combos += [('d21', 'map3nested'), ('d22', 'map3nested')]
    P.append(('default-schedule', [spec(*c) for c in combos], 0, None,
              ['pipe', 'reset'] + ([] if q else ['silent1']),
              120 if q else 900))
    small = [('a2', 'single'), ('d11', 'single')]
    if not q:
        small = combos
    P.append(('deviation<=1(deliveries)', [spec(*c) for c in small], 1,
              ['select', 'recv', 'selorder', 'shuffle'],
              ['pipe'] if q else ['pipe', 'reset'],
              120 if q else 3000))
    return P


def victims(procs: list) -> list:
    return [p for p in procs if p[0] in 'wm']


def run(ctx: Ctx) -> None:
    total = collections.Counter()
    for part, specs, bound, kinds, errkinds, secs in plan(ctx):
        t0 = time.time()
        deadline = t0 + secs
        byname = {s['name']: s for s in specs}
        base: list = []

        def on_result(r: dict) -> None:
            base.append(r)

        st = explore.explore(ctx, specs, 'c14', bound, 'deviation',
                             kinds=kinds, deadline=deadline,
                             part=part + '/schedules', on_result=on_result)
        # every crash point x victim x send-error kind of every schedule
        items = []
        seen = set()
        for r in base:
            sp = byname[r['spec']]
            das = r['dec_at_step']
            for step in range(r['boot_steps'] + 1, r['total_steps'] + 1):
                ndec = das[step - 1]
                ch = [c for c in r['choices'] if c[0] < ndec]
                for vic in victims(r['procs']):
                    for ek in errkinds:
                        key = (sp['name'], tuple(map(tuple, ch)), step, vic,
                               ek)
                        if key in seen:
                            continue
                        seen.add(key)
                        items.append((sp, ch, (step, vic, ek), 'c14', 0,
                                      'deviation', None))
        # Order of execution (the set is what it is): scenarios round robin,
        # and inside a scenario the crash points in a low-discrepancy order
        # (index * golden ratio mod 1), so that whenever a time cap cuts the
        # run short, every scenario and every stretch of its schedule has
        # had crash points executed -- not only the first steps of the first
        # scenarios.
        per: dict = collections.OrderedDict((s_['name'], []) for s_ in specs)
        for it_ in items:
            per[it_[0]['name']].append(it_)
        items = []
        qs = []
        for lst in per.values():
            lst.sort(key=lambda x: (x[2][0], repr(x[1]), x[2][1], x[2][2]))
            order = sorted(range(len(lst)),
                           key=lambda i: (i * 0.6180339887498949) % 1.0)
            qs.append(collections.deque(lst[i] for i in order))
        qs = [q_ for q_ in qs if q_]
        while qs:
            for q_ in qs:
                items.append(q_.popleft())
            qs = [q_ for q_ in qs if q_]
        n_done = 0
        fired = 0
        for r in pmap(explore.run_item, items, procs=ctx.procs,
                      deadline=deadline, chunksize=8):
            n_done += 1
            total['transitions'] += r['steps']
            ctx.__dict__.setdefault('_states', set()).update(r['newfps'])
            ctx.outcomes[r['spec'] + '/' + r['outcome']] += 1
            if r['cap']:
                total['horizon_caps'] += 1
            for sig, what in r['verdicts']:
                ctx.violation(sig, what, {
                    'engine': 'E1', 'spec': byname[r['spec']],
                    'choices': r['choices'], 'fault': list(r['fault']),
                    'judge': 'c14'})
            if n_done <= 2:
                ctx.sample({'scenario': r['spec'], 'choices': r['choices'],
                            'fault(step,victim,errkind)': r['fault'],
                            'outcome': r['outcome']})
        if n_done < len(items):
            ctx.cap(f'{part}: time cap, {n_done}/{len(items)} crash '
                    'executions run')
        total['fault_executions'] += n_done
        total['schedules'] += st['executions']
        total['transitions'] += st['transitions']
        ctx.part(part, scenarios=len(specs), schedule_bound=bound,
                 schedules=st['executions'], crash_points_x_victims_x_kinds=
                 len(items), crash_executions=n_done, errkinds=errkinds,
                 wall_s=round(time.time() - t0, 1))
    n = total['fault_executions'] + total['schedules']
    ctx.cov.update({
        'evaluations': n,
        'distinct_nontrivial': len(ctx.outcomes),
        'states': len(getattr(ctx, '_states', ())),
        'transitions': total['transitions'],
        'rule': 'for every schedule within the bound of every scenario, '
                'every visible operation after boot (sends included) is a '
                'crash point for every worker and manager process and every '
                'send-error kind; each (schedule prefix, crash point, victim, '
                'kind) is one execution of the real runtime classes; '
                'distinct = distinct (scenario, client outcomes, placement) '
                'labels',
    })
    ctx.assumptions += [
        'transport: reliable FIFO, EOF after drain, send-to-dead raises '
        'BrokenPipeError / ConnectionResetError (or loses the first message: '
        'silent1, thorough tier)',
        'bounded time = scheduler steps + virtual sleeps',
    ]


def replay(ctx: Ctx, obj: dict) -> bool:
    return c07.replay(ctx, obj)
