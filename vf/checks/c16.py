"""C16 -- objects shipped between processes arrive equal to what was sent.

Five bounded-exhaustive sub-harnesses; every object is built by the real
constructors / editing calls, shipped with pickle and dill (what the runtime
uses for task arguments and results), copied with copy() / become(), and the
result is compared with the original through the public read API by
comparators written here (the library's own == is *also* required to hold,
but never trusted as the only witness).

circuits   level-synchronous BFS over editing histories (append / insert /
           pop / replace / fold / unfold / renumber / insert_qudit /
           pop_qudit, constant + parameterised gates, nested CircuitGates,
           qutrits) of depth <= 2 (thorough 3) from five seed circuits; all
           distinct states (dedup on the grid read cell by cell) are judged
gates      every name in bqskit.ir.gates.__all__ on a small constructor grid
models     every labelled graph on <= 4 vertices x edge orders x gate sets x
           radixes, plus weighted / remote-edge graphs
passdata   every field (taken from vars(PassData(c)) and _reserved_keys) set
           to a non-default value, alone and all together; pickle, dill,
           copy(), become(deepcopy in {F,T}), update
workflows  every control-pass nesting <= 2 (terms of C11) shipped through
           dill and pickle; both copies run on the same input under the same
           predicate scripts must log the same trace and return the same
           state
"""
from __future__ import annotations

import copy
import hashlib
import itertools
import pickle
from typing import Any

import dill
import numpy as np

from vf.common import Ctx
from vf.common import pmap

LEVEL = 'exploration'


# ======================================================================
#                         generic comparators
# ======================================================================
def gkey(g: Any) -> Any:
    from vf.c11_passes import gatekey
    return gatekey(g)


def cell_key(op: Any) -> Any:
    if op is None:
        return None
    return [gkey(op.gate), [int(q) for q in op.location],
            [float(p) for p in op.params]]


def circuit_key(c: Any) -> list:
    """radixes + the whole grid, cell by cell, through circuit[c, q]."""
    grid = []
    for cy in range(c.num_cycles):
        row = []
        for q in range(c.num_qudits):
            if c.is_point_idle((cy, q)):
                row.append(None)
            else:
                row.append(cell_key(c[cy, q]))
        grid.append(row)
    return [[int(r) for r in c.radixes], grid]


def links_key(c: Any) -> Any:
    """next / prev of every operation and first_on / last_on of every qudit,
    through the public API ('raises:X' when a call fails)."""
    out = []
    try:
        for cy in range(c.num_cycles):
            for q in range(c.num_qudits):
                if c.is_point_idle((cy, q)):
                    continue
                op = c[cy, q]
                if op.location[0] != q:
                    continue
                out.append([
                    [cy, q],
                    sorted([int(p[0]), int(p[1])] for p in c.next((cy, q))),
                    sorted([int(p[0]), int(p[1])] for p in c.prev((cy, q))),
                ])
        for q in range(c.num_qudits):
            f, l = c.first_on(q), c.last_on(q)
            out.append([q, None if f is None else [int(f[0]), int(f[1])],
                        None if l is None else [int(l[0]), int(l[1])]])
    except Exception as e:
        return 'raises:' + type(e).__name__
    return out


def links_from_grid(k: list) -> list:
    """What links_key must be, derived from the grid alone."""
    rad, grid = k
    n = len(rad)
    tl: list = [[] for _ in range(n)]
    pts = []
    for cy, row in enumerate(grid):
        for q, cell in enumerate(row):
            if cell is None or cell[1][0] != q:
                continue
            pts.append((cy, q, cell[1]))
            for x in cell[1]:
                tl[x].append([cy, q])
    out = []
    for cy, q, loc in pts:
        nx, pv = [], []
        for x in loc:
            i = tl[x].index([cy, q])
            if i + 1 < len(tl[x]) and tl[x][i + 1] not in nx:
                nx.append(tl[x][i + 1])
            if i > 0 and tl[x][i - 1] not in pv:
                pv.append(tl[x][i - 1])
        out.append([[cy, q], sorted(nx), sorted(pv)])
    for q in range(n):
        out.append([q, tl[q][0] if tl[q] else None,
                    tl[q][-1] if tl[q] else None])
    return out


def key_hash(k: Any) -> str:
    return hashlib.sha1(repr(k).encode()).hexdigest()[:20]


def same(a: Any, b: Any, path: str = '') -> list:
    """Structural comparison of two values; returns the differing paths."""
    from bqskit.compiler.gateset import GateSet
    from bqskit.compiler.machine import MachineModel
    from bqskit.ir.circuit import Circuit
    from bqskit.qis.graph import CouplingGraph
    from bqskit.qis.state.state import StateVector
    from bqskit.qis.state.system import StateSystem
    from bqskit.qis.unitary.unitarymatrix import UnitaryMatrix
    if type(a) is not type(b):
        if not (isinstance(a, (int, float)) and isinstance(b, (int, float))
                and not isinstance(a, bool) and not isinstance(b, bool)):
            return [path + ':type']
    if isinstance(a, Circuit):
        return [] if circuit_key(a) == circuit_key(b) else [path]
    if isinstance(a, (UnitaryMatrix, StateVector)):
        x, y = np.asarray(a.numpy), np.asarray(b.numpy)
        ok = x.shape == y.shape and np.array_equal(x, y) \
            and tuple(a.radixes) == tuple(b.radixes)
        return [] if ok else [path]
    if isinstance(a, StateSystem):
        return same(a.__dict__, b.__dict__, path)
    if isinstance(a, np.ndarray):
        ok = a.shape == b.shape and np.array_equal(a, b)
        return [] if ok else [path]
    if isinstance(a, MachineModel):
        return (
            same(a.num_qudits, b.num_qudits, path + '.num_qudits')
            + same(tuple(a.radixes), tuple(b.radixes), path + '.radixes')
            + same(a.gate_set, b.gate_set, path + '.gate_set')
            + same(a.coupling_graph, b.coupling_graph,
                   path + '.coupling_graph')
        )
    if isinstance(a, GateSet):
        ka = sorted(repr(gkey(g)) for g in a)
        kb = sorted(repr(gkey(g)) for g in b)
        return [] if ka == kb else [path]
    if isinstance(a, CouplingGraph):
        ok = (
            a.num_qudits == b.num_qudits
            and sorted(a) == sorted(b)
            and sorted(a._remote_edges) == sorted(b._remote_edges)
            and a._mat == b._mat
            and a.default_weight == b.default_weight
            and a.default_remote_weight == b.default_remote_weight
        )
        return [] if ok else [path]
    if isinstance(a, dict):
        if sorted(map(repr, a)) != sorted(map(repr, b)):
            return [path + ':keys']
        out = []
        for k in a:
            out += same(a[k], b[k], '%s[%r]' % (path, k))
        return out
    if isinstance(a, (list, tuple)):
        if len(a) != len(b):
            return [path + ':len']
        out = []
        for i, (x, y) in enumerate(zip(a, b)):
            out += same(x, y, '%s[%d]' % (path, i))
        return out
    if isinstance(a, (set, frozenset)):
        return [] if sorted(map(repr, a)) == sorted(map(repr, b)) else [path]
    if hasattr(a, 'get_unitary') and hasattr(a, 'radixes'):   # a gate
        return [] if gkey(a) == gkey(b) else [path]
    try:
        return [] if a == b else [path]
    except Exception:
        return [path + ':uncomparable']


# ======================================================================
#                              circuits
# ======================================================================
_G: dict = {}


def gates_tbl() -> dict:
    """The gate alphabet of the circuit histories."""
    if _G:
        return _G
    from bqskit.ir.circuit import Circuit
    from bqskit.ir.gates import CCXGate, CircuitGate, CNOTGate
    from bqskit.ir.gates import ConstantUnitaryGate, ControlledGate, HGate
    from bqskit.ir.gates import RXGate, RZZGate, ShiftGate, U8Gate, U3Gate
    b1 = Circuit(2)
    b1.append_gate(RXGate(), 0, [0.7])
    b1.append_gate(CNOTGate(), (0, 1))
    b2 = Circuit(2)
    b2.append_gate(CircuitGate(b1), (0, 1), [0.9])
    b2.append_gate(HGate(), 1)
    b2.append_gate(U3Gate(), 0, [0.1, 0.2, 0.3])
    m = np.diag(np.exp(1j * np.arange(6) * 0.4))
    _G.update({
        'rx': (RXGate(), (2,)),
        'h': (HGate(), (2,)),
        'rzz': (RZZGate(), (2, 2)),
        'cx': (CNOTGate(), (2, 2)),
        'ccx': (CCXGate(), (2, 2, 2)),
        'u8': (U8Gate(), (3,)),
        'sh3': (ShiftGate(3), (3,)),
        'csh': (ControlledGate(ShiftGate(3), 1, 2), (2, 3)),
        'cu32': (ConstantUnitaryGate(m, [3, 2]), (3, 2)),
        'blk': (CircuitGate(b1), (2, 2)),
        'nest': (CircuitGate(b2), (2, 2)),
    })
    return _G


def gate_params(name: str, tagn: int) -> list:
    g = gates_tbl()[name][0]
    return [round(0.1 + 0.05 * tagn + 0.3 * j, 6)
            for j in range(g.num_params)]


SEEDS = {
    'empty3': {'radixes': [2, 2, 2], 'hist': []},
    'empty23': {'radixes': [2, 3], 'hist': []},
    'mid3': {'radixes': [2, 2, 2], 'hist': [
        ['append', 'rx', [0]], ['append', 'cx', [0, 1]],
        ['append', 'blk', [1, 2]], ['append', 'rzz', [2, 0]],
        ['append', 'h', [1]],
    ]},
    'mid23': {'radixes': [2, 3], 'hist': [
        ['append', 'u8', [1]], ['append', 'csh', [0, 1]],
        ['append', 'rx', [0]], ['append', 'cu32', [1, 0]],
    ]},
    'mid232': {'radixes': [2, 3, 2], 'hist': [
        ['append', 'csh', [2, 1]], ['append', 'nest', [0, 2]],
        ['append', 'sh3', [1]],
    ]},
}


def apply_move(c: Any, m: list, tagn: int) -> None:
    """Apply one history step to a real circuit (raises what the call
    raises)."""
    from bqskit.ir.region import CircuitRegion
    k = m[0]
    if k == 'append':
        g = gates_tbl()[m[1]][0]
        c.append_gate(g, m[2], gate_params(m[1], tagn))
    elif k == 'insert':
        g = gates_tbl()[m[1]][0]
        c.insert_gate(m[2], g, m[3], gate_params(m[1], tagn))
    elif k == 'pop':
        c.pop((m[1], m[2]))
    elif k == 'pop_default':
        c.pop()
    elif k == 'replace':
        g = gates_tbl()[m[3]][0]
        c.replace_gate((m[1], m[2]), g, m[4], gate_params(m[3], tagn))
    elif k == 'fold':
        c.fold(CircuitRegion({int(q): (m[1], m[2]) for q in m[3]}))
    elif k == 'unfold':
        c.unfold((m[1], m[2]))
    elif k == 'unfold_all':
        c.unfold_all()
    elif k == 'renumber':
        c.renumber_qudits(m[1])
    elif k == 'insert_qudit':
        c.insert_qudit(m[1], m[2])
    elif k == 'pop_qudit':
        c.pop_qudit(m[1])
    else:
        raise ValueError(k)


def build_history(seed: str, hist: list) -> Any:
    from bqskit.ir.circuit import Circuit
    s = SEEDS[seed]
    c = Circuit(len(s['radixes']), s['radixes'])
    for i, m in enumerate(s['hist']):
        apply_move(c, m, i)
    for i, m in enumerate(hist):
        apply_move(c, m, 10 + i)
    return c


def _locs(rad: tuple, need: tuple, ordered: bool) -> list:
    n = len(rad)
    out = []
    for loc in itertools.permutations(range(n), len(need)):
        if not ordered and list(loc) != sorted(loc):
            continue
        if all(rad[q] == r for q, r in zip(loc, need)):
            out.append(list(loc))
    return out


def moves(c: Any, thorough: bool) -> list:
    """Every call of the alphabet enabled in this state, arguments taken
    from the state itself."""
    from bqskit.ir.gates import CircuitGate
    rad = tuple(c.radixes)
    n = len(rad)
    T = gates_tbl()
    out: list = []
    for name, (g, need) in T.items():
        ordered = name in ('rzz', 'csh', 'cu32', 'blk')
        ls = _locs(rad, need, ordered)
        if name in ('nest', 'ccx') and ls:
            ls = [ls[0], ls[-1]] if len(ls) > 1 else ls
        for loc in ls:
            out.append(['append', name, loc])
    ncy = c.num_cycles
    ins_cycles = sorted({0, max(ncy - 1, 0)}) if ncy else [0]
    for name in ('rx', 'cx', 'u8', 'blk'):
        ls = _locs(rad, T[name][1], False)
        for cy in ins_cycles:
            for loc in (ls[:1] + ls[-1:] if len(ls) > 1 else ls):
                out.append(['insert', name, cy, loc])
    ops = []
    for cy in range(ncy):
        for q in range(n):
            if not c.is_point_idle((cy, q)):
                op = c[cy, q]
                if op.location[0] == q:
                    ops.append((cy, q, op))
    for cy, q, op in ops:
        out.append(['pop', cy, q])
        need = tuple(rad[x] for x in op.location)
        for name, (g, nd) in T.items():
            if nd == need and g != op.gate:
                out.append(['replace', cy, q, name, list(op.location)])
                break
        if isinstance(op.gate, CircuitGate):
            out.append(['unfold', cy, q])
    if ops:
        out.append(['pop_default'])
        if any(isinstance(op.gate, CircuitGate) for _, _, op in ops):
            out.append(['unfold_all'])
    qsets = [list(p) for p in itertools.combinations(range(n), 2)]
    if n > 2:
        qsets.append(list(range(n)))
    for c0 in range(ncy):
        for c1 in range(c0, min(ncy, c0 + (3 if thorough else 2))):
            for qs in qsets:
                out.append(['fold', c0, c1, qs])
    if n <= 3:
        for p in itertools.permutations(range(n)):
            if list(p) != list(range(n)):
                out.append(['renumber', list(p)])
    else:
        out.append(['renumber', list(range(1, n)) + [0]])
        out.append(['renumber', [1, 0] + list(range(2, n))])
    if n < 4:
        for idx in (0, n):
            for r in (2, 3):
                out.append(['insert_qudit', idx, r])
    if n > 1:
        for idx in range(n):
            out.append(['pop_qudit', idx])
    return out


def _unitary(c: Any) -> Any:
    try:
        return np.asarray(c.get_unitary().numpy)
    except Exception as e:
        return 'raises:' + type(e).__name__


def check_circuit_state(c: Any) -> list:
    """All shipping / copying judgements on one circuit.  Returns
    [(signature, detail)]."""
    from bqskit.ir.circuit import Circuit
    out: list = []
    k0 = circuit_key(c)
    p0 = [float(x) for x in c.params]
    u0 = _unitary(c)

    def receivers() -> list:
        r1 = Circuit(1)
        r2 = Circuit(2, [3, 2])
        from bqskit.ir.gates import ConstantUnitaryGate
        r2.append_gate(ConstantUnitaryGate(np.eye(6), [3, 2]), (0, 1))
        return [r1, r2]

    variants: list = []
    for nm, fn in (
        ('pickle', lambda x: pickle.loads(pickle.dumps(x))),
        ('dill', lambda x: dill.loads(dill.dumps(x))),
        ('copy', lambda x: x.copy()),
        ('deepcopy', lambda x: copy.deepcopy(x)),
    ):
        try:
            variants.append((nm, fn(c)))
        except Exception as e:
            out.append(('circuit-%s-raises-%s' % (nm, type(e).__name__),
                        str(e)[-200:]))
    # receiver kind alternates with the state so that both receivers meet
    # both modes over the enumeration without doubling the work
    flip = (len(k0[1]) + len(p0)) % 2
    for deep in (True, False):
        for ri, r in enumerate(receivers()):
            if ri != (flip if deep else 1 - flip):
                continue
            nm = 'become-%s' % ('deep' if deep else 'shallow')
            try:
                r.become(c, deep)
                variants.append((nm, r))
            except Exception as e:
                out.append(('circuit-%s-raises-%s' % (nm, type(e).__name__),
                            str(e)[-200:]))
    l0 = links_key(c)
    links_ok = l0 == links_from_grid(k0)   # else: C05's business, not ours
    for nm, d in variants:
        kd = circuit_key(d)
        if kd != k0:
            if kd[0] != k0[0]:
                what = 'radixes'
            elif len(kd[1]) != len(k0[1]):
                what = 'cycle-count'
            else:
                flat_o = [x for row in k0[1] for x in row if x is not None]
                flat_d = [x for row in kd[1] for x in row if x is not None]
                if sorted(map(repr, flat_o)) == sorted(map(repr, flat_d)):
                    what = 'cycle-layout'
                else:
                    what = 'operations'
            out.append(('circuit-%s-changes-%s' % (nm, what),
                        'original %s copy %s' % (k0, kd)))
            continue
        try:
            eq = (d == c) and (c == d) and not (d != c)
        except Exception as e:
            eq = 'raises ' + type(e).__name__
        if eq is not True:
            out.append(('circuit-%s-not-equal-to-original' % nm,
                        '== gives %r' % (eq,)))
        pd = [float(x) for x in d.params]
        if pd != p0:
            out.append(('circuit-%s-changes-params' % nm,
                        '%s vs %s' % (p0, pd)))
        ud = _unitary(d)
        if isinstance(u0, str) or isinstance(ud, str):
            if not (isinstance(u0, str) and isinstance(ud, str)):
                out.append(('circuit-%s-changes-unitary' % nm,
                            '%s vs %s' % (type(u0), type(ud))))
        elif u0.shape != ud.shape or not np.allclose(u0, ud, atol=1e-12):
            out.append(('circuit-%s-changes-unitary' % nm, 'matrix differs'))
        # gates and operations cell by cell with the library's == and hash
        bad = None
        for cy in range(c.num_cycles):
            for q in range(c.num_qudits):
                if c.is_point_idle((cy, q)):
                    continue
                a, b = c[cy, q], d[cy, q]
                if not (a == b and a.gate == b.gate):
                    bad = ('eq', cy, q)
                elif hash(a.gate) != hash(b.gate) or hash(a) != hash(b):
                    bad = ('hash', cy, q)
            if bad:
                break
        if bad:
            out.append((
                'circuit-%s-operation-%s-differs' % (nm, bad[0]),
                'cell %s: %s' % (bad[1:], cell_key(c[bad[1], bad[2]])),
            ))
        if links_ok and links_key(d) != l0:
            out.append(('circuit-%s-changes-links' % nm,
                        'next/prev/first_on/last_on: %s vs %s' % (
                            l0, links_key(d))))
        if dict_counts(c.gate_counts) != dict_counts(d.gate_counts) \
                or c.num_operations != d.num_operations \
                or c.num_params != d.num_params:
            out.append(('circuit-%s-changes-counters' % nm, ''))
    return out


def dict_counts(gc: Any) -> list:
    return sorted((repr(gkey(g)), int(v)) for g, v in gc.items())


def circuit_worker(arg: tuple) -> dict:
    """Check a chunk of states; when `expand`, also produce the children
    (built on copies, which doubles as the copy-independence test)."""
    chunk, expand, thorough = arg
    res = {'states': 0, 'viol': [], 'children': [], 'transitions': 0,
           'raised': 0, 'moves': {}, 'nontrivial': 0, 'indep': 0,
           'sample': None, 'maxcy': 0, 'outcomes': {}}
    for seed, hist in chunk:
        try:
            c = build_history(seed, hist)
        except Exception:
            # the recorded history no longer replays: not our property
            res['raised'] += 1
            continue
        res['states'] += 1
        res['maxcy'] = max(res['maxcy'], c.num_cycles)
        from bqskit.ir.gates import CircuitGate
        kinds = {m[0] for m in hist}
        if c.num_operations >= 2 and (
                kinds - {'append'} or
                any(isinstance(g, CircuitGate) for g in c.gate_set)):
            res['nontrivial'] += 1
        bad = check_circuit_state(c)
        for sig, what in bad:
            res['viol'].append((sig, '%s | seed %s history %s' % (
                what[:600], seed, hist), {'part': 'circuit', 'seed': seed,
                                          'hist': hist}, len(hist)))
        key = 'ok' if not bad else bad[0][0]
        res['outcomes'][key] = res['outcomes'].get(key, 0) + 1
        if res['sample'] is None and len(hist) >= 3 and \
                len(kinds) >= 3 and not bad:
            res['sample'] = {'seed': seed, 'history': hist,
                             'grid': circuit_key(c)}
        if not expand:
            continue
        k0 = [circuit_key(c), links_key(c), dict_counts(c.gate_counts)]
        for m in moves(c, thorough):
            d = c.copy()
            try:
                apply_move(d, m, 10 + len(hist))
            except Exception:
                res['raised'] += 1
                continue
            res['transitions'] += 1
            res['moves'][m[0]] = res['moves'].get(m[0], 0) + 1
            try:
                kd = circuit_key(d)
            except Exception:
                res['raised'] += 1
                continue
            res['children'].append((key_hash(kd), seed, hist + [m]))
        res['indep'] += 1
        if [circuit_key(c), links_key(c), dict_counts(c.gate_counts)] != k0:
            # find the culprit
            culprit = None
            for m in moves(c, thorough):
                c2 = build_history(seed, hist)
                k2 = [circuit_key(c2), links_key(c2),
                      dict_counts(c2.gate_counts)]
                d = c2.copy()
                try:
                    apply_move(d, m, 10 + len(hist))
                except Exception:
                    pass
                if [circuit_key(c2), links_key(c2),
                        dict_counts(c2.gate_counts)] != k2:
                    culprit = m
                    break
            res['viol'].append((
                'circuit-copy-shares-state-with-original-%s' % (
                    culprit[0] if culprit else 'unknown'),
                'mutating a copy() with %s changed the original | seed %s '
                'history %s' % (culprit, seed, hist),
                {'part': 'circuit-indep', 'seed': seed, 'hist': hist,
                 'move': culprit}, len(hist)))
    return res


def replay_circuit(obj: dict) -> list:
    c = build_history(obj['seed'], obj['hist'])
    if obj['part'] == 'circuit-indep':
        k0 = [circuit_key(c), links_key(c), dict_counts(c.gate_counts)]
        d = c.copy()
        try:
            apply_move(d, obj['move'], 10 + len(obj['hist']))
        except Exception:
            pass
        k1 = [circuit_key(c), links_key(c), dict_counts(c.gate_counts)]
        return [] if k1 == k0 else [('shared', '')]
    return check_circuit_state(c)


SEED_DEPTH = {
    'quick': {'empty3': 2, 'empty23': 2, 'mid3': 2, 'mid23': 2, 'mid232': 2},
    'thorough': {'empty3': 3, 'empty23': 3, 'mid3': 3, 'mid23': 3,
                 'mid232': 3},
}


def run_circuits(ctx: Ctx, viols: list, deadline: float) -> None:
    thorough = not ctx.quick
    depths = SEED_DEPTH['thorough' if thorough else 'quick']
    seeds = list(depths)
    frontier = [(s, []) for s in seeds]
    seen = set()
    for s in seeds:
        seen.add(key_hash(circuit_key(build_history(s, []))))
    total_states = total_tr = raised = 0
    movecount: dict = {}
    completed = -1
    per_depth: dict = {}
    d = 0
    while frontier:
        exp = [x for x in frontier if len(x[1]) < depths[x[0]]]
        leaf = [x for x in frontier if len(x[1]) >= depths[x[0]]]
        work = [(exp[i:i + 20], True, thorough)
                for i in range(0, len(exp), 20)] + \
               [(leaf[i:i + 60], False, thorough)
                for i in range(0, len(leaf), 60)]
        nxt = []
        n_done = 0
        for r in pmap(circuit_worker, work, procs=ctx.procs,
                      deadline=deadline):
            n_done += 1
            total_states += r['states']
            per_depth[d] = per_depth.get(d, 0) + r['states']
            total_tr += r['transitions']
            raised += r['raised']
            ctx.cov['evaluations'] += r['states']
            ctx.cov['distinct_nontrivial'] += r['nontrivial']
            for k, v in r['moves'].items():
                movecount[k] = movecount.get(k, 0) + v
            for k, v in r['outcomes'].items():
                ctx.outcomes['circuit:' + k] += v
            viols.extend(r['viol'])
            if r['sample'] is not None:
                ctx.sample({'circuit': r['sample']})
            for kh, seed, hist in r['children']:
                if kh not in seen:
                    seen.add(kh)
                    nxt.append((seed, hist))
        if n_done < len(work):
            ctx.cap('circuits: depth %d only partly judged (%d of %d chunks) '
                    'inside the time cap' % (d, n_done, len(work)))
            break
        completed = d
        nxt.sort(key=lambda x: (len(repr(x[1])), repr(x)))
        frontier = nxt
        d += 1
    ctx.cov['states'] = ctx.cov.get('states', 0) + total_states
    ctx.cov['transitions'] = ctx.cov.get('transitions', 0) + total_tr
    ctx.part('circuits', seeds=seeds, depth_bound_per_seed=depths,
             wall_s=round(ctx.elapsed(), 1),
             depth_completed=completed, distinct_states=total_states,
             states_per_depth=per_depth,
             transitions=total_tr, calls_that_raised=raised,
             calls_per_kind=movecount)


# ======================================================================
#                               gates
# ======================================================================
def gate_constructions() -> list:
    """(label, thunk) for every name in bqskit.ir.gates.__all__."""
    import inspect
    import bqskit.ir.gates as G
    from bqskit.ir.circuit import Circuit
    out: list = []
    special: dict = {}
    rx, cx, u3, h = G.RXGate(), G.CNOTGate(), G.U3Gate(), G.HGate()

    def sub2() -> Any:
        c = Circuit(2)
        c.append_gate(rx, 0, [0.3])
        c.append_gate(cx, (0, 1))
        return c

    u2 = np.array([[0, 1], [1, 0]], dtype=complex)
    u6 = np.diag(np.exp(1j * np.arange(6) * 0.3))
    special['ControlledGate'] = [
        lambda: G.ControlledGate(rx), lambda: G.ControlledGate(u3, 2),
        lambda: G.ControlledGate(G.ShiftGate(3), 1, 3, [[1, 2]]),
        lambda: G.ControlledGate(cx, 1, 2),
        lambda: G.ControlledGate(G.U8Gate(), 1, 2),
        lambda: G.ControlledGate(G.ControlledGate(rx), 1),
    ]
    special['PowerGate'] = [
        lambda: G.PowerGate(rx, 2), lambda: G.PowerGate(cx, -1),
        lambda: G.PowerGate(G.U8Gate(), 3),
        lambda: G.PowerGate(G.DaggerGate(u3), 2),
    ]
    special['DaggerGate'] = [
        lambda: G.DaggerGate(rx), lambda: G.DaggerGate(G.SGate()),
        lambda: G.DaggerGate(G.RZZGate()),
        lambda: G.DaggerGate(G.CircuitGate(sub2())),
    ]
    special['EmbeddedGate'] = [
        lambda: G.EmbeddedGate(rx, [3], [[0, 2]]),
        lambda: G.EmbeddedGate(cx, [3, 3], [[0, 1], [1, 2]]),
        lambda: G.EmbeddedGate(h, 4, [1, 3]),
    ]
    special['FrozenParameterGate'] = [
        lambda: G.FrozenParameterGate(u3, {0: 0.5}),
        lambda: G.FrozenParameterGate(u3, {1: 0.25, 2: -1.0}),
        lambda: G.FrozenParameterGate(G.CircuitGate(sub2()), {0: 0.1}),
    ]
    special['TaggedGate'] = [
        lambda: G.TaggedGate(rx, 'a'), lambda: G.TaggedGate(cx, ('t', 3)),
        lambda: G.TaggedGate(G.TaggedGate(u3, 1), 2),
    ]
    special['VariableLocationGate'] = [
        lambda: G.VariableLocationGate(cx, [(0, 1), (1, 2)], [2, 2, 2]),
        lambda: G.VariableLocationGate(rx, [(0,), (1,)], [2, 2]),
    ]
    special['ConstantUnitaryGate'] = [
        lambda: G.ConstantUnitaryGate(u2),
        lambda: G.ConstantUnitaryGate(u6, [2, 3]),
        lambda: G.ConstantUnitaryGate(u6, [3, 2]),
    ]
    special['VariableUnitaryGate'] = [
        lambda: G.VariableUnitaryGate(1), lambda: G.VariableUnitaryGate(2),
        lambda: G.VariableUnitaryGate(2, [2, 3]),
        lambda: G.VariableUnitaryGate(1, [3]),
    ]
    special['CircuitGate'] = [
        lambda: G.CircuitGate(sub2()),
        lambda: G.CircuitGate(Circuit(2, [2, 3])),
        lambda: _nested_gate(sub2()),
    ]
    special['IdentityGate'] = [
        lambda: G.IdentityGate(), lambda: G.IdentityGate(2),
        lambda: G.IdentityGate(2, [2, 3]),
    ]
    special['PermutationGate'] = [
        lambda: G.PermutationGate(2, [1, 0]),
        lambda: G.PermutationGate(3, [1, 2, 0]),
        lambda: G.PermutationGate(3, [0, 2, 1]),
    ]
    special['MeasurementPlaceholder'] = [
        lambda: G.MeasurementPlaceholder([('c', 2)], {0: ('c', 0),
                                                      1: ('c', 1)}),
        lambda: G.MeasurementPlaceholder([('a', 1), ('b', 1)],
                                         {0: ('b', 0)}),
    ]
    special['BarrierPlaceholder'] = [
        lambda: G.BarrierPlaceholder(2), lambda: G.BarrierPlaceholder(3),
    ]
    special['Reset'] = [lambda: G.Reset(), lambda: G.Reset(3)]
    special['PauliGate'] = [lambda: G.PauliGate(1), lambda: G.PauliGate(2)]
    special['PauliZGate'] = [lambda: G.PauliZGate(1), lambda: G.PauliZGate(2)]
    special['DiagonalGate'] = [
        lambda: G.DiagonalGate(1), lambda: G.DiagonalGate(2),
    ]
    special['MPRYGate'] = [lambda: G.MPRYGate(2), lambda: G.MPRYGate(3, 1)]
    special['MPRZGate'] = [lambda: G.MPRZGate(2), lambda: G.MPRZGate(3, 0)]
    special['ArbitraryCPhaseGate'] = [
        lambda: G.ArbitraryCPhaseGate([2, 2]),
        lambda: G.ArbitraryCPhaseGate([2, 3]),
        lambda: G.ArbitraryCPhaseGate([3, 3]),
    ]
    special['SubSwapGate'] = [
        lambda: G.SubSwapGate(3, '0,1;2,0'),
        lambda: G.SubSwapGate(2, '0,1;1,0'),
        lambda: G.SubSwapGate(4, '1,3;3,1'),
    ]
    special['RSU3Gate'] = [
        (lambda i=i: G.RSU3Gate(i)) for i in (0, 3, 7)
    ]
    from vf.c11_passes import HarnessPhaseGate
    out.append(('HarnessPhaseGate(1.0)', lambda: HarnessPhaseGate(1.0)))
    out.append(('HarnessPhaseGate(0.5)', lambda: HarnessPhaseGate(0.5)))
    abstract = {'ComposedGate', 'QuditGate', 'GeneralGate'}
    seen_cls = set()
    for name in G.__all__:
        cls = getattr(G, name)
        if name in abstract:
            out.append((name, None))
            continue
        if name in special:
            for i, th in enumerate(special[name]):
                out.append(('%s#%d' % (name, i), th))
            continue
        if not isinstance(cls, type):
            # a ready-made instance exported by name (U1qPiGate, ...)
            out.append((name + '(instance)', (lambda cls=cls: cls)))
            continue
        if cls in seen_cls:
            out.append((name + '(alias)', (lambda cls=cls: cls())))
            continue
        seen_cls.add(cls)
        try:
            sig = inspect.signature(cls.__init__)
            ps = [p for p in list(sig.parameters.values())[1:]
                  if p.kind in (p.POSITIONAL_OR_KEYWORD, p.KEYWORD_ONLY)]
        except (TypeError, ValueError):
            ps = []
        names = [p.name for p in ps]
        grid: list = [()]
        if names and names[0] in ('radix', 'num_levels'):
            grid = [(), (2,), (3,), (4,)]
        elif len(names) >= 2 and names[1] in ('radix', 'num_levels'):
            grid = [(0, 3), (1, 3), (2, 4)]
            if all(p.default is not p.empty for p in ps):
                grid.insert(0, ())
        elif names and names[0] == 'num_qudits':
            grid = [(1,), (2,), (3,)]
        elif names and names[0] in ('num_controls',):
            grid = [(), (2,)]
        for a in grid:
            out.append(('%s%r' % (name, a), (lambda cls=cls, a=a: cls(*a))))
        # the same constructions spelled with keyword arguments: a cached
        # gate is looked up under (args, kwargs), so this is a different
        # construction as far as the instance cache and pickling go
        for a in grid:
            if a and len(a) <= len(names):
                kw = dict(zip(names, a))
                out.append((
                    '%s(%s)' % (name, ','.join(
                        '%s=%r' % kv for kv in kw.items())),
                    (lambda cls=cls, kw=kw: cls(**kw)),
                ))
        # two keyword-built instances of one class travelling together
        if len(grid) >= 3 and grid[1] and grid[2] and \
                names and names[0] in ('radix', 'num_levels'):
            def pair(cls: Any = cls, nm: str = names[0]) -> Any:
                ga, gb = cls(**{nm: 3}), cls(**{nm: 4})
                c = Circuit(ga.num_qudits + gb.num_qudits,
                            list(ga.radixes) + list(gb.radixes))
                c.append_gate(ga, list(range(ga.num_qudits)),
                              [0.1] * ga.num_params)
                c.append_gate(gb, list(range(ga.num_qudits,
                                             c.num_qudits)),
                              [0.2] * gb.num_params)
                return G.CircuitGate(c)
            out.append(('%s(kw-pair 3,4 in one circuit)' % name, pair))
    return out


def _nested_gate(sub: Any) -> Any:
    import bqskit.ir.gates as G
    from bqskit.ir.circuit import Circuit
    c = Circuit(3)
    c.append_gate(G.CircuitGate(sub), (0, 2), [0.4])
    c.append_gate(G.RZZGate(), (1, 2), [0.2])
    return G.CircuitGate(c)


def gate_points(g: Any, seed: int) -> list:
    n = g.num_params
    rng = np.random.RandomState(1000 + seed)
    generic = [float(x) for x in rng.uniform(-3, 3, n)]
    return [[0.0] * n, generic]


def check_gate(label: str, g: Any, seed: int) -> list:
    from bqskit.ir.operation import Operation
    from bqskit.utils.cachedclass import CachedClass
    out: list = []
    short = label.split('#')[0].split('(')[0]

    def uni(x: Any, p: list) -> Any:
        try:
            return np.asarray(x.get_unitary(p).numpy)
        except Exception as e:
            return 'raises:' + type(e).__name__
    pts = gate_points(g, seed)
    us = [uni(g, p) for p in pts]
    is_single = False
    if isinstance(g, CachedClass):
        try:
            ck = g.__cache_key__
            is_single = type(g)(*ck[1], **ck[2]) is g
        except Exception:
            is_single = False
    for nm, fn in (('pickle', lambda x: pickle.loads(pickle.dumps(x))),
                   ('dill', lambda x: dill.loads(dill.dumps(x))),
                   ('deepcopy', lambda x: copy.deepcopy(x))):
        try:
            h = fn(g)
        except Exception as e:
            out.append(('gate-%s-raises-%s-%s' % (
                nm, type(e).__name__, short), str(e)[-200:]))
            continue
        if type(h) is not type(g):
            out.append(('gate-%s-changes-type-%s' % (nm, short), ''))
            continue
        try:
            eq = (h == g) and (g == h)
        except Exception as e:
            eq = 'raises ' + type(e).__name__
        if eq is not True:
            out.append(('gate-%s-not-equal-%s' % (nm, short),
                        '== gives %r' % (eq,)))
        try:
            if hash(h) != hash(g):
                out.append(('gate-%s-changes-hash-%s' % (nm, short), ''))
        except TypeError:
            pass
        if (h.num_params, tuple(h.radixes), h.num_qudits, h.name) != \
                (g.num_params, tuple(g.radixes), g.num_qudits, g.name):
            out.append(('gate-%s-changes-attributes-%s' % (nm, short), ''))
        for p, u in zip(pts, us):
            v = uni(h, p)
            if isinstance(u, str) or isinstance(v, str):
                if u is not v and not (isinstance(u, str)
                                       and isinstance(v, str) and u == v):
                    out.append(('gate-%s-changes-unitary-%s' % (nm, short),
                                '%s vs %s' % (u if isinstance(u, str) else
                                              'matrix', v if isinstance(
                                                  v, str) else 'matrix')))
                    break
            elif u.shape != v.shape or not np.allclose(u, v, atol=1e-12):
                out.append(('gate-%s-changes-unitary-%s' % (nm, short), ''))
                break
        if is_single and nm in ('pickle', 'dill') and h is not g:
            out.append(('gate-%s-duplicates-cached-singleton-%s' % (
                nm, short), ''))
        # inside a circuit (twice, at two parameter points)
        try:
            from bqskit.ir.circuit import Circuit
            c = Circuit(g.num_qudits, g.radixes)
            loc = list(range(g.num_qudits))
            c.append_gate(g, loc, pts[1])
            c.append_gate(g, loc, pts[0])
            c2 = fn(c)
            uc, uc2 = _unitary(c), _unitary(c2)
            okc = (circuit_key(c2) == circuit_key(c) and c2 == c
                   and [float(x) for x in c2.params]
                   == [float(x) for x in c.params]
                   and (uc == uc2 if isinstance(uc, str)
                        or isinstance(uc2, str)
                        else np.allclose(uc, uc2, atol=1e-12)))
            if not okc:
                out.append(('circuit-%s-with-gate-differs-%s' % (nm, short),
                            '%s vs %s' % (circuit_key(c), circuit_key(c2))))
        except Exception as e:
            out.append(('circuit-%s-with-gate-raises-%s-%s' % (
                nm, type(e).__name__, short), str(e)[-200:]))
        # as an operation
        if nm == 'deepcopy':
            continue
        try:
            loc = list(range(g.num_qudits))
            op = Operation(g, loc, pts[1])
            op2 = fn(op)
            ok = (op2 == op and hash(op2) == hash(op)
                  and list(op2.params) == list(op.params)
                  and tuple(op2.location) == tuple(op.location)
                  and gkey(op2.gate) == gkey(op.gate))
            if not ok:
                out.append(('operation-%s-not-equal-%s' % (nm, short), ''))
        except Exception as e:
            out.append(('operation-%s-raises-%s-%s' % (
                nm, type(e).__name__, short), str(e)[-200:]))
    return out


def gates_worker(arg: tuple) -> dict:
    idxs, seed = arg
    cons = gate_constructions()
    res = {'n': 0, 'viol': [], 'skipped': [], 'classes': set(),
           'nontrivial': 0, 'outcomes': {}}
    for i in idxs:
        label, th = cons[i]
        if th is None:
            res['skipped'].append(label + ':abstract')
            continue
        try:
            g = th()
        except Exception as e:
            res['skipped'].append('%s:%s' % (label, type(e).__name__))
            continue
        res['n'] += 1
        res['classes'].add(type(g).__name__)
        if (g.num_params > 0 or g.num_qudits > 1) \
                and '(alias)' not in label:
            res['nontrivial'] += 1
        bad = check_gate(label, g, seed)
        key = 'ok' if not bad else bad[0][0]
        res['outcomes'][key] = res['outcomes'].get(key, 0) + 1
        for sig, what in bad:
            res['viol'].append((sig, '%s | %s' % (what, label),
                                {'part': 'gate', 'label': label}, 0))
    res['classes'] = sorted(res['classes'])
    return res


# ======================================================================
#                               models
# ======================================================================
def gate_sets() -> list:
    import bqskit.ir.gates as G
    return [
        None,
        [G.CNOTGate(), G.U3Gate()],
        [G.CZGate(), G.RZGate(), G.SXGate(), G.ControlledGate(G.RXGate())],
        [G.CSUMGate(3), G.U8Gate(), G.ConstantUnitaryGate(np.eye(3), [3])],
    ]


def model_cases() -> list:
    """JSON specs: every labelled graph on <= 4 vertices, two edge orders,
    gate sets, radixes; plus weighted / remote variants."""
    out = []
    for n in (1, 2, 3, 4):
        pairs = list(itertools.combinations(range(n), 2))
        for mask in range(1 << len(pairs)):
            edges = [list(pairs[i]) for i in range(len(pairs))
                     if mask >> i & 1]
            for order in ('fwd', 'rev'):
                if order == 'rev' and len(edges) < 2:
                    continue
                for gs in range(4):
                    for rk in ('q', 'mixed', 't'):
                        if gs == 3 and rk != 't':
                            continue
                        if gs in (1, 2) and rk != 'q':
                            continue
                        # full product only for the default gate set
                        out.append({'n': n, 'edges': edges, 'order': order,
                                    'gs': gs, 'rk': rk, 'w': None})
            if edges:
                out.append({'n': n, 'edges': edges, 'order': 'fwd', 'gs': 0,
                            'rk': 'q', 'w': 'remote'})
                out.append({'n': n, 'edges': edges, 'order': 'rev', 'gs': 1,
                            'rk': 'q', 'w': 'weights'})
    return out


def build_model(spec: dict) -> tuple:
    from bqskit.compiler.machine import MachineModel
    from bqskit.qis.graph import CouplingGraph
    n = spec['n']
    edges = [tuple(e) for e in spec['edges']]
    if spec['order'] == 'rev':
        edges = [(b, a) for a, b in reversed(edges)]
    if spec['w'] == 'remote':
        cg = CouplingGraph(edges, n, remote_edges=edges[:1],
                           default_weight=2.0, default_remote_weight=50.0)
    elif spec['w'] == 'weights':
        cg = CouplingGraph(edges, n, edge_weights_overrides={
            edges[-1]: 7.5})
    else:
        cg = CouplingGraph(edges, n)
    rad = {'q': [2] * n, 't': [3] * n,
           'mixed': [2 + (i % 2) for i in range(n)]}[spec['rk']]
    gs = gate_sets()[spec['gs']]
    m = MachineModel(n, cg, gs, rad)
    return cg, m


def check_model(spec: dict) -> list:
    from bqskit.compiler.passdata import PassData  # noqa: F401
    out: list = []
    cg, m = build_model(spec)
    for nm, fn in (('pickle', lambda x: pickle.loads(pickle.dumps(x))),
                   ('dill', lambda x: dill.loads(dill.dumps(x))),
                   ('deepcopy', lambda x: copy.deepcopy(x))):
        for what, obj in (('couplinggraph', cg), ('gateset', m.gate_set),
                          ('machinemodel', m)):
            try:
                o2 = fn(obj)
            except Exception as e:
                out.append(('%s-%s-raises-%s' % (
                    what, nm, type(e).__name__), str(e)[-200:]))
                continue
            d = same(obj, o2, what)
            if d:
                out.append(('%s-%s-changes-%s' % (what, nm, _short(d[0])),
                            str(d)))
                continue
            if what == 'couplinggraph':
                if not (o2 == obj and obj == o2):
                    out.append(('couplinggraph-%s-not-equal' % nm, ''))
                if hash(o2) != hash(obj):
                    if sorted(obj) == sorted(o2) and list(obj) != list(o2):
                        sg = ('couplinggraph-hash-depends-on-edge-set-'
                              'iteration-order')
                    else:
                        sg = 'couplinggraph-%s-changes-hash' % nm
                    out.append((
                        sg, '%s: equal graphs, different hash; edges '
                        'iterate %s before, %s after' % (
                            nm, list(obj), list(o2))))
                for a in range(obj.num_qudits):
                    if sorted(obj.get_neighbors_of(a)) != \
                            sorted(o2.get_neighbors_of(a)):
                        out.append(('couplinggraph-%s-changes-adjacency'
                                    % nm, ''))
                        break
            if what == 'gateset':
                if hash(o2) != hash(obj):
                    out.append(('gateset-%s-changes-hash' % nm, ''))
                if not all(g in o2 for g in obj) or len(o2) != len(obj):
                    out.append(('gateset-%s-changes-membership' % nm, ''))
    return out


def _short(path: str) -> str:
    import re
    p = re.sub(r'\[.*?\]', '', path)
    p = p.replace(':', '-').replace('.', '-').strip('-')
    return p or 'value'


def models_worker(chunk: list) -> dict:
    res = {'n': 0, 'viol': [], 'nontrivial': 0, 'outcomes': {}}
    for spec in chunk:
        res['n'] += 1
        if len(spec['edges']) >= 2:
            res['nontrivial'] += 1
        try:
            bad = check_model(spec)
        except Exception as e:
            bad = [('model-construction-raises-' + type(e).__name__,
                    str(e)[-200:])]
        key = 'ok' if not bad else bad[0][0]
        res['outcomes'][key] = res['outcomes'].get(key, 0) + 1
        for sig, what in bad:
            res['viol'].append((sig, '%s | %s' % (what, spec),
                                {'part': 'model', 'spec': spec},
                                len(spec['edges'])))
    return res


# ======================================================================
#                               passdata
# ======================================================================
def pd_fields() -> tuple:
    """(attribute names, reserved keys) by introspection."""
    from bqskit.compiler.passdata import PassData
    from bqskit.ir.circuit import Circuit
    attrs = sorted(vars(PassData(Circuit(2))))
    return attrs, list(PassData._reserved_keys)


def pd_nondefault(key: str, n: int) -> Any:
    """A non-default value for a reserved key on an n-qudit source."""
    import bqskit.ir.gates as G
    from bqskit.compiler.machine import MachineModel
    from bqskit.qis.unitary.unitarymatrix import UnitaryMatrix
    if key == 'target':
        d = np.exp(1j * np.arange(2 ** n) * 0.37)
        return UnitaryMatrix(np.diag(d))
    if key in ('model', 'machine_model'):
        return MachineModel(n + 1, [(i, i + 1) for i in range(n)],
                            [G.CZGate(), G.U3Gate()])
    if key == 'placement':
        return list(range(n, 0, -1))
    if key == 'error':
        return 0.0625
    if key == 'seed':
        return 1234
    if key == 'initial_mapping':
        return list(range(1, n)) + [0]
    if key == 'final_mapping':
        return list(reversed(range(n)))
    return None


def pd_cases() -> list:
    _, reserved = pd_fields()
    cases = [{'set': [], 'user': False, 'target': 'unitary'}]
    for k in reserved:
        cases.append({'set': [k], 'user': False, 'target': 'unitary'})
    cases.append({'set': list(reserved), 'user': True, 'target': 'unitary'})
    cases.append({'set': [], 'user': True, 'target': 'unitary'})
    for t in ('state', 'system', 'lazy'):
        cases.append({'set': [k for k in reserved if k != 'target'],
                      'user': True, 'target': t})
    return cases


def build_pd(case: dict) -> Any:
    import bqskit.ir.gates as G
    from bqskit.compiler.passdata import PassData
    from bqskit.ir.circuit import Circuit
    from bqskit.qis.state.state import StateVector
    from bqskit.qis.state.system import StateSystem
    n = 9 if case['target'] == 'lazy' else 3
    c = Circuit(n)
    c.append_gate(G.CNOTGate(), (0, 1))
    c.append_gate(G.RXGate(), 2, [0.3])
    pd = PassData(c)
    for k in case['set']:
        if k == 'target' and case['target'] != 'unitary':
            continue
        v = pd_nondefault(k, n)
        if v is None:
            raise RuntimeError('no non-default value known for reserved key '
                               '%r: extend pd_nondefault' % k)
        pd[k] = v
    if case['target'] == 'state':
        v = np.exp(1j * np.arange(8)) / np.sqrt(8)
        pd.target = StateVector(v)
    elif case['target'] == 'system':
        a = np.zeros(8, dtype=complex)
        a[0] = 1
        b = np.zeros(8, dtype=complex)
        b[3] = 1
        pd.target = StateSystem({StateVector(a): StateVector(b)})
    if case['user']:
        pd['k_list'] = [1, [2, {'x': (3, 4)}], 'five']
        pd['k_dict'] = {'a': {'b': [1.5, None]}, 'c': np.arange(4.0)}
        pd['k_circ'] = c.copy()
        pd['k_model'] = pd_nondefault('model', 2)
        pd['ForEachBlockPass_data'] = [[{'point': (0, 1), 'e': 1e-9}]]
    return pd


def pd_receiver(kind: str) -> Any:
    import bqskit.ir.gates as G
    from bqskit.compiler.passdata import PassData
    from bqskit.ir.circuit import Circuit
    c = Circuit(2)
    c.append_gate(G.HGate(), 0)
    r = PassData(c)
    if kind == 'dirty':
        r.error = 0.5
        r.seed = 77
        r.initial_mapping = [1, 0]
        r.final_mapping = [1, 0]
        r.placement = [5, 4]
    return r


def pd_diff(src: Any, dst: Any, attrs: list, reserved: list) -> list:
    """Names of fields in which dst differs from src."""
    bad = []
    for a in attrs:
        if not hasattr(dst, a):
            bad.append(a.lstrip('_'))
            continue
        if same(getattr(src, a), getattr(dst, a), a):
            bad.append(a.lstrip('_'))
    for k in reserved:
        if k == 'target':
            # reading it would evaluate a lazy target: compared raw above
            continue
        if same(src[k], dst[k], k):
            nm = 'model' if k == 'machine_model' else k
            if nm not in bad:
                bad.append(nm)
    ks, kd = sorted(src.keys()), sorted(dst.keys())
    if ks != kd and 'data' not in bad:
        bad.append('data')
    return sorted(set(bad))


def fields_label(fs: list) -> str:
    if set(fs) == {'initial_mapping', 'final_mapping'}:
        return 'mappings'
    return '+'.join(fs)


def check_passdata(case: dict) -> tuple:
    attrs, reserved = pd_fields()
    out: list = []
    n_ops = 0
    src = build_pd(case)
    snapshot = pickle.dumps(src)

    def ops() -> list:
        def do_become(deep: bool, rk: str) -> Any:
            r = pd_receiver(rk)
            r.become(src, deep)
            return r

        def do_update(rk: str) -> Any:
            r = pd_receiver(rk)
            r.update(src)
            return r
        return [
            ('pickle', lambda: pickle.loads(pickle.dumps(src))),
            ('dill', lambda: dill.loads(dill.dumps(src))),
            ('copy', lambda: src.copy()),
            ('become', lambda: do_become(False, 'fresh')),
            ('become', lambda: do_become(False, 'dirty')),
            ('become-deepcopy', lambda: do_become(True, 'fresh')),
            ('become-deepcopy', lambda: do_become(True, 'dirty')),
            ('update', lambda: do_update('fresh')),
            ('update', lambda: do_update('dirty')),
        ]
    for nm, fn in ops():
        n_ops += 1
        try:
            dst = fn()
        except Exception as e:
            out.append(('passdata-%s-raises-%s' % (nm, type(e).__name__),
                        str(e)[-300:]))
            continue
        bad = pd_diff(src, dst, attrs, reserved)
        if bad:
            base = 'become' if nm.startswith('become') else nm
            out.append(('passdata-%s-drops-%s' % (base, fields_label(bad)),
                        '%s: receiver differs from source in %s' % (nm, bad)))
        if nm in ('copy', 'become-deepcopy', 'pickle', 'dill') and not bad:
            # no shared mutable state: mutate the receiver everywhere
            try:
                _scramble(dst)
            except Exception:
                pass
            again = pickle.loads(snapshot)
            changed = pd_diff(again, src, attrs, reserved)
            if changed and nm != 'become-deepcopy':
                out.append((
                    'passdata-%s-shares-%s-with-source' % (
                        nm, fields_label(changed)),
                    'mutating the %s changed the source in %s' % (
                        nm, changed)))
                src = pickle.loads(snapshot)
            elif changed:
                src = pickle.loads(snapshot)
    return out, n_ops


def _scramble(pd: Any) -> None:
    """Mutate every mutable thing reachable from a PassData in place."""
    pd.initial_mapping.reverse()
    pd.final_mapping.append(99)
    pd.placement.append(98)
    for k in list(pd._data):
        v = pd._data[k]
        if isinstance(v, list):
            v.append('scrambled')
            if len(v) > 1 and isinstance(v[1], list):
                v[1].append('scrambled')
        elif isinstance(v, dict):
            v['scrambled'] = 1
            for vv in v.values():
                if isinstance(vv, dict):
                    vv['scrambled'] = 1
                elif isinstance(vv, np.ndarray):
                    vv[...] = -1
    pd._data['new'] = 1
    import bqskit.ir.gates as G
    if 'k_circ' in pd._data:
        pd._data['k_circ'].append_gate(G.XGate(), 0)
    pd.model.gate_set = pd.model.gate_set.union([G.TGate()])
    pd.model.coupling_graph._adj[0].add(77)


def passdata_worker(chunk: list) -> dict:
    res = {'n': 0, 'viol': [], 'nontrivial': 0, 'outcomes': {}}
    for case in chunk:
        bad, nops = check_passdata(case)
        res['n'] += nops
        if case['set'] or case['user']:
            res['nontrivial'] += nops
        key = 'ok' if not bad else bad[0][0]
        res['outcomes'][key] = res['outcomes'].get(key, 0) + 1
        for sig, what in bad:
            res['viol'].append((sig, '%s | case %s' % (what, case),
                                {'part': 'passdata', 'case': case},
                                len(case['set']) + 5 * int(case['user'])))
    return res


# ======================================================================
#                               workflows
# ======================================================================
def workflow_worker(arg: tuple) -> dict:
    """Ship the real passes of a term; run original and copy on the same
    input under the same scripts; compare traces and results."""
    from vf import c11_passes as P
    from vf.checks import c11
    from vf.loopback import run_workflow, TaskError
    from bqskit.compiler.workflow import Workflow
    term, bound = arg
    res = {'n': 0, 'viol': [], 'nontrivial': 0, 'outcomes': {}, 'sample': None}
    # scripts: the complete decision tree of the reference interpreter
    scripts_list = []
    stack = [{}]
    while stack:
        scripts = stack.pop()
        S = c11.Script(scripts, bound)
        c11.interp(term, c11.snap(c11._probe_state()), [], S)
        if S.first_exhausted is not None:
            p = S.first_exhausted
            cur = tuple(scripts.get(p, ()))
            for ans in (True, False):
                s2 = dict(scripts)
                s2[p] = list(cur + (ans,))
                stack.append(s2)
            continue
        scripts_list.append(scripts)
    kind = c11.KIND_NAME[term[0]]
    wf = Workflow([P.build(term)], 'named-%s' % kind)
    ships = []
    ways = [('dill', lambda x: dill.loads(dill.dumps(x))),
            ('pickle', lambda x: pickle.loads(pickle.dumps(x)))]
    if bound >= 3:
        ways += [('dill-recurse',
                  lambda x: dill.loads(dill.dumps(x, recurse=True))),
                 ('deepcopy', lambda x: copy.deepcopy(x))]
    for nm, fn in ways:
        try:
            ships.append((nm, fn(wf)))
        except Exception as e:
            res['viol'].append((
                'workflow-%s-raises-%s-%s' % (nm, type(e).__name__, kind),
                '%s | term %s' % (str(e)[-300:], term),
                {'part': 'workflow', 'term': term, 'bound': bound}, 0))
    circ, d0 = c11.control_initial()

    def run(w: Any, scripts: dict) -> tuple:
        P.reset(scripts)
        try:
            out, data = run_workflow(circ.copy(), w, data=copy.deepcopy(d0))
        except TaskError as e:
            return ([list(e) for e in P.TRACE], 'raised ' + str(e)[-200:])
        return ([list(e) for e in P.TRACE], P.observe(out, data))
    for scripts in scripts_list:
        ref = run(wf, scripts)
        for nm, w2 in ships:
            res['n'] += 1
            if scripts:
                res['nontrivial'] += 1
            sig = None
            if w2.name != wf.name or len(w2) != len(wf):
                sig = 'workflow-%s-changes-name-or-length' % nm
            else:
                got = run(w2, scripts)
                if _trace_names(got[0]) != _trace_names(ref[0]):
                    sig = 'workflow-%s-changes-trace-%s' % (nm, kind)
                elif isinstance(ref[1], str) or isinstance(got[1], str):
                    if not (isinstance(ref[1], str)
                            and isinstance(got[1], str)):
                        sig = 'workflow-%s-changes-failure-%s' % (nm, kind)
                elif c11.diff_obs(ref[1], got[1]) or any(
                        _ev_diff(a, b) for a, b in zip(ref[0], got[0])):
                    sig = 'workflow-%s-changes-result-%s' % (nm, kind)
            key = sig or 'ok'
            res['outcomes'][key] = res['outcomes'].get(key, 0) + 1
            if sig:
                res['viol'].append((
                    sig, 'term %s scripts %s' % (term, scripts),
                    {'part': 'workflow', 'term': term, 'bound': bound},
                    len(repr(term))))
        if res['sample'] is None and len(ref[0]) >= 4:
            res['sample'] = {'term': term, 'scripts': scripts,
                             'trace': _trace_names(ref[0])}
    return res


def _trace_names(tr: list) -> list:
    return [e[:3] if e[0] != 'body' else e[:2] for e in tr]


def _ev_diff(a: list, b: list) -> bool:
    from vf.checks import c11
    if a[0] in ('body', 'pred'):
        return bool(c11.diff_obs(a[-1], b[-1]))
    return a[3:] != b[3:]


def foreach_ship_cases() -> list:
    from vf.c11_passes import STRING_METHODS
    out = []
    for cf in ('default', 'width2', 'all', 'parity'):
        for rf in ('always', 'less-than', 'fn-always', 'fn-never',
                   'fn-width2') + tuple(STRING_METHODS[4:6]):
            for body in ('grow', 'perturb3'):
                out.append({'cf': cf, 'rf': rf, 'body': body})
    return out


def foreach_ship_worker(chunk: list) -> dict:
    from vf import c11_passes as P
    from vf.checks import c11
    from vf.loopback import run_workflow, TaskError
    from bqskit.compiler.workflow import Workflow
    from bqskit.passes import QuickPartitioner
    res = {'n': 0, 'viol': [], 'nontrivial': 0, 'outcomes': {}}
    spec = {'radixes': [2, 2, 2], 'base': [
        ['g', 0, 1], ['g', 1], ['g', 1, 2], ['g', 0, 1, 2], ['g', 2, 0]]}
    circ = c11.build_input(spec)
    for cfg in chunk:
        wf = Workflow([QuickPartitioner(2), P.build_foreach(
            cfg['body'], True, cfg['cf'], cfg['rf'])])

        def run(w: Any) -> tuple:
            P.reset()
            try:
                out, data = run_workflow(circ.copy(), w)
            except TaskError as e:
                return ('raised', str(e)[-200:], None)
            return (sorted(repr(e) for e in P.TRACE), circuit_key(out),
                    float(data.error))
        ref = run(wf)
        for nm, fn in (('dill', lambda x: dill.loads(dill.dumps(x))),
                       ('pickle', lambda x: pickle.loads(pickle.dumps(x)))):
            res['n'] += 1
            res['nontrivial'] += 1
            sig = None
            try:
                w2 = fn(wf)
                got = run(w2)
                if got != ref:
                    sig = 'workflow-%s-changes-foreach-behaviour' % nm
            except Exception as e:
                sig = 'workflow-%s-raises-%s-foreach' % (
                    nm, type(e).__name__)
            key = sig or 'ok'
            res['outcomes'][key] = res['outcomes'].get(key, 0) + 1
            if sig:
                res['viol'].append((sig, 'cfg %s' % cfg,
                                    {'part': 'foreach-ship', 'cfg': cfg}, 0))
    return res


# ======================================================================
#                               driver
# ======================================================================
def misc_worker(item: tuple) -> tuple:
    part, arg = item
    fn = {'gates': gates_worker, 'models': models_worker,
          'passdata': passdata_worker, 'workflows': workflow_worker,
          'foreach-ship': foreach_ship_worker}[part]
    return part, fn(arg)


def _take(ctx: Ctx, part: str, r: dict, viols: list) -> None:
    ctx.cov['evaluations'] += r['n']
    ctx.cov['distinct_nontrivial'] += r['nontrivial']
    for k, v in r['outcomes'].items():
        ctx.outcomes['%s:%s' % (part, k)] += v
    viols.extend(r['viol'])
    if r.get('sample') is not None:
        ctx.sample({part: r['sample']})


def run(ctx: Ctx) -> None:
    from vf.checks import c11
    c11._warm()
    thorough = not ctx.quick
    ctx.cov['rule'] = (
        'circuits: >= 2 operations and either a non-append call in the '
        'history or a CircuitGate present; gates: parameterised or '
        'multi-qudit; models: >= 2 edges; passdata: at least one field away '
        'from its default; workflows: at least one scripted predicate call'
    )
    viols: list = []

    # ---- everything but the circuits in one pool
    cons = gate_constructions()
    idxs = list(range(len(cons)))
    k = max(1, min(ctx.procs, 8))
    mc = model_cases()
    attrs, reserved = pd_fields()
    pc = pd_cases()
    terms = [t for t in c11.all_terms(False) if not (t[0] == 'par' and t[3])]
    if thorough:
        terms += [t for t in c11.all_terms(False) if t[0] == 'par' and t[3]]
    bound = 3 if thorough else 2
    fc = foreach_ship_cases()
    cnt = {'gates': 0, 'models': 0, 'passdata': 0, 'workflows': 0,
           'foreach-ship': 0}
    items_done = {k2: 0 for k2 in cnt}
    # cheap and decisive: judged right here before any pool exists
    r = passdata_worker(pc)
    _take(ctx, 'passdata', r, viols)
    cnt['passdata'] += r['n']
    work: list = []
    work += [('models', mc[i:i + 60]) for i in range(0, len(mc), 60)]
    work += [('gates', (idxs[i::k], ctx.seed)) for i in range(k)]
    work += [('foreach-ship', fc[i:i + 4]) for i in range(0, len(fc), 4)]
    work += [('workflows', (t, bound)) for t in terms]
    dl = ctx.t0 + (500 if thorough else 40)
    classes: set = set()
    skipped: list = []
    for part, r in pmap(misc_worker, work, procs=ctx.procs, deadline=dl):
        _take(ctx, 'workflows' if part == 'foreach-ship' else part, r, viols)
        cnt[part] += r['n']
        items_done[part] += 1
        if part == 'gates':
            classes |= set(r['classes'])
            skipped += r['skipped']
    for part in cnt:
        tot = sum(1 for w in work if w[0] == part)
        if items_done[part] < tot:
            ctx.cap('%s: %d of %d work items inside the time cap'
                    % (part, items_done[part], tot))
    import bqskit.ir.gates as G
    ctx.part('gates', names_in_all=len(G.__all__),
             constructions=cnt['gates'], classes_constructed=len(classes),
             not_constructed=sorted(skipped))
    ctx.part('models', cases=cnt['models'], cases_enumerated=len(mc),
             graphs_up_to_vertices=4)
    ctx.part('passdata', cases=len(pc), operations=cnt['passdata'],
             fields_by_introspection=attrs, reserved_keys=reserved)
    ctx.part('workflows', terms=items_done['workflows'],
             terms_enumerated=len(terms), script_bound=bound,
             comparisons=cnt['workflows'],
             foreach_configs=len(fc), foreach_comparisons=cnt['foreach-ship'],
             wall_s=round(ctx.elapsed(), 1))

    # ---- circuits (largest: last, inside what is left of the budget)
    deadline = ctx.t0 + (1700 if thorough else 75)
    run_circuits(ctx, viols, deadline)

    ctx.assumptions.extend([
        'MachineModel, GateSet, PassData and Workflow define no __eq__: for '
        'them "equal" is judged field by field through the public API by '
        'comparators of the harness; Circuit, gates, Operation and '
        'CouplingGraph must additionally satisfy their own == (and hash)',
        'a history is not continued past a call that raised; a state whose '
        'next/prev links already disagree with its grid (C05 territory) is '
        'exempt from the link comparison, everything else is still judged',
        'become() is judged for equality only (the statement asks for '
        'independence of copy() alone)',
        'history depth is counted from five seed circuits (two empty, three '
        'built by 3-5 appends incl. a CircuitGate, a nested CircuitGate and '
        'qutrit gates)',
    ])
    if not ctx.cov['samples']:
        ctx.sample({'passdata-case': pc[-1]})
    viols.sort(key=lambda v: (v[3], len(repr(v[2])), repr(v[2])))
    for sig, what, rep, _ in viols:
        ctx.violation(sig, what, rep)


def replay(ctx: Ctx, obj: dict) -> bool:
    part = obj['part']
    if part in ('circuit', 'circuit-indep'):
        bad = replay_circuit(obj)
    elif part == 'gate':
        cons = dict(gate_constructions())
        bad = check_gate(obj['label'], cons[obj['label']](), ctx.seed)
    elif part == 'model':
        bad = check_model(obj['spec'])
    elif part == 'passdata':
        bad = check_passdata(obj['case'])[0]
    elif part == 'workflow':
        bad = workflow_worker((obj['term'], obj.get('bound', 2)))['viol']
    elif part == 'foreach-ship':
        bad = foreach_ship_worker([obj['cfg']])['viol']
    else:
        raise ValueError(part)
    for b in bad:
        print('#', b[0], '--', str(b[1])[:400])
    return not bad
