"""C12 -- cancelling work removes it everywhere and disturbs nothing else
(E1: the C07 worlds with cancel-bearing trees and client cancel/disconnect)."""
from __future__ import annotations

from vf import judges  # noqa: F401
from vf.checks import c07
from vf.common import Ctx
from vf.scenarios import L, A, TOPOS, boss_spec

LEVEL = 'model_checking'

CTREES = {
    # cancel immediately after submit, then await -> must raise
    'cancel-await': ['cancel', L(1), True],
    'cancel-noawait': ['cancel', L(1), False],
    # the cancelled child has children of its own
    'cancel-parent': ['cancel', ['map', [L(1), L(2)]], False],
    'cancel-deep': ['cancel', ['submit', ['map', [L(1), L(2)]]], True],
    # after one next() batch
    'mapcancel2': ['mapcancel', [L(1), L(2)]],
    'mapcancel3': ['mapcancel', [L(1), L(2), L(3)]],
    'mapcancel-nested': ['mapcancel', [['submit', L(1)], ['map', [L(2), L(3)]]]],
    # sibling work that is not cancelled must complete
    'cancel-sib': ['cancel_sib', ['map', [L(1), L(2)]], ['submit', A(3)]],
    'seq-cancel-then-work': ['seq', [['cancel', ['map', [L(1), L(2)]], False],
                                     ['map', [L(3), L(4)]]]],
}


def tree_spec(topo: str, name: str) -> dict:
    """A compilation whose task tree cancels; the client does not close, so
    the system falls idle and its tables can be inspected."""
    return {
        'name': f'{topo}/{name}', 'topo': TOPOS[topo],
        'clients': [[['compile', CTREES[name]]]],
        'has_cancel': True,
    }


SLOW = ['seq', [['map', [L(1), L(2)]], ['submit', L(3)]]]
OTHER = ['map', [L(7), A(8)]]


def client_specs(topo: str) -> list:
    t = TOPOS[topo]
    out = [
        {'name': f'{topo}/cli-submit-cancel', 'topo': t, 'has_cancel': True,
         'clients': [[['submit', 'a', SLOW], ['cancel', 'a']]],
         'cancelled': [['cli0', 'a']]},
        {'name': f'{topo}/cli-cancel-first-result-second', 'topo': t,
         'has_cancel': True,
         'clients': [[['submit', 'a', SLOW], ['submit', 'b', OTHER],
                      ['cancel', 'a'], ['result', 'b']]],
         'cancelled': [['cli0', 'a']]},
    ]
    if t[0] == 'detached':
        out += [
            {'name': f'{topo}/cli-submit-disconnect', 'topo': t,
             'has_cancel': True, 'all_disconnect': True,
             'clients': [[['submit', 'a', SLOW], ['close']]]},
            {'name': f'{topo}/two-clients-one-cancels', 'topo': t,
             'has_cancel': True,
             'clients': [[['submit', 'a', SLOW], ['cancel', 'a']],
                         [['compile', OTHER]]],
             'cancelled': [['cli0', 'a']]},
            {'name': f'{topo}/two-clients-one-disconnects', 'topo': t,
             'has_cancel': True,
             'clients': [[['submit', 'a', SLOW], ['close']],
                         [['compile', OTHER]]]},
        ]
    return out


def plan(ctx: Ctx) -> list:
    q = ctx.quick
    P = []
    line_trees = ['cancel-await', 'cancel-noawait', 'mapcancel2']
    P.append(('line/cancel/preempt<=1',
              [boss_spec(m, t, CTREES[t]) for t in line_trees
               for m in ('remote', 'local')],
              1, 'preemption', 60 if q else 300))
    # two preemptions: check-then-act windows of the main loop against the
    # incoming thread's cancel handling need both (two such defects were
    # found at this bound); quick takes the scenario that showed them
    P.append(('line/cancel/preempt<=2',
              [boss_spec('local', 'mapcancel2', CTREES['mapcancel2'])] if q
              else [boss_spec(m, t, CTREES[t]) for t in line_trees
                    for m in ('remote', 'local')],
              2, 'preemption', 70 if q else 1200))
    topos = ['a1', 'a2', 'a3', 'd2', 'd11'] + ([] if q else ['a4', 'd21'])
    P.append(('world/trees/deviation<=1',
              [tree_spec(tp, tr) for tp in topos for tr in CTREES],
              1, 'deviation', 100 if q else 900))
    P.append(('world/clients/deviation<=1',
              [s for tp in (['a2', 'd2', 'd11'] if q else topos)
               for s in client_specs(tp)],
              1, 'deviation', 80 if q else 900))
    small = [tree_spec(tp, tr) for tp in ('a2',) for tr in
             ('cancel-await', 'mapcancel2')] + \
        [tree_spec('a1', 'mapcancel-nested')]
    if not q:
        small = [tree_spec(tp, tr) for tp in ('a1', 'a2', 'd11')
                 for tr in CTREES] + \
                [s for tp in ('a2', 'd11') for s in client_specs(tp)]
    P.append(('world/deviation<=2', small, 2, 'deviation',
              60 if q else 2400))
    return P


def run(ctx: Ctx) -> None:
    c07.run(ctx, judge='c12', plan_fn=plan)


def replay(ctx: Ctx, obj: dict) -> bool:
    return c07.replay(ctx, obj)
