"""C04 - Circuit editing calls have their documented effect on program order.

Engine E2 (vf/histbfs.py) over the alphabet / reference model of
vf/c04_model.py.  Oracle emphasis: per-qudit timelines after every call equal
the reference model, documented return values, unitary = ordered product,
structure-only calls keep the unitary, renumbering conjugates it, inverse
composes to the identity, out-of-range arguments behave as documented or
raise IndexError/ValueError/TypeError.
"""
from __future__ import annotations

from vf.c04_run import replay as _replay
from vf.c04_run import run_search
from vf.common import Ctx

LEVEL = 'model_checking'


def run(ctx: Ctx) -> None:
    run_search(ctx, 'C04')
    ctx.assumptions.extend([
        'gate matrices (U3, CRZ, Controlled, Embedded) are taken from the gate library; C18 checks those',
        'the body of a CircuitGate is read through gate._circuit (one adapter, block_body)',
    ])


def replay(ctx: Ctx, obj: dict) -> bool:
    return _replay(ctx, obj, 'C04')
