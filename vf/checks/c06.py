"""C06 -- circuit simulation equals the ordered product of its operations.

Engine E3: bounded-exhaustive enumeration of circuits (radixes x operation
sequences x locations x parameter grid), every case judged by the numpy
reference simulator of vf/c06_ref.py.  Sub-harnesses:

  single   one operation: every radix tuple, every ordered location tuple,
           the full gate catalogue, the parameter grid (full product for
           gates with <= 3 parameters) -- all oracles, all basis states;
  seq2/3   every sequence of 2 / 3 operations over a reduced alphabet;
  regions  operations(qudits_or_region, exclude, reverse) for every qudit
           subset (every order) and every region of the grid;
  edits    the oracles after every enabled structural edit (depth 1, 2) of
           fixed base circuits.
"""
from __future__ import annotations

import collections
import itertools
import json
import time
from typing import Any

from vf.common import Ctx
from vf.common import pmap

from vf.c06_gates import build_circuit
from vf.c06_gates import catalogue
from vf.c06_gates import generic_params
from vf.c06_gates import grid
from vf.c06_gates import locations
from vf.c06_gates import nontrivial_location
from vf.c06_gates import num_params_of
from vf.c06_gates import radix_tuples
from vf.c06_gates import spec_name
from vf.c06_oracle import check_circuit
from vf.c06_oracle import check_regions

RULE = (
    'bounded-exhaustive: radix tuples over {2,3,4} x every ordered tuple of '
    'distinct qudits x gate catalogue x parameter grid (single operations), '
    'all sequences of 2 and 3 operations over a reduced alphabet, every '
    'region/qudit subset of the grid, every enabled structural edit of base '
    'circuits; a case is non-trivial when it has a multi-qudit operation on '
    'a non-adjacent or non-ascending location, or a multi-qudit operation '
    'in a mixed-radix circuit (regions: a multi-qudit operation partially '
    'inside some queried area; edits: every post-edit state with >= 1 '
    'parameter and >= 2 operations)'
)


# ---------------------------------------------------------------- features
def _shape(rad: Any, ops: list) -> str:
    perm = any(nontrivial_location(o[1]) for o in ops)
    ar = max(len(o[1]) for o in ops)
    mixed = len(set(rad)) > 1
    del ar, mixed
    return f'{len(ops)}ops-' + ('permuted' if perm else 'ascending')


def _nontrivial(rad: Any, ops: list) -> bool:
    multi = [o for o in ops if len(o[1]) > 1]
    if not multi:
        return False
    return any(nontrivial_location(o[1]) for o in multi) or len(set(rad)) > 1


_LAST_OBS = ['ok']


def _judge(case: dict, feature: str, opts: dict) -> list:
    """Build and check one case; a finding must reproduce on two re-runs."""
    def once() -> list:
        try:
            c = build_circuit(case)
        except Exception as e:  # noqa
            return [(f'construction-raised-{type(e).__name__}:{feature}',
                     f'building the circuit raised {e!r}')]
        assigned = [(o[1], o[2]) for o in case['ops']] \
            if opts.get('distinct') else None
        f = check_circuit(
            c, feature, case['seed'], assigned=assigned,
            do_states=opts.get('states', 'all'), lite=opts.get('lite', False),
            rebuild=lambda: build_circuit(case),
        )
        _LAST_OBS[0] = f.obs
        return list(f)
    found = once()
    if found:
        again = [set(s for s, _ in once()) for _ in range(2)]
        found = [(s, w) for s, w in found if all(s in a for a in again)]
    return found


class Acc:
    """Per-job accumulator shipped back to the parent."""

    def __init__(self) -> None:
        self.n = 0
        self.nontriv = 0
        self.viol: list = []
        self.out: collections.Counter = collections.Counter()
        self.parts: collections.Counter = collections.Counter()
        self.samples: list = []
        self.done = True

    def pack(self) -> dict:
        return {'n': self.n, 'nontriv': self.nontriv, 'viol': self.viol[:40],
                'out': dict(self.out), 'parts': dict(self.parts),
                'samples': self.samples[:2], 'done': self.done}


def _pvariants(ops: list, seed: int, mode: str) -> list[list[list[float]]]:
    """Parameter assignments for a list of (spec, loc): list of per-op lists."""
    ks = [num_params_of(s) for s, _ in ops]
    out = [[generic_params(k, seed, ('op', i)) for i, k in enumerate(ks)]]
    if sum(ks) == 0:
        return out
    g = grid(seed)
    if mode in ('grid', 'full'):
        out += [[[v] * k for k in ks] for v in g]
    if mode == 'full' and len(ops) == 1 and 2 <= ks[0] <= 3:
        for combo in itertools.product(g, repeat=ks[0]):
            if len(set(combo)) > 1:
                out.append([list(combo)])
    return out


# -------------------------------------------------------------------- jobs
def _job_single(job: dict) -> dict:
    acc = Acc()
    rad, seed = tuple(job['radixes']), job['seed']
    for loc in locations(rad, job.get('max_arity', 3)):
        sig = [rad[q] for q in loc]
        broken: set[str] = set()           # kinds failing for ANY gate here
        for gi, spec in enumerate(catalogue(sig, job['level'])):
            for pi, ps in enumerate(_pvariants([(spec, loc)], seed,
                                               job['pmode'])):
                if time.time() > job['deadline']:
                    acc.done = False
                    return acc.pack()
                case = {'radixes': list(rad), 'seed': seed,
                        'ops': [[spec, list(loc), ps[0]]]}
                lshape = 'permuted' if nontrivial_location(loc) \
                    else 'ascending'
                feature = f'{spec_name(spec)}-{lshape}'
                found = _judge(case, feature,
                               {'distinct': pi == 0, 'states': job['states']})
                acc.n += 1
                acc.nontriv += _nontrivial(rad, case['ops'])
                acc.parts[f'single-arity{len(loc)}'] += 1
                acc.out[_LAST_OBS[0] if not found else 'violation'] += 1
                if gi == 0:
                    broken |= {s.split(':')[0] for s, _ in found}
                for s, w in found:
                    kind = s.split(':')[0]
                    if kind in broken:
                        s = f'{kind}:any-gate-arity{len(loc)}-{lshape}'
                    acc.viol.append((s, w, {'kind': 'case', 'case': case,
                                            'feature': s.split(':', 1)[1],
                                            'opts': {'distinct': pi == 0,
                                                     'states': job['states']}}))
                if acc.n % 997 == 1:
                    acc.samples.append(case)
    return acc.pack()


def alphabet(rad: tuple, level: str, max_arity: int = 3) -> list:
    out = []
    for li, loc in enumerate(locations(rad, max_arity)):
        sig = [rad[q] for q in loc]
        if level == 'rot':
            cat = catalogue(sig, 'core')
            out.append((cat[li % len(cat)], loc))
        else:
            out += [(s, loc) for s in catalogue(sig, level)]
    return out


def _job_seq(job: dict) -> dict:
    acc = Acc()
    rad, seed, L = tuple(job['radixes']), job['seed'], job['length']
    A = alphabet(rad, job['level'], job.get('max_arity', 3))
    firsts = A[job['lo']:job['hi']]
    opts = {'distinct': True, 'states': job['states'], 'lite': job['lite']}
    for first in firsts:
        for rest in itertools.product(A, repeat=L - 1):
            ops = [first] + list(rest)
            for pi, ps in enumerate(_pvariants(ops, seed, job['pmode'])):
                if time.time() > job['deadline']:
                    acc.done = False
                    return acc.pack()
                case = {'radixes': list(rad), 'seed': seed, 'ops': [
                    [s, list(loc), p] for (s, loc), p in zip(ops, ps)
                ]}
                feature = _shape(rad, case['ops'])
                o = dict(opts)
                o['distinct'] = pi == 0
                found = _judge(case, feature, o)
                acc.n += 1
                acc.nontriv += _nontrivial(rad, case['ops'])
                acc.parts[f'seq{L}-width{len(rad)}'] += 1
                acc.out[_LAST_OBS[0] if not found else 'violation'] += 1
                for s, w in found:
                    acc.viol.append((s, w, {'kind': 'case', 'case': case,
                                            'feature': feature, 'opts': o}))
                if acc.n % 4999 == 1:
                    acc.samples.append(case)
    return acc.pack()


def _region_case(width: int, locs: list, seed: int) -> dict:
    return {'radixes': [2] * width, 'seed': seed, 'ops': [
        [['const', [2] * len(loc), 'r'], list(loc), []] for loc in locs
    ]}


def _job_regions(job: dict) -> dict:
    acc = Acc()
    width, L, seed = job['width'], job['length'], job['seed']
    locs = locations([2] * width, 3)
    for first in locs[job['lo']:job['hi']]:
        for rest in itertools.product(locs, repeat=L - 1):
            if time.time() > job['deadline']:
                acc.done = False
                return acc.pack()
            seq = [first] + list(rest)
            case = _region_case(width, seq, seed)
            c = build_circuit(case)
            feature = ('multi-qudit' if any(len(x) > 1 for x in seq)
                       else 'single-qudit')
            f, runs = check_regions(c, feature)
            acc.n += runs
            acc.parts['region-circuits'] += 1
            acc.parts['region-queries'] += runs
            if any(len(x) > 1 for x in seq) and width > 1:
                acc.nontriv += 1
            acc.out[f'regions-ok-{feature}' if not f else 'violation'] += 1
            for s, w in f:
                acc.viol.append((s, w, {'kind': 'regions', 'width': width,
                                        'seed': seed,
                                        'locs': [list(x) for x in seq]}))
            if acc.parts['region-circuits'] % 499 == 1:
                acc.samples.append({'regions-of': case['ops']})
    return acc.pack()


def _job_edits(job: dict) -> dict:
    from vf.c06_edits import BASES, apply_edit, enabled_edits, replay_history
    acc = Acc()
    seed = job['seed']
    base = BASES[job['base']]
    c0 = replay_history(base, [], seed)
    first = enabled_edits(c0, 1)[job['lo']:job['hi']]

    def visit(edits: list) -> Any:
        try:
            c = replay_history(base, edits, seed)
        except Exception as e:  # noqa  (C04's business)
            acc.out[f'edit-raised:{edits[-1][0]}:{type(e).__name__}'] += 1
            return None
        feature = 'after-' + '-'.join(e[0] for e in edits)
        for op in c:
            if tuple(op.radixes) != tuple(c.radixes[q] for q in op.location):
                # the edit left an operation on qudits of the wrong radix:
                # the ordered product is undefined (C04/C05 judge the edit)
                acc.out[f'edit-left-radix-mismatch:{edits[-1][0]}'] += 1
                return None

        def once() -> list:
            cc = replay_history(base, edits, seed)
            f = check_circuit(
                cc, feature, seed, do_states='few', lite=job['lite'],
                rebuild=lambda: replay_history(base, edits, seed),
            )
            _LAST_OBS[0] = 'edits-' + f.obs
            return list(f)
        found = once()
        if found:
            again = [set(s for s, _ in once()) for _ in range(2)]
            found = [(s, w) for s, w in found if all(s in a for a in again)]
        acc.n += 1
        acc.parts[f'edits-depth{len(edits)}'] += 1
        if c.num_params >= 1 and c.num_operations >= 2:
            acc.nontriv += 1
        acc.out[_LAST_OBS[0] if not found else 'violation'] += 1
        for s, w in found:
            acc.viol.append((s, w, {'kind': 'edits', 'base': job['base'],
                                    'seed': seed,
                                    'edits': edits, 'lite': job['lite']}))
        if acc.n % 211 == 1:
            acc.samples.append({'base': job['base'], 'edits': edits})
        return c

    for e1 in first:
        if time.time() > job['deadline']:
            acc.done = False
            break
        c1 = visit([e1])
        if c1 is None or job['depth'] < 2:
            continue
        for e2 in enabled_edits(c1, 2):
            if time.time() > job['deadline']:
                acc.done = False
                break
            visit([e1, e2])
    return acc.pack()


_JOBS = {'single': _job_single, 'seq': _job_seq, 'regions': _job_regions,
         'edits': _job_edits}


def _dispatch(job: dict) -> dict:
    r = _JOBS[job['job']](job)
    r['job'] = {k: v for k, v in job.items() if k != 'deadline'}
    return r


# ------------------------------------------------------------------- plan
QUICK_FULL_W3 = [(2, 2, 2), (2, 3, 4)]
QUICK_SEQ2_W3 = [(2, 2, 2), (2, 3, 4), (4, 3, 2), (3, 2, 3)]
QUICK_SEQ3_W3 = [(3, 2, 4)]
THOROUGH_SEQ3_W3 = [(2, 2, 2), (2, 3, 4), (4, 3, 2), (3, 2, 3), (3, 3, 3),
                    (4, 2, 4)]
QUICK_GRID_W2 = [(2, 3), (4, 2)]


def _chunks(n: int, k: int) -> list[tuple[int, int]]:
    step = max(1, -(-n // k))
    return [(i, min(n, i + step)) for i in range(0, n, step)]


def plan(ctx: Ctx) -> list[dict]:
    seed = ctx.seed
    jobs: list[dict] = []

    def seq(rad: tuple, L: int, level: str, pmode: str, lite: bool,
            states: str, parts: int, max_arity: int = 3) -> None:
        nA = len(alphabet(rad, level, max_arity))
        for lo, hi in _chunks(nA, parts):
            jobs.append({'job': 'seq', 'radixes': list(rad), 'length': L,
                         'level': level, 'pmode': pmode, 'lite': lite,
                         'states': states, 'lo': lo, 'hi': hi,
                         'max_arity': max_arity, 'seed': seed})

    def regions(width: int, L: int, parts: int) -> None:
        nl = len(locations([2] * width, 3))
        for lo, hi in _chunks(nl, parts):
            jobs.append({'job': 'regions', 'width': width, 'length': L,
                         'lo': lo, 'hi': hi, 'seed': seed})

    def edits(base: int, depth: int, lite: bool, parts: int) -> None:
        from vf.c06_edits import BASES, enabled_edits, replay_history
        n1 = len(enabled_edits(replay_history(BASES[base], [], seed), 1))
        for lo, hi in _chunks(n1, parts):
            jobs.append({'job': 'edits', 'base': base, 'depth': depth,
                         'lite': lite, 'lo': lo, 'hi': hi, 'seed': seed})

    def single(rad: tuple, level: str, pmode: str, states: str,
               max_arity: int = 3) -> None:
        dim = 1
        for r in rad:
            dim *= r
        jobs.append({
            'job': 'single', 'radixes': list(rad), 'seed': seed,
            'level': level, 'pmode': pmode, 'max_arity': max_arity,
            'states': 'few' if states == 'auto' and dim > 16 else
            'all' if states == 'auto' else states,
        })

    if ctx.quick:
        for w in (1, 2, 3):
            regions(w, 1, 1)
            regions(w, 2, 1 if w < 3 else 5)
        regions(2, 3, 2)
        for rad in radix_tuples(1):
            single(rad, 'full', 'grid', 'all')
        for rad in radix_tuples(2):
            single(rad, 'full', 'gen', 'all')
        for rad in radix_tuples(3):
            single(rad, 'full' if rad in QUICK_FULL_W3 else 'core', 'gen',
                   'auto')
        for rad in radix_tuples(1):
            seq(rad, 2, 'core', 'grid', False, 'all', 1)
            seq(rad, 3, 'one', 'gen', True, 'few', 1)
        for rad in radix_tuples(2):
            seq(rad, 2, 'one', 'gen', True, 'few', 1)
        for rad in QUICK_SEQ2_W3:
            seq(rad, 2, 'rot', 'gen', True, 'few', 3)
        for rad in radix_tuples(2):
            seq(rad, 3, 'rot', 'gen', True, 'few', 1)
        for rad in QUICK_SEQ3_W3:
            seq(rad, 3, 'rot', 'gen', True, 'few', 9, 2)
        for rad in QUICK_GRID_W2:
            seq(rad, 2, 'one', 'grid', True, 'few', 2)
        for b in range(3):
            edits(b, 1, True, 4)
    else:
        for w in (1, 2, 3):
            regions(w, 1, 1)
            regions(w, 2, 1 if w < 3 else 5)
        regions(2, 3, 4)
        for w in (1, 2):
            for rad in radix_tuples(w):
                single(rad, 'full', 'full' if w == 1 else 'grid', 'all')
        for rad in radix_tuples(3):
            single(rad, 'full', 'grid' if rad in QUICK_FULL_W3 else 'gen',
                   'all')
        for b in range(3):
            edits(b, 1, False, 8)
        for w in (1, 2):
            for rad in radix_tuples(w):
                seq(rad, 2, 'full' if w == 1 else 'core', 'grid', False,
                    'all', 4)
        for rad in radix_tuples(3):
            seq(rad, 2, 'core', 'gen', True, 'few', 9)
        for rad in radix_tuples(2):
            seq(rad, 3, 'core', 'gen', False, 'few', 6)
        for rad in radix_tuples(3):
            seq(rad, 3, 'rot', 'gen', True, 'few', 9, 2)
        regions(3, 3, 15)
        for rad in radix_tuples(4, 64):
            single(rad, 'full', 'gen', 'auto', 4)
        for rad in ((2,) * 5, (2,) * 6, (2, 2, 3, 2, 2)):
            single(rad, 'core', 'gen', 'few')
        for b in range(3):
            edits(b, 2, True, 40)
        for rad in THOROUGH_SEQ3_W3:
            seq(rad, 3, 'rot', 'gen', True, 'few', 15)
        for rad in radix_tuples(4, 64):
            seq(rad, 2, 'rot', 'gen', True, 'few', 4, 2)
        for rad in ((2, 2, 2, 2), (2, 3, 2, 4), (3, 2, 2, 3)):
            seq(rad, 2, 'rot', 'gen', True, 'few', 16)
        for rad in ((2,) * 5, (2,) * 6):
            seq(rad, 2, 'rot', 'gen', True, 'few', 12, 2)
        regions(4, 1, 4)
        regions(4, 2, 64)
    return jobs


def _process_age() -> float:
    """Seconds since this process started (Linux /proc; 0.0 if unknown)."""
    try:
        import os
        with open('/proc/self/stat') as fh:
            start_ticks = float(fh.read().rsplit(')', 1)[1].split()[19])
        with open('/proc/uptime') as fh:
            up = float(fh.read().split()[0])
        return max(0.0, up - start_ticks / os.sysconf('SC_CLK_TCK'))
    except Exception:  # noqa
        return 0.0


def run(ctx: Ctx) -> None:
    ctx.cov['rule'] = RULE
    ctx.assumptions += [
        "each operation's own matrix is op.gate.get_unitary(its parameter "
        'slice) (gate-level correctness is C18)',
        'numpy matmul/kron are correct',
        'structural edits themselves are judged by C04; here only the '
        'simulation/parameter views of the post-edit state are judged',
    ]
    # the quick budget counts from process start (imports can take 20 s on
    # a loaded machine), so that the whole run stays within ~90 s
    age = _process_age()
    budget = max(25.0, 70.0 - age) if ctx.quick else 1500.0
    deadline = time.time() + budget
    jobs = plan(ctx)
    for j in jobs:
        j['deadline'] = deadline
    # warm the lazily initialised parts of the library in the parent so the
    # forked workers inherit them
    _dispatch({'job': 'seq', 'radixes': [2, 3], 'length': 2, 'level': 'rot',
               'pmode': 'gen', 'lite': True, 'states': 'few', 'lo': 0,
               'hi': 1, 'max_arity': 2, 'seed': ctx.seed,
               'deadline': deadline})
    # plan order = priority order: a time cap cuts the tail of the plan
    done_jobs = 0
    unfinished: list = []
    viol: list = []
    for r in pmap(_dispatch, jobs, procs=ctx.procs, deadline=deadline + 6):
        done_jobs += 1
        ctx.cov['evaluations'] += r['n']
        ctx.cov['distinct_nontrivial'] += r['nontriv']
        for k, v in r['out'].items():
            ctx.outcomes[k] += v
        for k, v in r['parts'].items():
            ctx.part(k.split('-')[0], **{k: v})
        for s in r['samples']:
            ctx.sample(s)
        viol += r['viol']
        if not r['done']:
            unfinished.append(r['job'])
    if done_jobs < len(jobs) or unfinished:
        ctx.cap(
            f'time budget {budget:.0f}s: {len(jobs) - done_jobs} of '
            f'{len(jobs)} jobs not returned, {len(unfinished)} cut short '
            f'(first: {json.dumps(unfinished[:3])})',
        )
    ctx.cov['jobs'] = len(jobs)
    # simplest counterexample first: fewest operations, smallest dimension
    def size(v: tuple) -> tuple:
        rp = v[2]
        if rp['kind'] == 'case':
            c = rp['case']
            d = 1
            for r_ in c['radixes']:
                d *= r_
            return (0, len(c['ops']), d, json.dumps(rp, sort_keys=True))
        if rp['kind'] == 'regions':
            return (1, len(rp['locs']), rp['width'],
                    json.dumps(rp, sort_keys=True))
        return (2, len(rp['edits']), 0, json.dumps(rp, sort_keys=True))
    # a failure kind seen under >= 3 different single-gate features is not
    # about the gate: report it once per location shape
    by_kind: dict = collections.defaultdict(set)
    for s, w, rp in viol:
        if rp['kind'] == 'case' and len(rp['case']['ops']) == 1:
            by_kind[s.split(':')[0]].add(s.split(':', 1)[1])
    merged = []
    for s, w, rp in viol:
        kind = s.split(':')[0]
        if rp['kind'] == 'case' and len(rp['case']['ops']) == 1 \
                and len(by_kind[kind]) >= 3:
            loc = rp['case']['ops'][0][1]
            shape = 'permuted' if nontrivial_location(loc) else 'ascending'
            s = f'{kind}:many-gates-arity{len(loc)}-{shape}'
            rp = dict(rp)
            rp['feature'] = s.split(':', 1)[1]
        merged.append((s, w, rp))
    for s, w, rp in sorted(merged, key=size):
        ctx.violation(s, w, rp)


def replay(ctx: Ctx, obj: dict) -> bool:
    if obj['kind'] == 'case':
        found = _judge(obj['case'], obj.get('feature', 'replay'),
                       obj.get('opts', {}))
        for s, w in found:
            print(f'  {s}: {w}')
        return not found
    if obj['kind'] == 'regions':
        c = build_circuit(_region_case(obj['width'], obj['locs'], obj['seed']))
        f, _ = check_regions(c, 'replay')
        for s, w in f[:5]:
            print(f'  {s}: {w}')
        return not f
    if obj['kind'] == 'edits':
        from vf.c06_edits import BASES, replay_history
        base = BASES[obj['base']]
        sd = obj['seed']
        c = replay_history(base, obj['edits'], sd)
        f = check_circuit(
            c, 'replay', sd, do_states='few', lite=obj.get('lite', False),
            rebuild=lambda: replay_history(base, obj['edits'], sd),
        )
        for s, w in f[:5]:
            print(f'  {s}: {w}')
        return not f
    raise ValueError(obj['kind'])
