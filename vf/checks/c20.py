"""C20 -- coupling-graph and qudit-permutation utilities match their definitions.

Engine E3: bounded exhaustive enumeration, every case judged by a reference
written without BQSKit (vf/c20_ref.py: brute force + networkx, explicit
mixed-radix index arithmetic + numpy Kronecker products).

Space (canonical order; `quick` completes the first bound, `thorough` the
second):

graph     every labelled simple graph on 1..5 (6) vertices x every listed
          method: constructor variants, is_fully_connected,
          all_pairs_shortest_path, get_shortest_path_tree(s) for all s,
          get_neighbors_of, get_qudit_degrees, get_subgraphs_of_size(k) for
          all k (+ rejected sizes 0, n+1), get_subgraph for every ordered
          location (default numbering) and every renumbering of every
          vertex subset (full location x renumbering product for n <= 4 (5)),
          get_induced_subgraph, relabel_subgraph with explicit maps,
          is_linear, maximal_matching (all ignore sets for n<=4, both
          randomize values), is_fully_connected_without(q) for all q,
          get_rooted_minimum_span(root) for all roots of connected graphs
embed     is_embedded_in for every ordered pair of graphs on <= 4 vertices
          (thorough: also every <=4-vertex graph into every 5-vertex graph)
qpu       every graph on <= 4 (5) vertices x every subset of its edges
          declared remote x weight menu (two default pairs; override of the
          first edge, of the last edge, of every edge) x three ways of
          writing the edge list (all (low, high), all (high, low),
          alternating; remote edges and override keys repeat the edge as
          written): weighted all-pairs distances, == with the same graph
          written ascending, QPU maps, QPU connectivity, per-QPU graphs
topology  all_to_all/linear/ring/star(n) for n = 1..12, grid(r, c) for
          r*c <= 12; edge sets vs. networkx generators, and the whole
          `graph` method battery on each (subsets up to size 3 (4))
relabel   relabel_subgraph(edges) without a map: every graph on <= 4
          vertices without isolated vertices, placed on every k-subset of a
          ten-element label alphabet reaching up to 17, two edge orders
machine   MachineModel(n, edges).get_locations(k) for every graph on <= 4 (5)
          vertices, edge list and CouplingGraph argument
perm      PermutationMatrix.from_qudit_location(n, radix, loc): n <= 4 (5),
          radix 2,3,4, every ordered tuple of distinct qudits of every
          length 0..n, decided on every basis state; from_qubit_location;
          gen_swap_unitary(2..6)
otimes/ipower/state/builder/env
          UnitaryMatrix.otimes, ipower(-3..4), get_statevector on every basis
          state and a generic state; UnitaryBuilder.apply_left/right,
          eval_apply_left/right, calc_env_matrix for every radix tuple over
          {2,3,4} of width 1..3 (thorough: width 4 while dim <= 64), every
          ordered location, a five-member unitary catalogue, inverse flag,
          identity and generic starting tensor.
"""
from __future__ import annotations

import itertools as it
import time
from typing import Any

from vf.common import Ctx, HarnessError, pmap

LABELS = [0, 1, 2, 3, 5, 8, 9, 12, 16, 17]
NAMES = ['identity', 'shift', 'clock', 'dft', 'generic']
PART_ORDER = [
    'graph', 'embed', 'qpu', 'topology', 'relabel', 'machine', 'perm', 'swap',
    'otimes', 'ipower', 'state', 'builder', 'env',
]


def _graphs(n: int) -> list[tuple[int, list]]:
    from vf import c20_ref as R
    m = n * (n - 1) // 2
    masks = sorted(range(1 << m), key=lambda x: (bin(x).count('1'), x))
    return [(n, R.edges_of_mask(n, mk)) for mk in masks]


def _radix_tuples(maxw: int, maxdim: int) -> list[tuple[int, ...]]:
    out = []
    for w in range(1, maxw + 1):
        for rs in it.product((2, 3, 4), repeat=w):
            d = 1
            for r in rs:
                d *= r
            if d <= maxdim:
                out.append(rs)
    return out


def enumerate_cases(tier: str, seed: int) -> list[dict]:
    quick = tier == 'quick'
    cases: list[dict] = []
    # graph
    for n in range(1, 6 if quick else 7):
        for _, e in _graphs(n):
            cases.append({
                'part': 'graph', 'n': n, 'edges': e,
                'full': n <= (4 if quick else 5), 'seed': seed,
            })
    # embed
    small = [g for n in range(1, 5) for g in _graphs(n)]
    for a in small:
        for b in small:
            cases.append({'part': 'embed', 'a': list(a), 'b': list(b)})
    if not quick:
        for a in small:
            for b in _graphs(5):
                cases.append({'part': 'embed', 'a': list(a), 'b': list(b)})
    # qpu: graph x remote subset x weight menu x the way the edges are written
    # (remote edges and override keys must repeat the edge as written)
    def write(e: list, how: str) -> list:
        if how == 'asc':
            return [list(x) for x in e]
        if how == 'desc':
            return [[x[1], x[0]] for x in e]
        return [[x[1], x[0]] if i % 2 == 0 else list(x) for i, x in enumerate(e)]

    for n in range(1, 5 if quick else 6):
        for _, e in _graphs(n):
            menus = [(1.0, 100.0, []), (2.5, 0.5, [])]
            if e:
                menus.append((1.0, 100.0, [0]))
                if len(e) > 1:
                    menus += [(1.0, 100.0, [len(e) - 1]), (1.0, 100.0, list(range(len(e))))]
            if n == 5:
                menus = [menus[0], menus[-1]]
            for how in (('asc',) if not e else ('asc', 'desc') if len(e) == 1 else ('asc', 'desc', 'alt')):
                we = write(e, how)
                for k in range(len(e) + 1):
                    for rem in it.combinations(range(len(e)), k):
                        for w0, wr, ovi in menus:
                            vals = {0: 7.0, len(e) - 1: 0.25} if len(ovi) <= 1 else {i: 1.5 + i for i in ovi}
                            cases.append({
                                'part': 'qpu', 'n': n, 'edges': we,
                                'remote': [we[i] for i in rem],
                                'w': [w0, wr, [[we[i], vals[i]] for i in ovi] or None],
                            })
    # topology
    kmax = 3 if quick else 4
    for n in range(1, 13):
        for kind in ('all_to_all', 'linear', 'ring', 'star'):
            cases.append({'part': 'topology', 'kind': kind, 'args': [n], 'kmax': kmax, 'seed': seed})
    for r in range(1, 13):
        for c in range(1, 13):
            if r * c <= 12:
                cases.append({'part': 'topology', 'kind': 'grid', 'args': [r, c], 'kmax': kmax, 'seed': seed})
    # relabel
    for k in (2, 3, 4):
        for _, e in _graphs(k):
            if {q for x in e for q in x} != set(range(k)):
                continue
            for labs in it.combinations(LABELS, k):
                le = [[labs[u], labs[v]] for u, v in e]
                cases.append({'part': 'relabel', 'edges': le})
                if len(le) > 1:
                    cases.append({'part': 'relabel', 'edges': [x[::-1] for x in le[::-1]]})
    # machine
    for n in range(1, 5 if quick else 6):
        for _, e in _graphs(n):
            cases.append({'part': 'machine', 'n': n, 'edges': e})
    # perm
    for n in range(1, 5 if quick else 6):
        for radix in (2, 3, 4):
            for k in range(0, n + 1):
                for loc in it.permutations(range(n), k):
                    cases.append({'part': 'perm', 'n': n, 'radix': radix, 'loc': list(loc)})
    for radix in range(2, 7):
        cases.append({'part': 'swap', 'radix': radix})
    # unitaries
    w12 = _radix_tuples(2, 16)
    w1 = _radix_tuples(1, 4)
    for a in w12:
        for b in w12:
            for na in NAMES:
                for nb in NAMES:
                    cases.append({'part': 'otimes', 'radixes': [a, b], 'names': [na, nb], 'seed': seed})
    for a in w1:
        for b in w1:
            for c in w1:
                for nm in it.product(NAMES, repeat=3):
                    cases.append({'part': 'otimes', 'radixes': [a, b, c], 'names': list(nm), 'seed': seed})
    tuples = _radix_tuples(3, 64) if quick else _radix_tuples(4, 64)
    for rs in tuples:
        for nm in NAMES:
            for p in range(-3, 5):
                cases.append({'part': 'ipower', 'radixes': rs, 'name': nm, 'power': p, 'seed': seed})
            cases.append({'part': 'state', 'radixes': rs, 'name': nm, 'seed': seed})
    for rs in tuples:
        n = len(rs)
        for k in range(1, n + 1):
            for loc in it.permutations(range(n), k):
                for nm in NAMES:
                    for side in ('right', 'left'):
                        for inv in (False, True):
                            for start in ('identity', 'generic'):
                                cases.append({
                                    'part': 'builder', 'radixes': rs, 'loc': list(loc), 'name': nm,
                                    'side': side, 'inverse': inv, 'start': start, 'seed': seed,
                                })
    for rs in tuples:
        n = len(rs)
        for k in range(0, n + 1):
            for loc in it.permutations(range(n), k):
                for start in ('identity', 'generic'):
                    cases.append({'part': 'env', 'radixes': rs, 'loc': list(loc), 'start': start, 'seed': seed})
    for i, cs in enumerate(cases):
        cs['i'] = i
    return cases


def _weight(cs: dict) -> int:
    """Rough relative cost, to build balanced chunks."""
    p = cs['part']
    if p == 'graph':
        return {1: 1, 2: 1, 3: 2, 4: 12, 5: 60 if not cs['full'] else 600, 6: 300}[cs['n']]
    if p == 'topology':
        return 200
    if p == 'perm':
        return max(1, cs['radix'] ** cs['n'] // 16)
    if p in ('builder', 'env'):
        d = 1
        for r in cs['radixes']:
            d *= r
        return max(1, d * d // 256)
    if p == 'qpu':
        return 2
    return 1


def _work(chunk: list[dict]) -> dict:
    from vf.c20_cases import judge
    stats: dict[str, int] = {}
    outcomes: dict[str, int] = {}
    viols: dict[str, list] = {}
    counts: dict[str, int] = {}
    for cs in chunk:
        v, st = judge(cs)
        oc = st.pop('outcome', None)
        if oc is not None:
            outcomes[oc] = outcomes.get(oc, 0) + 1
        part = cs['part']
        for k, x in st.items():
            stats[k] = stats.get(k, 0) + x
            if not k.startswith('cases'):
                pk = part + '/' + k
                stats[pk] = stats.get(pk, 0) + x
        for sig, what in v:
            counts[sig] = counts.get(sig, 0) + 1
            if sig not in viols or cs['i'] < viols[sig][0]:
                viols[sig] = [cs['i'], what, cs]
    return {'stats': stats, 'outcomes': outcomes, 'viols': viols, 'counts': counts, 'n': len(chunk)}


def _chunks(cases: list[dict], target: int) -> list[list[dict]]:
    out: list[list[dict]] = []
    cur: list[dict] = []
    w = 0
    for cs in cases:
        cur.append(cs)
        w += _weight(cs)
        if w >= target:
            out.append(cur)
            cur, w = [], 0
    if cur:
        out.append(cur)
    return out


def run(ctx: Ctx) -> None:
    cases = enumerate_cases(ctx.tier, ctx.seed)
    for part in PART_ORDER:
        for cs in cases:
            if cs['part'] == part:
                ctx.sample({k: v for k, v in cs.items() if k != 'i'}, limit=len(PART_ORDER))
                break
    # heavy six-vertex graphs last, so that a cap (if any) cuts only them
    light = [c for c in cases if not (c['part'] == 'graph' and c['n'] == 6)]
    heavy = [c for c in cases if c['part'] == 'graph' and c['n'] == 6]
    per_part = [_chunks([c for c in light if c['part'] == part], 400) for part in PART_ORDER]
    chunks = []
    for k in range(max(len(x) for x in per_part)):
        # round-robin over the parts: under a cap every part has a prefix done
        for x in per_part:
            if k < len(x):
                chunks.append(x[k])
    chunks += _chunks(heavy, 3000)
    totals = {part: sum(1 for c in cases if c['part'] == part) for part in PART_ORDER}
    import os
    import vf.c20_cases  # noqa: F401  (imported before the pool forks)
    budget = (75 if ctx.quick else 27 * 60) * float(os.environ.get('VERIF_BUDGET_SCALE', '1'))
    deadline = ctx.t0 + budget
    best: dict[str, list] = {}
    counts: dict[str, int] = {}
    stats: dict[str, int] = {}
    done = 0
    for res in pmap(_work, chunks, procs=ctx.procs, deadline=deadline):
        done += res['n']
        for k, x in res['stats'].items():
            stats[k] = stats.get(k, 0) + x
        for k, x in res['outcomes'].items():
            ctx.outcomes[k] += x
        for sig, x in res['counts'].items():
            counts[sig] = counts.get(sig, 0) + x
        for sig, rec in res['viols'].items():
            if sig not in best or rec[0] < best[sig][0]:
                best[sig] = rec
    if done < len(cases):
        short = {p: f"{stats.get('cases_' + p, 0)}/{totals[p]}" for p in PART_ORDER
                 if stats.get('cases_' + p, 0) < totals[p]}
        ctx.cap(f'time budget of {budget:.0f}s reached after {done} of {len(cases)} cases; parts are served '
                f'round-robin in canonical order, incomplete parts (done/total): {short}')

    ctx.cov['evaluations'] = done
    ctx.cov['distinct_nontrivial'] = stats.get('nontrivial', 0)
    ctx.cov['method_calls_judged'] = sum(
        v for k, v in stats.items() if '/' in k and not k.endswith('/nontrivial')
    )
    ctx.cov['rule'] = (
        'cases are enumerated without repetition (distinct by construction) from the space in the '
        'module docstring. Non-trivial: a graph with >=3 vertices that is neither empty nor complete; '
        'an embedding pair of two different graphs that both have edges; a graph with >=1 remote edge; '
        'a topology whose edge set matched and went through the method battery; a relabeling whose '
        'labels are not already 0..k-1; a machine with >=1 edge; a location that is not a prefix of '
        'the identity; a tensor product / power / state / builder case with a non-identity unitary '
        '(builder: on a non-adjacent location or a strict subset of the qudits); an environment '
        'matrix of a generic tensor.'
    )
    for part in PART_ORDER:
        kw = {k.split('/', 1)[1]: v for k, v in stats.items() if k.startswith(part + '/')}
        ctx.part(part, cases=stats.get('cases_' + part, 0), **kw)
    ctx.assumptions += [
        'networkx, numpy and the brute-force reference in vf/c20_ref.py are trusted',
        'get_shortest_path_tree raising RuntimeError when some vertex is unreachable is accepted as documented behaviour',
        'on weighted graphs only the validity of single-source paths is judged (the method counts hops; its docstring does not say which length is meant)',
        'get_rooted_minimum_span is judged on connected graphs only; ring(n) for n<3 and empty locations are not judged',
        'from_qudit_location takes one radix for all qudits, so mixed radix tuples are covered by the builder part only',
    ]

    # simplest counterexample first; a violation is reported only if it
    # reproduces on two fresh evaluations of the recorded case
    from vf.c20_cases import judge
    for sig, rec in sorted(best.items(), key=lambda kv: kv[1][0]):
        _, what, cs = rec
        case = {k: v for k, v in cs.items() if k != 'i'}
        again = [sig in [s for s, _ in judge(dict(case))[0]] for _ in range(2)]
        if not all(again):
            ctx.part('unreproducible', **{sig: 1})
            continue
        rep = {'case': case, 'signature': sig}
        for _ in range(counts[sig]):
            ctx.violation(sig, what, rep)


def replay(ctx: Ctx, obj: Any) -> bool:
    from vf.c20_cases import judge
    if not isinstance(obj, dict) or 'case' not in obj:
        raise HarnessError('malformed C20 replay object')
    v, _ = judge(dict(obj['case']))
    for sig, what in v:
        print(f'# {sig}: {what}')
    return obj['signature'] not in [s for s, _ in v]
