"""C09 -- placement, layout and routing preserve the program and respect the
coupling graph.

Bounded-exhaustive over (coupling graph x logical width x tagged circuit x
placement pass x number of layout passes x SABRE parameters); every run of
the real workflow [SetModelPass, placement, GeneralizedSabreLayoutPass,
GeneralizedSabreRoutingPass, ApplyPlacement] (or the level-4 SeqPAM
sequence) is judged by the exact mapping oracle of vf.c09_model /
vf.c09_batch.
"""
from __future__ import annotations

import functools
import gc
import itertools
import os
from typing import Any

from vf import c09_model as M
from vf.common import Ctx
from vf.common import pmap
# imported here (not in the workers) so that the forked pool inherits the
# loaded library instead of importing it once per process
from vf.c09_batch import JudgeBatch
from vf.loopback import run_workflow
from bqskit.ir.circuit import Circuit

DEFAULT = [0.001, 20, True]
PARAMS = [[dd, es, rg] for dd in (0.001, 0.5) for es in (0, 20)
          for rg in (True, False)]
DOUBLE_STAR = [[0, 1], [0, 2], [0, 3], [3, 4], [3, 5]]


# ------------------------------------------------------------------ space
def alphabet(w: int, barriers: str = 'few', oneq: bool = False,
             ordered: bool = True) -> list:
    a: list = []
    if oneq:
        a += [['g', q] for q in range(w)]
    if ordered:
        a += [['g', p, q] for p, q in itertools.permutations(range(w), 2)]
    else:
        a += [['g', p, q] for p, q in itertools.combinations(range(w), 2)]
    for t in itertools.combinations(range(w), 3):
        a.append(['g', t[2], t[0], t[1]])
    if barriers == 'few' and w >= 2:
        a.append(['b', 0, w - 1])
        if w > 2:
            a.append(['b', *range(w)])
    elif barriers == 'all':
        for k in range(2, w + 1):
            a += [['b', *t] for t in itertools.combinations(range(w), k)]
    return a


def seqs(alpha: list, maxlen: int, minlen: int = 1) -> list:
    out: list = []
    for ln in range(minlen, maxlen + 1):
        out += [[list(o) for o in s] for s in itertools.product(alpha,
                                                                repeat=ln)]
    return out


def multi(ops: list) -> bool:
    return any(o[0] == 'g' and len(o) > 2 for o in ops)


def case(flow: str, w: int, ops: list, m: int, edges: list,
         placement: str = 'greedy', layout: int = 1, params: list = DEFAULT,
         pre: Any = None) -> dict:
    return {'flow': flow, 'w': w, 'ops': ops, 'm': m, 'edges': edges,
            'pre': pre, 'placement': placement, 'layout': layout,
            'params': list(params)}


# A family is a list of compact *specs*; the worker expands a spec into its
# cases (circuits[lo:hi] x variants), so the parent never holds the million
# case dicts of the thorough tier.
#   spec = {'family', 'w', 'm', 'edges', 'circ': key of the circuit list,
#           'lo', 'hi', 'variants': [[placement, layout, params, pre], ...]}
@functools.lru_cache(maxsize=None)
def circuits_for(key: tuple) -> list:
    kind = key[0]
    if kind == 'seqs':
        _, w, barriers, oneq, ordered, maxlen, minlen, distinct = key
        out = [c for c in seqs(alphabet(w, barriers, oneq, ordered),
                               maxlen, minlen) if multi(c)]
        if distinct:
            out = [c for c in out if len(c) < 2 or c[0] != c[1]]
        return out
    if kind == 'bigger':
        _, w = key
        alpha = alphabet(w, 'few', ordered=False)
        if w >= 6:
            alpha = [a for a in alpha if len(a) == 3 or a[0] == 'b' or
                     a[1:] in ([w - 1, 0, w // 2], [2, 0, 1])]
        return [c for c in seqs(alpha, 3 if w <= 4 else 2, 2) if multi(c)]
    if kind == 'escape':
        _, mode = key
        w = 6
        pairs = []
        for t in itertools.combinations(range(w), 3):
            if 0 in t:
                t2 = tuple(q for q in range(w) if q not in t)
                pairs.append((['g', *t], ['g', *t2]))
        thirds: list = [None]
        if mode != 'none':
            thirds += [['g', a, b]
                       for a, b in itertools.combinations(range(w), 2)]
        if mode == 'full':
            thirds += [['g', *t] for t in itertools.combinations(range(w), 3)]
            thirds += [['b', 0, 5], ['b', *range(w)]]
        out = []
        for g1, g2 in pairs:
            for third in thirds:
                if third is None:
                    out.append([g1, g2])
                    continue
                for pos in (2,) if mode == 'after' else (0, 2):
                    ops = [g1, g2]
                    ops.insert(pos, third)
                    out.append(ops)
        return out
    if kind == 'wide4':
        # one 4-qudit gate on every 4-subset of 6 qudits (in two orders),
        # alone, after and before a 2-qudit gate: a gate whose qudits can
        # sit on two separate pairs of neighbours, each qudit next to
        # another of the gate without the four being connected
        out = []
        two = [['g', a, b] for a, b in ((0, 5), (2, 3), (1, 4))]
        for t in itertools.combinations(range(6), 4):
            for loc in (list(t), [t[2], t[0], t[3], t[1]]):
                g = ['g', *loc]
                out.append([g])
                for x in two:
                    out.append([x, g])
                    out.append([g, x])
        return out
    if kind == 'escape7':
        # every ordered triple of 3-qudit gates on 7 qudits: the first is
        # routed and executed (its swaps give the mapped circuit an uneven
        # depth), the other two stall and are backtracked over
        t3 = [['g', *t] for t in itertools.combinations(range(7), 3)]
        return [[a, b, c] for a in t3 for b in t3 for c in t3]
    raise ValueError(key)


def expand(spec: dict) -> list:
    circs = circuits_for(tuple(spec['circ']))[spec['lo']:spec['hi']]
    return [
        case('sabre', spec['w'], ops, spec['m'], spec['edges'], pl, lay, par,
             pre)
        for ops in circs for pl, lay, par, pre in spec['variants']
    ]


def specs(family: str, w: int, m: int, edges: list, circ: tuple,
          variants: list, per: int) -> list:
    n = len(circuits_for(circ))
    step = max(1, per // max(1, len(variants)))
    return [
        {'family': family, 'w': w, 'm': m, 'edges': edges,
         'circ': list(circ), 'lo': lo, 'hi': min(n, lo + step),
         'variants': variants}
        for lo in range(0, n, step)
    ]


def spec_size(sp: dict) -> int:
    return (sp['hi'] - sp['lo']) * len(sp['variants'])


def fam_small(quick: bool) -> list:
    """Every connected labelled graph on 2..4 vertices x every width x every
    short circuit x every placement pass."""
    out = []
    for m in (2, 3, 4):
        for edges in M.labelled_connected_graphs(m):
            for w in range(2, m + 1):
                bar = 'few' if quick or w == 4 else 'all'
                circ = ('seqs', w, bar, False, not (quick and w == 4),
                        2 if quick else 3, 1, False)
                pls = ['greedy', 'trivial', 'static']
                if w == m:
                    pls.remove('trivial')   # == greedy (whole machine)
                out += specs('small-graphs', w, m, edges, circ,
                             [[pl, 1, DEFAULT, None] for pl in pls], 150)
    return out


def trees4_and_ring() -> list:
    gs = [e for e in M.labelled_connected_graphs(4) if len(e) == 3]
    return gs + [M.ring(4)]


def fam_params(quick: bool) -> list:
    """SABRE parameter grid x layout passes on the sparse 4-vertex graphs."""
    out = []
    variants = []
    for p in PARAMS:
        for lay in (1, 2):
            if (p == DEFAULT and lay == 1) or (quick and lay == 1):
                continue
            variants.append(['greedy', lay, p, None])
    for edges in trees4_and_ring():
        circ = ('seqs', 4, 'none', False, False, 2 if quick else 3, 2, quick)
        out += specs('params', 4, 4, edges, circ, variants, 150)
    return out


def fam_blocked(quick: bool) -> list:
    """Input pre-partitioned into blocks of 2-3 by QuickPartitioner."""
    out = []
    graphs = [e for e in M.labelled_connected_graphs(4) if len(e) == 3]
    if not quick:
        graphs = M.labelled_connected_graphs(4)
    for edges in graphs:
        for w in (3, 4):
            circ = ('seqs', w, 'none', True, (not quick) or w == 3,
                    2 if quick or w == 4 else 3, 1, False)
            out += specs('pre-blocked', w, 4, edges, circ,
                         [['greedy', 1, DEFAULT, 2], ['greedy', 1, DEFAULT, 3]],
                         150)
    return out


def fam_escape(quick: bool) -> list:
    """Targeted at the local-minimum escape (`len(leading_swaps) > 5n` ->
    pop the leading swaps -> uphill swaps): two disjoint 3-qudit gates in
    the front layer of a tree with two hubs (found by a design-time search;
    single far-apart gates on lines never reach it)."""
    out = []
    graphs = [(6, DOUBLE_STAR, 'after' if quick else 'full')]
    if not quick:
        graphs += [(6, e, 'both') for e in M.unlabelled_connected_graphs(6)
                   if len(e) == 5 and sorted(e) != sorted(DOUBLE_STAR)]
        graphs += [(7, e, 'none') for e in M.unlabelled_connected_graphs(7)
                   if len(e) == 6]
    for m, edges, mode in graphs:
        # quick: the four (decay_delta, extended set) settings with the
        # default decay_reset_on_gate, plus the default with it switched off
        pars = [p for p in PARAMS if p[2]] + [[0.001, 20, False]] \
            if quick else PARAMS
        variants = [
            ['trivial' if m == 6 else 'greedy', lay, p, None]
            for p in pars for lay in ((0, 1) if quick else (0, 1, 2))
        ]
        out += specs('escape', 6, m, edges, ('escape', mode), variants, 60)
    return out


DOUBLE_STAR7 = [[0, 1], [1, 2], [1, 3], [1, 4], [2, 5], [2, 6]]


def fam_escape7(quick: bool) -> list:
    """The local-minimum escape reached *after* other operations have been
    routed: three 3-qudit gates on a 7-qudit tree.  When the stall is backed
    out of, the mapped circuit already holds a program gate and its swaps,
    some of them in the same or a later cycle than the swaps being undone
    (on 6 qudits, and with 2-qudit prefixes, the swaps being undone are
    always the topmost operations -- measured; a seeded change that removed
    'the last operation' instead of 'the last operation on the swap's
    qudits' went unnoticed there).  Routing only, identity placement."""
    trees = [DOUBLE_STAR7] if quick else [
        e for e in M.unlabelled_connected_graphs(7) if len(e) == 6]
    out = []
    for edges in trees:
        out += specs('escape7', 7, 7, edges, ('escape7',),
                     [['trivial', 0, DEFAULT, None]], 400)
    return out


def fam_wide4(quick: bool) -> list:
    """Gates wider than three qudits through placement, layout and routing
    (a seeded change that tested "every qudit of the gate has a neighbour in
    the gate" instead of connectedness is invisible up to three qudits)."""
    graphs = [(6, M.line(6)), (6, M.ring(6))]
    if not quick:
        graphs += [(6, DOUBLE_STAR), (7, M.line(7)), (7, DOUBLE_STAR7),
                   (6, [[0, 1], [1, 2], [3, 4], [4, 5], [2, 3], [0, 3]])]
    variants = [['trivial', 0, DEFAULT, None], ['greedy', 1, DEFAULT, None]]
    if not quick:
        variants += [['trivial', 2, [0.5, 0, False], None],
                     ['static', 1, DEFAULT, None]]
    out = []
    for m, edges in graphs:
        out += specs('wide4', 6, m, edges, ('wide4',), variants, 120)
    return out


def fam_bigger() -> list:
    """Thorough: the 21 connected graphs on 5 vertices (one per isomorphism
    class), line/ring/star on 6-7; machines larger than the circuit."""
    out = []
    graphs = [(5, e) for e in M.unlabelled_connected_graphs(5)]
    for m in (6, 7):
        graphs += [(m, M.line(m)), (m, M.ring(m)), (m, M.star(m))]
    variants = [['greedy', 1, DEFAULT, None], ['static', 1, DEFAULT, None],
                ['greedy', 2, [0.5, 0, False], None]]
    for m, edges in graphs:
        for w in (3, 4, 5) if m == 5 else (4, m):
            out += specs('bigger', w, m, edges, ('bigger', w), variants, 60)
    return out


def pam_barrier_scripts(w: int, k: int) -> list:
    """g_1 B g_2 B ... g_k  b(p)  g(p): k two-qudit gates (each its own
    2-qudit block, kept apart by full barriers B) that together touch every
    qudit, then a barrier on the pair p, then a gate on p."""
    pairs = [list(p) for p in itertools.combinations(range(w), 2)]
    full = ['b', *range(w)]
    out = []
    for seq in itertools.product(pairs, repeat=k):
        if len({q for p in seq for q in p}) < w:
            continue
        for p in pairs:
            ops: list = []
            for g in seq:
                ops += [['g', *g], list(full)]
            out.append(ops[:-1] + [['b', *p], ['g', *p]])
    return out


def fam_pam(quick: bool) -> list:
    """The level-4 SeqPAM sequence (build_seqpam_mapping_optimization_workflow
    exactly as _opt4_workflow calls it).  Every block permutation is
    re-synthesised: 1-4 s per run while all blocks are 2 qudits wide, minutes
    on one core as soon as a block has 3 qudits.  Quick: 2-qudit blocks only
    (blocks kept apart by barriers or disjointness); thorough adds a few
    3-qudit-block cases, each its own work item."""
    cases = []
    m3 = [(3, M.line(3)), (4, M.star(4)), (4, M.line(4)),
          (4, [[0, 3], [3, 1], [1, 2]])]
    two = [
        [['g', 0, 2]],
        [['g', 2, 0], ['g', 0, 2]],
        [['g', 0, 2], ['b', 0, 2], ['g', 1, 2]],
    ]
    for ops in two[2:] if quick else two:
        for m, edges in m3[:2] if quick else m3:
            cases.append(case('pam', 3, ops, m, edges))
    m4 = [(4, M.line(4)), (4, M.star(4)), (5, M.line(5))]
    two4 = [
        [['g', 0, 3], ['g', 1, 2]],
        [['g', 0, 3], ['g', 2, 1], ['b', 0, 1, 2, 3], ['g', 0, 1],
         ['g', 3, 2]],
    ]
    for ops in two4[1:] if quick else two4:
        for m, edges in m4[:2] if quick else m4:
            cases.append(case('pam', 4, ops, m, edges))
    # barrier scripts, simplest first
    for k in (2, 3):
        for ops in pam_barrier_scripts(3, k):
            if quick and k == 3 and ops[-1][1:] == ops[-3][1:]:
                continue      # barrier in front of a repeat of the last gate
            for m, edges in m3[:1] if quick else m3[:3]:
                cases.append(case('pam', 3, ops, m, edges))
    if not quick:
        for ops in pam_barrier_scripts(4, 2):
            for m, edges in m4:
                cases.append(case('pam', 4, ops, m, edges))
        for ops in pam_barrier_scripts(4, 3):
            if ops[-1][1:] == [0, 1]:         # final pair fixed: budget
                cases.append(case('pam', 4, ops, 4, M.star(4)))
        # a block of 3 qudits costs minutes of synthesis on one core: three
        # cases only, each its own work item
        cases.append(case('pam3', 3, [['g', 0, 2], ['g', 1, 0]], 3,
                          M.line(3)))
        cases.append(case('pam3', 3, [['g', 2, 0, 1]], 3, M.line(3)))
        cases.append(case('pam3', 3, [['g', 0, 1], ['g', 1, 2], ['g', 2, 0]],
                          4, M.star(4)))
    return cases


# ----------------------------------------------------------------- worker
def _work(item: tuple) -> dict:
    family, rank0, cases, seed = item
    if isinstance(cases, dict):
        cases = expand(cases)
    _, data = run_workflow(Circuit(1), [JudgeBatch(cases, seed)])
    agg: dict[str, Any] = {
        'family': family, 'runs': 0, 'nontrivial': 0, 'outcomes': {},
        'fails': {}, 'sample': None, 'probe': {}, 'identity': 0, 'swaps': 0,
        'placements': {},
    }
    for i, (cs, (label, fails, flags)) in enumerate(
            zip(cases, data['c09_results'])):
        agg['runs'] += 1
        agg['nontrivial'] += flags.get('nontrivial', 0)
        agg['identity'] += flags.get('identity_mappings', 0)
        agg['swaps'] += flags.get('swaps', 0)
        pl = cs['placement'] if cs['flow'] == 'sabre' else 'pam'
        d = agg['placements'].setdefault(pl, {'runs': 0, 'ok': 0,
                                              'refused': 0, 'fail': 0})
        d['runs'] += 1
        d['ok' if label == 'ok' else
          'refused' if label.startswith('refused') else 'fail'] += 1
        for k, v in flags.items():
            if k.startswith('escape') or k.endswith('_passes'):
                agg['probe'][k] = agg['probe'].get(k, 0) + v
                if k.startswith('escape') and v:
                    kk = 'runs_with_' + k
                    agg['probe'][kk] = agg['probe'].get(kk, 0) + 1
        key = label if not fails else '+'.join(sorted(f[0] for f in fails))
        agg['outcomes'][key] = agg['outcomes'].get(key, 0) + 1
        if agg['sample'] is None and flags.get('swaps', 0) > 0:
            agg['sample'] = dict(cs, verdict=label, swaps=flags['swaps'])
        rank = (len(cs['ops']), cs['m'], cs['w'], len(cs['edges']),
                rank0 + i)
        for sig, what in fails:
            cur = agg['fails'].get(sig)
            if cur is None:
                agg['fails'][sig] = [rank, what, dict(cs, seed=seed), 1]
            else:
                cur[3] += 1
                if rank < tuple(cur[0]):
                    cur[0], cur[1], cur[2] = rank, what, dict(cs, seed=seed)
    return agg


def _items(family: str, cases: list, seed: int, per: int) -> list:
    return [(family, i, cases[i:i + per], seed)
            for i in range(0, len(cases), per)]


def run(ctx: Ctx) -> None:
    ctx.max_reported = 20        # one line per distinct defect
    gc.collect()
    gc.freeze()                  # keep the forked workers' pages shared
    q = ctx.quick
    scale = float(os.environ.get('VERIF_BUDGET_SCALE', '1'))  # development
    budget = (110 if q else 1600) * scale
    pam = fam_pam(q)
    pam3 = [dict(c, flow='pam') for c in pam if c['flow'] == 'pam3']
    pam = [c for c in pam if c['flow'] == 'pam']
    spec_fams = [fam_escape(q), fam_small(q), fam_params(q), fam_blocked(q),
                 fam_escape7(q), fam_wide4(q)]
    if not q:
        spec_fams.append(fam_bigger())
    items: list = []
    planned: dict[str, int] = {}
    items += _items('pam-3-qudit-blocks', pam3, ctx.seed, 1)
    items += _items('pam', pam, ctx.seed, 3)
    planned['pam-3-qudit-blocks'] = len(pam3)
    planned['pam'] = len(pam)
    for fam_specs in spec_fams:
        # simplest circuits of every graph before longer ones of any graph
        fam_specs.sort(key=lambda sp: (sp['lo'], sp['m'], sp['w'],
                                       len(sp['edges'])))
        for i, sp in enumerate(fam_specs):
            planned[sp['family']] = planned.get(sp['family'], 0) + \
                spec_size(sp)
            items.append((sp['family'], sp['lo'], sp, ctx.seed))
    only = os.environ.get('VERIF_FAMILIES')          # development aid
    if only:
        items = [i for i in items if i[0] in only.split(',')]
        ctx.cap('VERIF_FAMILIES=' + only + ': families restricted by hand')
    # families advance side by side (each simplest-first) so that a time cap
    # leaves every family with a completed prefix
    groups: dict[str, list] = {}
    for it in items:
        groups.setdefault(it[0], []).append(it)
    queues = list(groups.values())
    items = []
    i = 0
    while queues:
        qu = queues[i % len(queues)]
        items.append(qu.pop(0))
        if not qu:
            queues.remove(qu)
        else:
            i += 1
    items_per_family = {k: 0 for k in groups}
    for it in items:
        items_per_family[it[0]] += 1
    done_per_family = {k: 0 for k in groups}
    fails: dict[str, list] = {}
    fam: dict[str, dict] = {}
    probe: dict[str, int] = {}
    placements: dict[str, dict] = {}
    done = 0
    for agg in pmap(_work, items, procs=ctx.procs,
                    deadline=ctx.t0 + budget):
        done += 1
        done_per_family[agg['family']] += 1
        ctx.cov['evaluations'] += agg['runs']
        ctx.cov['distinct_nontrivial'] += agg['nontrivial']
        f = fam.setdefault(agg['family'], {
            'runs': 0, 'nontrivial': 0, 'identity_mappings': 0, 'swaps': 0,
        })
        f['runs'] += agg['runs']
        f['nontrivial'] += agg['nontrivial']
        f['identity_mappings'] += agg['identity']
        f['swaps'] += agg['swaps']
        for k, v in agg['probe'].items():
            kk = agg['family'] + ':' + k
            probe[kk] = probe.get(kk, 0) + v
        for p, d in agg['placements'].items():
            t = placements.setdefault(p, {})
            for k, v in d.items():
                t[k] = t.get(k, 0) + v
        for k, v in agg['outcomes'].items():
            ctx.outcomes[k] += v
        if agg['sample'] is not None and sum(
                1 for s in ctx.cov['samples']
                if s.get('family') == agg['family']) < 1:
            ctx.sample(dict(agg['sample'], family=agg['family']), 8)
        for sig, (rank, what, rep, cnt) in agg['fails'].items():
            cur = fails.get(sig)
            if cur is None:
                fails[sig] = [tuple(rank), what, rep, cnt]
            else:
                cur[3] += cnt
                if tuple(rank) < cur[0]:
                    cur[0], cur[1], cur[2] = tuple(rank), what, rep
    if done < len(items):
        ctx.cap(
            f'time cap after {done} of {len(items)} work items; families '
            'advance side by side in canonical simplest-first order; '
            'completed/planned items per family: ' + ', '.join(
                f'{k}={done_per_family[k]}/{v}'
                for k, v in sorted(items_per_family.items())),
        )
    for name, d in sorted(fam.items()):
        ctx.part('family:' + name, planned=planned.get(name, 0), **d)
    for name, d in sorted(placements.items()):
        ctx.part('placement:' + name, **d)
    esc = {k: v for k, v in sorted(probe.items())}
    ctx.cov['branch_probe'] = esc
    reached = sum(v for k, v in probe.items()
                  if k.startswith('escape:escape:'))
    ctx.cov['escape_branch_executions_in_targeted_family'] = reached
    if reached == 0 and 'escape' in fam:
        ctx.cov['escape_family_vacuous'] = True
        print('[C09] warning: the targeted family never reached the SABRE '
              'local-minimum escape branch (vacuous)'
              + (' -- this run was cut short by a cap' if ctx.caps else ''))
    ctx.cov['rule'] = (
        'every (graph, width, circuit, placement, layout passes, SABRE '
        'parameters) of the stated families, distinct by construction; '
        'non-trivial = at least one swap was inserted or a recorded mapping '
        'is not the identity'
    )
    ctx.assumptions += [
        'qubits only; inputs contain no SwapGate so every SwapGate of the '
        'output was added by routing',
        'gate matrices come from Gate.get_unitary (C18); the contraction, '
        'the embedding at initial/final mapping and the input unitary are '
        'numpy code of the harness',
        'TrivialPlacementPass / StaticPlacementPass leaving a disconnected '
        'placement and the workflow then refusing with RuntimeError is not '
        'a violation (checked: the placement really is disconnected)',
        'PAM flow: Hilbert-Schmidt cost <= 1e-5 (blocks are re-synthesised '
        'with success threshold 1e-8); SABRE flow: 1e-9 max-abs',
        'PassData.seed = VERIF_SEED; the oracle is exact for any seed',
    ]
    for sig, (rank, what, rep, cnt) in sorted(
            fails.items(), key=lambda kv: kv[1][0]):
        if not _confirm(rep, sig):
            sig += '-not-reproducible'
        ctx.violation(sig, what, rep)
        for v in ctx.violations:
            if v['signature'] == sig:
                v['count'] = cnt
        if sig in ctx.known_hits:
            ctx.known_counts[sig] += cnt - 1


def _run_one(rep: dict) -> tuple:
    _, data = run_workflow(
        Circuit(1), [JudgeBatch([rep], int(rep.get('seed', 0)))],
    )
    return data['c09_results'][0]


def _confirm(rep: dict, sig: str) -> bool:
    return all(sig in [f[0] for f in _run_one(rep)[1]] for _ in range(2))


def replay(ctx: Ctx, obj: Any) -> bool:
    label, fails, flags = _run_one(obj)
    for sig, what in fails:
        print(f'# {sig}: {what}')
    return not fails
