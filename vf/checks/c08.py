"""C08 -- partitioning regroups operations without changing the program.

Bounded-exhaustive: every sequence of at most L tagged operations over an
explicit alphabet (1-qudit gate at each qudit, 2-qudit gate at each ordered
pair, 3-qudit gate at each triple in two orders, barrier on each subset of
size >= 2, measurement of each qudit and of all, reset of each qudit) on
2..4 (thorough 5) qudits, every partitioner, every block size; pipelines of
two partitioners (already-blocked input); and deviation-bounded long
circuits (brick-work / ladder scripts with every <=1 (thorough <=2)
substitution).  Oracle: vf.c08_model / vf.c08_batch (independent unfolding,
per-qudit timelines, block widths, barrier-like operations top-level).
"""
from __future__ import annotations

import gc
import itertools
import os
from typing import Any

from vf.common import Ctx
from vf.common import pmap
# imported here (not in the workers) so that the forked pool inherits the
# loaded library instead of importing it once per process
from vf.c08_batch import JudgeBatch
from vf.loopback import run_workflow
from bqskit.ir.circuit import Circuit

AWARE = ['quick', 'single', 'quick+extend']        # know barrier-like ops
OTHERS = ['scan', 'greedy', 'cluster', 'gtqcp', 'tdag']
ALL = ['quick', 'scan', 'cluster', 'greedy', 'gtqcp', 'tdag', 'single',
       'quick+extend']
PIPES = [
    ('quick', 'quick'), ('quick', 'scan'), ('scan', 'quick'),
    ('single', 'quick'), ('single', 'scan'), ('quick', 'gtqcp'),
    ('quick', 'tdag'), ('quick', 'cluster'), ('scan', 'single'),
    ('single', 'quick+extend'), ('gtqcp', 'quick'), ('tdag', 'scan'),
]


# ------------------------------------------------------------------ space
def gate_alphabet(n: int) -> list:
    a: list = [['g', q] for q in range(n)]
    a += [['g', p, q] for p, q in itertools.permutations(range(n), 2)]
    for t in itertools.combinations(range(n), 3):
        a.append(['g', *t])
        a.append(['g', t[2], t[0], t[1]])
    return a


def pseudo_alphabet(n: int, full: bool = False) -> list:
    """full: also single-qudit barriers and measurements of every subset."""
    a: list = []
    for k in range(1 if full else 2, n + 1):
        a += [['b', *t] for t in itertools.combinations(range(n), k)]
    a += [['m', q] for q in range(n)]
    if full:
        for k in range(2, n):
            a += [['m', *t] for t in itertools.combinations(range(n), k)]
    a.append(['m', *range(n)])
    a += [['r', q] for q in range(n)]
    return a


def sandwiches(n: int, lean: bool = False) -> list:
    """gate, barrier-like, barrier-like, gate -- every such sequence over
    the full alphabets: a bin that was closed on one qudit by the first
    barrier-like operation and would grow, behind the second one, onto a
    qudit that second one covers (QuickPartitioner's pending bins then wait
    on each other; found by an outside random search on a 79-operation
    circuit, minimal form 4 operations on 3 qudits)."""
    g = gate_alphabet(n)
    p = pseudo_alphabet(n, True)
    if lean:
        # multi-qudit gates around two barrier-like operations that share a
        # qudit (the rest of the product is in the thorough tier)
        g = [x for x in g if len(x) > 2]
        return [[a, b, c, d] for a in g for b in p for c in p for d in g
                if set(b[1:]) & set(c[1:])]
    return [[a, b, c, d] for a in g for b in p for c in p for d in g]


def sequences(n: int, maxlen: int, which: str) -> list:
    """which: 'gates' = gate-only sequences; 'pseudo' = sequences over the
    full alphabet holding at least one barrier-like op.  Shortest first."""
    g = gate_alphabet(n)
    full = g + pseudo_alphabet(n)
    out = []
    for ln in range(1, maxlen + 1):
        if which == 'gates':
            out += [list(s) for s in itertools.product(g, repeat=ln)]
        else:
            out += [
                list(s) for s in itertools.product(full, repeat=ln)
                if any(o[0] != 'g' for o in s)
            ]
    return out


def block_sizes(n: int, top: int) -> list:
    return list(range(2, min(n + 1, top) + 1))


def stage_lists(names: list, n: int, top: int) -> list:
    res = []
    for name in names:
        for bs in block_sizes(n, top):
            if name.endswith('+extend') and bs > n:
                continue        # "Cannot extend block larger than circuit"
            if name == 'single' and bs != 2:
                continue        # takes no block size
            res.append([[name, bs]])
    return res


def pipe_lists(n: int, pipes: list, combos: list) -> list:
    res = []
    for a, b in pipes:
        for bsa, bsb in combos:
            # 'single' takes no block size: keep one representative
            if (a == 'single' and bsa != 2) or (b == 'single' and bsb != 2):
                continue
            if bsa > n or bsb > n:
                continue
            res.append([[a, bsa], [b, bsb]])
    return res


def retag_lists(n: int, firsts: list, seconds: list, combos: list) -> list:
    """a(bsa) > retag > b(bsb): the second stage meets blocks whose
    operations carry other parameters than the circuits stored inside their
    CircuitGates (what instantiation leaves behind)."""
    res = []
    for a in firsts:
        for b in seconds:
            for bsa, bsb in combos:
                if (a == 'single' and bsa != 2) or bsa > n or bsb > n:
                    continue
                if b == 'extend':
                    res.append([[a, bsa], ['retag', 0], ['extend', bsb]])
                elif b == 'single':
                    if bsb == 2:
                        res.append([[a, bsa], ['retag', 0], ['single', 2]])
                else:
                    res.append([[a, bsa], ['retag', 0], [b, bsb]])
    return res


def brickwork(n: int, layers: int) -> list:
    ops: list = []
    for k in range(layers):
        for i in range(k % 2, n - 1, 2):
            ops.append(['g', i, i + 1] if k % 4 < 2 else ['g', i + 1, i])
        if k % 2 == 1:
            ops += [['g', q] for q in range(0, n, 2)]
    return ops


def ladder(n: int, reps: int) -> list:
    ops: list = []
    for r in range(reps):
        for i in range(n - 1):
            ops.append(['g', i, i + 1])
            if (i + r) % 3 == 0:
                ops.append(['g', i + 1])
        ops.append(['g', n - 1, 0] if r % 2 == 0 else ['g', 0])
    return ops


def long_alphabet(n: int, reach: int = 99) -> list:
    a: list = [['g', q] for q in range(n)]
    a += [['g', p, q] for p, q in itertools.permutations(range(n), 2)
          if abs(p - q) <= reach]
    a += [['g', i, i + 1, i + 2] for i in range(n - 2)]
    a.append(['g', n - 1, 0, n // 2])
    a += [['b', 0, 1], ['b', n // 2 - 1, n // 2, n // 2 + 1],
          ['b', *range(n)], ['r', 0], ['r', n // 2], ['m', *range(n)]]
    return a


def deviations(base: list, alpha: list, k: int) -> list:
    """Every script that differs from `base` in exactly k positions."""
    res = []
    for pos in itertools.combinations(range(len(base)), k):
        for repl in itertools.product(alpha, repeat=k):
            if any(base[p] == r for p, r in zip(pos, repl)):
                continue
            s = list(base)
            for p, r in zip(pos, repl):
                s[p] = r
            res.append(s)
    return res


# ----------------------------------------------------------------- worker
def _work(item: tuple) -> dict:
    """item = (family, n, rank0, [ops...], [stages...], seed)."""
    family, n, rank0, opss, stagess, seed = item
    cases = [(n, ops, st) for ops in opss for st in stagess]
    _, data = run_workflow(Circuit(1), [JudgeBatch(cases, seed)])
    results = data['c08_results']
    agg: dict[str, Any] = {
        'family': family, 'runs': 0, 'nontrivial': 0, 'outcomes': {},
        'per': {}, 'fails': {}, 'bounded': 0, 'escaped': 0, 'sample': None,
    }
    for i, ((n_, ops, st), (label, fails, flags)) in enumerate(
            zip(cases, results)):
        agg['runs'] += 1
        pname = '>'.join(s[0] for s in st)
        per = agg['per'].setdefault(
            pname, {'runs': 0, 'ok': 0, 'refused': 0, 'fail': 0,
                    'multi_op_blocks': 0},
        )
        per['runs'] += 1
        if label == 'ok':
            per['ok'] += 1
        elif label.startswith('refused'):
            per['refused'] += 1
        else:
            per['fail'] += 1
        mb = flags.get('multi_op_blocks', 0)
        per['multi_op_blocks'] += mb
        if mb > 0:
            agg['nontrivial'] += 1
            if agg['sample'] is None:
                agg['sample'] = {
                    'qudits': n_, 'ops': ops, 'pipeline': st,
                    'blocks': flags.get('blocks'), 'verdict': label,
                }
        agg['bounded'] += flags['surround_bounded']
        agg['escaped'] += flags['surround_escaped']
        key = pname + ':' + (label if not fails else
                             '+'.join(sorted(f[0] for f in fails)))
        agg['outcomes'][key] = agg['outcomes'].get(key, 0) + 1
        rank = (len(ops), n_, rank0 + i // max(1, len(stagess)),
                i % max(1, len(stagess)))
        for sig, what in fails:
            cur = agg['fails'].get(sig)
            if cur is None:
                agg['fails'][sig] = [rank, what, {
                    'n': n_, 'ops': ops, 'stages': st, 'seed': seed,
                }, 1]
            else:
                cur[3] += 1
                if rank < tuple(cur[0]):
                    cur[0], cur[1] = rank, what
                    cur[2] = {'n': n_, 'ops': ops, 'stages': st, 'seed': seed}
    return agg


def _interleave(items: list) -> list:
    """Round-robin over families, keeping each family's own order."""
    groups: dict[str, list] = {}
    for it in items:
        groups.setdefault((it[0], it[1]), []).append(it)   # (family, width)
    out = []
    queues = list(groups.values())
    i = 0
    while queues:
        q = queues[i % len(queues)]
        out.append(q.pop(0))
        if not q:
            queues.remove(q)
        else:
            i += 1
    return out


def _items(family: str, n: int, seqs: list, stagess: list, seed: int,
           target: int = 400) -> list:
    if not seqs or not stagess:
        return []
    per = max(1, target // len(stagess))
    return [
        (family, n, i, seqs[i:i + per], stagess, seed)
        for i in range(0, len(seqs), per)
    ]


# -------------------------------------------------------------------- run
def plan(ctx: Ctx) -> list:
    q = ctx.quick
    items: list = []
    seed = ctx.seed
    top = 4 if q else 5
    sq = [(2, 2), (2, 3), (3, 2), (3, 3)]
    # F1: gate-only circuits, every partitioner
    for n, ln in ((2, 4), (3, 3), (4, 2)) if q else \
            ((2, 5), (3, 4), (4, 3), (5, 2)):
        sq_all = sequences(n, ln, 'gates')
        st = stage_lists(ALL, n, top)
        if q:
            # block size > width takes the "block the entire circuit"
            # shortcut whatever the circuit: sequences of length <= 2 only
            short = [c for c in sq_all if len(c) <= 2]
            longer = [c for c in sq_all if len(c) > 2]
            items += _items('gates', n, short, st, seed)
            items += _items('gates', n, longer,
                            [x for x in st if x[0][1] <= n], seed)
        else:
            items += _items('gates', n, sq_all, st, seed)
    # F2: circuits with barrier-like operations
    aware = ['quick', 'single'] if q else AWARE
    for n, ln in ((2, 3), (3, 3), (4, 2)) if q else ((2, 4), (3, 4), (4, 3)):
        items += _items('pseudo-aware', n, sequences(n, ln, 'pseudo'),
                        stage_lists(aware, n, top), seed)
    for n, ln in ((2, 2), (3, 2)) if q else ((2, 3), (3, 2), (4, 2)):
        items += _items('pseudo-others', n, sequences(n, ln, 'pseudo'),
                        stage_lists(OTHERS, n, top), seed)
    # F2b: two barrier-like operations between two gates
    for n in (3,) if q else (3, 4):
        items += _items('pseudo-sandwich', n, sandwiches(n, q),
                        stage_lists(['quick', 'single'] if q else AWARE,
                                    n, top), seed)
    # F3: already-blocked input (pipelines of two partitioners)
    if q:
        items += _items('blocked-input', 3, sequences(3, 3, 'gates'),
                        pipe_lists(3, PIPES[:1] + PIPES[2:3],
                                   [(2, 3), (3, 2)]), seed)
        items += _items('blocked-input', 4, sequences(4, 2, 'gates'),
                        pipe_lists(4, PIPES, [(2, 3), (3, 2)]), seed)
        items += _items('blocked-input-pseudo', 2, sequences(2, 3, 'pseudo'),
                        pipe_lists(2, [PIPES[0], PIPES[3], PIPES[9]], sq),
                        seed)
        items += _items('retagged-blocks', 3, sequences(3, 3, 'gates'),
                        retag_lists(3, ['quick', 'single'],
                                    ['extend', 'quick', 'scan'],
                                    [(2, 3), (2, 2)]), seed)
        items += _items('retagged-blocks', 4, sequences(4, 2, 'gates'),
                        retag_lists(4, ['quick', 'single', 'scan'],
                                    ['extend', 'quick', 'scan', 'cluster',
                                     'greedy', 'single', 'gtqcp', 'tdag'],
                                    [(2, 3), (2, 4), (3, 4)]), seed)
    else:
        for n, ln in ((3, 3), (4, 3)):
            items += _items('retagged-blocks', n, sequences(n, ln, 'gates'),
                            retag_lists(n, ['quick', 'single', 'scan'],
                                        ['extend', 'quick', 'scan', 'cluster',
                                         'greedy', 'single', 'gtqcp', 'tdag'],
                                        [(2, 2), (2, 3), (2, 4), (3, 3),
                                         (3, 4)]), seed)
        sq4 = sq + [(2, 4), (4, 2), (3, 4), (4, 3)]
        items += _items('blocked-input', 3, sequences(3, 3, 'gates'),
                        pipe_lists(3, PIPES, sq), seed)
        items += _items('blocked-input', 4, sequences(4, 2, 'gates'),
                        pipe_lists(4, PIPES, sq4), seed)
        items += _items('blocked-input', 4, sequences(4, 3, 'gates')[600:],
                        pipe_lists(4, PIPES[:3], [(2, 3), (3, 2)]), seed)
        items += _items('blocked-input-pseudo', 3, sequences(3, 3, 'pseudo'),
                        pipe_lists(3, [PIPES[0], PIPES[3], PIPES[9]], sq),
                        seed)
    return items


def plan_long(ctx: Ctx) -> list:
    q = ctx.quick
    items: list = []
    if q:
        bases = [(6, brickwork(6, 4)), (6, ladder(6, 2))]
    else:
        bases = [(6, brickwork(6, 6)), (6, ladder(6, 3)),
                 (8, brickwork(8, 6)), (10, ladder(10, 3))]
    for n, base in bases:
        alpha = long_alphabet(n, 2 if q else 99)
        if q:
            st_aware = [[['quick', 2]], [['quick', 3]], [['single', 2]]]
            st_other = [[[p, 3]] for p in ('scan', 'gtqcp', 'tdag')]
        else:
            sizes = [2, 3, 4, 5, 6] if n == 6 else [3, 5]
            st_aware = [[[p, b]] for p in ('quick', 'quick+extend')
                        for b in sizes] + [[['single', 2]]]
            st_other = [[[p, b]] for p in ('scan', 'gtqcp', 'tdag')
                        for b in sizes]
            if n == 6:
                st_other += [[[p, b]] for p in ('cluster', 'greedy')
                             for b in (3, 4)]
        gate_alpha = [a for a in alpha if a[0] == 'g']
        ps_alpha = [a for a in alpha if a[0] != 'g']
        items += _items('long', n, [list(base)],
                        st_aware + st_other + [[['greedy', 3]],
                                               [['cluster', 3]]],
                        ctx.seed, 20)
        second_base = q and base is not bases[0][1]
        items += _items('long', n, deviations(base, gate_alpha, 1),
                        st_aware[:2] if second_base else st_aware + st_other,
                        ctx.seed, 60)
        items += _items('long', n, deviations(base, ps_alpha, 1),
                        st_aware, ctx.seed, 60)
        if not q and n == 6:
            # two substitutions: QuickPartitioner (the step of every
            # standard workflow), reduced replacement alphabet
            red = [['g', 0, n - 1], ['g', 2, 4], ['g', 1, 2, 3],
                   ['b', 0, 1], ['b', *range(n)], ['r', n // 2], ['g', 3]]
            items += _items('long-2dev', n, deviations(base, red, 2),
                            [[['quick', b]] for b in (2, 3, 4)], ctx.seed, 90)
    return items


def run(ctx: Ctx) -> None:
    ctx.max_reported = 20        # one line per distinct defect
    gc.collect()
    gc.freeze()                  # keep the forked workers' pages shared
    budget = (110 if ctx.quick else 1500) * float(
        os.environ.get('VERIF_BUDGET_SCALE', '1'))   # development aid
    items = plan(ctx)
    litems = plan_long(ctx)
    only = os.environ.get('VERIF_FAMILIES')          # development aid
    if only:
        keep = only.split(',')
        items = [i for i in items if i[0] in keep]
        litems = [i for i in litems if i[0] in keep]
        ctx.cap('VERIF_FAMILIES=' + only + ': families restricted by hand')
    fails: dict[str, list] = {}
    fam: dict[str, dict] = {}
    per: dict[str, dict] = {}
    planned = {'small': len(items), 'long': len(litems)}
    done = {'small': 0, 'long': 0}
    # one deadline; families advance side by side (each simplest-first), so
    # a time cap leaves every family with a completed prefix
    order = _interleave(items + litems)
    for agg in pmap(_work, order, procs=ctx.procs, deadline=ctx.t0 + budget):
        group = 'long' if agg['family'].startswith('long') else 'small'
        done[group] += 1
        ctx.cov['evaluations'] += agg['runs']
        ctx.cov['distinct_nontrivial'] += agg['nontrivial']
        f = fam.setdefault(agg['family'], {'runs': 0, 'nontrivial': 0,
                                           'work_items_done': 0})
        f['runs'] += agg['runs']
        f['nontrivial'] += agg['nontrivial']
        f['work_items_done'] += 1
        ctx.add('surround_calls_with_bounding_region', agg['bounded'])
        ctx.add('surround_results_outside_bounding_region', agg['escaped'])
        for k, v in agg['outcomes'].items():
            ctx.outcomes[k] += v
        for p, d in agg['per'].items():
            t = per.setdefault(p, {})
            for k, v in d.items():
                t[k] = t.get(k, 0) + v
        if agg['sample'] is not None and agg['family'] in (
                'gates', 'pseudo-aware', 'blocked-input', 'long'):
            if sum(1 for s in ctx.cov['samples']
                   if s.get('family') == agg['family']) < 2:
                ctx.sample(dict(agg['sample'], family=agg['family']), 8)
        for sig, (rank, what, rep, cnt) in agg['fails'].items():
            cur = fails.get(sig)
            if cur is None:
                fails[sig] = [tuple(rank), what, rep, cnt]
            else:
                cur[3] += cnt
                if tuple(rank) < cur[0]:
                    cur[0], cur[1], cur[2] = tuple(rank), what, rep
    if sum(done.values()) < len(order):
        per_family: dict[str, int] = {}
        for it in order:
            per_family[it[0]] = per_family.get(it[0], 0) + 1
        ctx.cap(
            f'time cap after {sum(done.values())} of {len(order)} work '
            'items; families advance side by side in canonical '
            'shortest-first order; completed/planned items per family: '
            + ', '.join(f'{k}={fam.get(k, {}).get("work_items_done", 0)}/{v}'
                        for k, v in sorted(per_family.items())),
        )
    for name, d in sorted(fam.items()):
        ctx.part('family:' + name, **d)
    for name, d in sorted(per.items()):
        ctx.part('partitioner:' + name, **d)
    ctx.cov['rule'] = (
        'all operation sequences up to the stated length over the stated '
        'alphabet x every partitioner x every block size (distinct by '
        'construction); non-trivial = the partitioner produced at least one '
        'block holding >= 2 operations'
    )
    ctx.cov['work_items'] = {'planned': planned, 'completed': done}
    ctx.assumptions += [
        'non-empty circuits only; qubits only',
        'a RuntimeError/ValueError refusing a gate wider than the block '
        'size (Scan, GTQCP, TDAG, Clustering) is a documented refusal, not '
        'a violation',
        'ExtendBlockSizePass is only run with minimum size <= circuit width',
        'partitioners run via Workflow.run inside a task of the real '
        'in-process Worker (vf.loopback), PassData.seed = VERIF_SEED',
    ]
    # simplest counterexample per signature, simplest signatures first
    for sig, (rank, what, rep, cnt) in sorted(
            fails.items(), key=lambda kv: kv[1][0]):
        if not _confirm(rep, sig):
            sig += '-not-reproducible'
        for _ in range(min(cnt, 1)):
            ctx.violation(sig, what, rep)
        for v in ctx.violations:
            if v['signature'] == sig:
                v['count'] = cnt
        if sig in ctx.known_hits:
            ctx.known_counts[sig] += cnt - 1


def _run_one(rep: dict) -> tuple:
    case = (rep['n'], rep['ops'], rep['stages'])
    _, data = run_workflow(
        Circuit(1), [JudgeBatch([case], int(rep.get('seed', 0)))],
    )
    return data['c08_results'][0]


def _confirm(rep: dict, sig: str) -> bool:
    return all(
        sig in [f[0] for f in _run_one(rep)[1]] for _ in range(2)
    )


def replay(ctx: Ctx, obj: Any) -> bool:
    label, fails, flags = _run_one(obj)
    for sig, what in fails:
        print(f'# {sig}: {what}')
    return not fails
