"""C01 -- compile() preserves circuit semantics under the reported mappings.

Space (DESIGN 3.C01): every operation sequence of length <= L over a small
alphabet per width, x machine models (coupling shape x native gate set,
machine wider than the circuit) x optimisation level x max_synthesis_size,
plus barrier / trailing-measurement / pre-blocked variants, qutrit circuits
and three fixed 4-5 qubit ladders with <= 1 substituted operation.  One
`bqskit.compile(..., with_mapping=True)` per case on the loop-back runtime;
the mapping-aware unitary oracle and the measurement oracle of
`vf.c01_oracle` judge every result.
"""
from __future__ import annotations

import itertools as it
import os

from vf import c01_cases as K
from vf import c01_driver as D
from vf import c01_oracle as O
from vf.common import Ctx
from vf.common import HarnessError

RULE = (
    'one compile(with_mapping=True) per (circuit, model, level, mss); '
    'circuits = all op sequences of length <= L over the per-width alphabet '
    '+ barrier/measure/pre-blocked variants + qutrit circuits + ladders; '
    'non-trivial = ran (ok or crash) and the circuit has >= 1 multi-qudit '
    'gate; distinct = distinct case specification'
)


def alphabets(seed: int) -> dict:
    u3 = K.generic_angles(seed, 0)
    return {
        3: [['U3', [0], u3], ['T', [2]], ['CNOT', [0, 1]], ['CNOT', [0, 2]],
            ['CNOT', [2, 1]], ['CZ', [1, 2]], ['CCX', [0, 1, 2]]],
        2: [['U3', [0], u3], ['T', [1]], ['CNOT', [0, 1]], ['CNOT', [1, 0]],
            ['CZ', [0, 1]]],
        1: [['U3', [0], u3], ['T', [0]], ['H', [0]]],
    }


def seqs(alpha: list, L: int, max_ccx: int = 99) -> list:
    out = []
    for n in range(L + 1):
        for c in it.product(alpha, repeat=n):
            if sum(1 for op in c if op[0] == 'CCX') <= max_ccx:
                out.append([list(op) for op in c])
    return out


def mk(inp: dict, model: dict | None, level: int, mss: int = 3,
       eps: float = 1e-8) -> dict:
    return {'input': inp, 'model': model, 'level': level, 'mss': mss,
            'eps': eps}


def variants(n: int, ops: list) -> list:
    """barrier after the first op, trailing measurement of all / of the last
    qudit only / of qudits in reversed classical order, pre-blocked."""
    v = [
        K.circuit_spec(n, ops, barrier=1),
        K.circuit_spec(n, ops, measure=list(range(n))),
        K.circuit_spec(n, ops, measure=[n - 1]),
        K.circuit_spec(n, ops, blocked=True),
    ]
    if n >= 2:
        v.append(K.circuit_spec(n, ops, measure=list(range(n))[::-1]))
        v.append(K.circuit_spec(n, ops, barrier=1, measure=[0], blocked=True))
    return v


def ladders(seed: int) -> list:
    """Three fixed 4-5 qubit ladders and every single-operation substitution
    by {CZ on the same pair reversed, T on the first qudit of the pair}."""
    u3 = K.generic_angles(seed, 1)
    base = [
        (4, [['CNOT', [0, 1]], ['CNOT', [1, 2]], ['CNOT', [2, 3]]]),
        (4, [['U3', [0], u3], ['CNOT', [0, 3]], ['CNOT', [1, 2]],
             ['CNOT', [0, 2]]]),
        (5, [['CNOT', [0, 4]], ['CNOT', [1, 3]], ['CZ', [2, 4]],
             ['CNOT', [0, 2]]]),
    ]
    out = []
    for n, ops in base:
        out.append((n, ops))
        for i, op in enumerate(ops):
            if len(op[1]) == 2:
                for sub in (['CZ', op[1][::-1]], ['T', [op[1][0]]]):
                    if sub != op:
                        out.append((n, ops[:i] + [sub] + ops[i + 1:]))
    return out


def dense4() -> list:
    """Four fixed 5-6 gate circuits in which every pair of 4 qubits
    interacts: on a line or a star they need several swaps, so the routing
    permutation is (for some of them) not an involution -- the only inputs
    on which `pi` and `pi^-1` differ."""
    orders = [
        [[0, 1], [0, 2], [0, 3], [1, 2], [1, 3], [2, 3]],
        [[0, 1], [2, 3], [0, 2], [1, 3], [0, 3], [1, 2]],
        [[0, 3], [1, 2], [0, 2], [1, 3], [0, 1]],
        [[0, 2], [1, 3], [0, 3], [1, 2], [0, 1], [2, 3]],
    ]
    return [[['CNOT', p] for p in o] for o in orders]


def enumerate_cases(ctx: Ctx) -> list:
    A = alphabets(ctx.seed)
    M = K.model_spec
    line4 = M(4, K.LINE4, K.GS_DEFAULT, name='line4')
    all3zx = M(3, None, K.GS_ZX, name='all3-zx')
    star4i = M(4, K.STAR4, K.GS_ISWAP, name='star4-iswap')
    line3 = M(3, K.LINE3, K.GS_DEFAULT, name='line3')
    ring4 = M(4, K.RING4, K.GS_DEFAULT, name='ring4')
    all3 = M(3, None, K.GS_DEFAULT, name='all3')
    line3c = M(3, K.LINE3, K.GS_CONST, name='line3-const')
    line4zx = M(4, K.LINE4, K.GS_ZX, name='line4-zx')
    cz2 = M(2, None, K.GS_CZ_ONLY, name='all2-cz-only')
    cz3line = M(3, K.LINE3, K.GS_CZ_ONLY, name='line3-cz-only')
    m1 = M(1, [], ['U3'], name='one-u3')
    m1zx = M(1, [], ['RZ', 'SX'], name='one-zx')
    m2 = M(2, None, K.GS_DEFAULT, name='all2')
    line5 = M(5, [[0, 1], [1, 2], [2, 3], [3, 4]], K.GS_DEFAULT, name='line5')
    cases: list = []
    # the CNOT+H+T model gets the operations it can express exactly
    const_alpha = [a for a in A[3] if a[0] in ('T', 'CNOT')]

    def add(n: int, circs: list, models: list, levels: list,
            msss: tuple = (3,), eps: float = 1e-8) -> None:
        for lvl in levels:
            for model in models:
                for mss in msss:
                    for ops in circs:
                        inp = ops if isinstance(ops, dict) \
                            else K.circuit_spec(n, ops)
                        cases.append(mk(inp, model, lvl, mss, eps))

    star4 = M(4, K.STAR4, K.GS_DEFAULT, name='star4')
    add(4, dense4(), [line4, star4], [1] if ctx.quick else [1, 2])
    add(4, [K.circuit_spec(4, d, measure=[3, 0]) for d in dense4()[:2]],
        [line4], [1])
    if ctx.quick:
        noccx = [a for a in A[3] if a[0] != 'CCX']
        w3 = seqs(noccx, 2)
        add(3, w3, [line4, all3zx, star4i], [1])
        add(3, w3, [line4], [2])
        add(3, seqs(noccx, 1), [all3zx, star4i], [2])
        add(3, [[A[3][6]], [A[3][0], A[3][6]]], [line4], [1])
        add(2, seqs(A[2], 2), [cz2, line3], [1])
        add(2, seqs(A[2], 1), [cz2, line3], [2])
        add(2, seqs(A[2], 1), [None], [1])
        add(1, seqs(A[1], 2), [m1, m2], [1])
        add(1, seqs(A[1], 1), [m1, m2], [2])
        add(1, seqs(A[1], 1), [m1zx, None], [1])
        v3 = [[A[3][0], A[3][3]], [A[3][3], A[3][5]]]
        for ops in v3:
            add(3, variants(3, ops), [line4], [1])
        add(3, variants(3, v3[0])[:3], [all3zx], [2])
        add(2, variants(2, [A[2][2], A[2][0]]), [line3], [1])
        add(3, seqs(const_alpha, 1), [line3c], [1])
        add(3, seqs(noccx, 1), [line4], [1], msss=(2,))
        # the one level-3 case of the quick tier (2 qubits, ~2 s): a
        # near-identity entangling block, see the thorough tier
        add(2, [[['CNOT', [0, 1]], ['RZ', [1], [0.1]], ['CNOT', [0, 1]]]],
            [m2], [2, 3])
    else:
        noccx = [a for a in A[3] if a[0] != 'CCX']
        w3_2 = seqs(A[3], 2, max_ccx=1)
        w3_3 = seqs(noccx, 3)
        # levels 1-2: L<=3 without CCX on two models, L<=2 with <=1 CCX on all
        add(3, w3_2, [line3, line4, star4i, ring4, all3, all3zx, line4zx],
            [1, 2])
        add(3, w3_3, [line4, all3zx], [1])
        add(3, seqs(noccx, 2), [line4, star4i], [1, 2], msss=(2,))
        add(3, seqs(const_alpha, 2), [line3c], [1, 2])
        # generic U3 / CZ on a constant single-qudit gate set: the search
        # over H,T sequences did not end within 120 s (probes, 2 cases)
        add(3, [[A[3][0]], [A[3][5]]], [line3c], [1])
        add(3, seqs(noccx, 1), [cz3line], [1, 2])
        add(2, seqs(A[2], 3), [cz2, line3], [1, 2])
        add(2, seqs(A[2], 2), [m2, None], [1, 2, 3, 4])
        add(1, seqs(A[1], 3), [m1, m2, m1zx], [1, 2])
        add(1, seqs(A[1], 2), [m1, m2, None], [3, 4])
        for ops in [[A[3][0], A[3][3]], [A[3][3], A[3][5]],
                    [A[3][2], A[3][3], A[3][1]]]:
            add(3, variants(3, ops), [line4, all3zx, star4i], [1, 2])
            add(3, variants(3, ops), [line4], [3])
        add(2, variants(2, [A[2][2], A[2][0]]), [line3, cz2], [1, 2, 3, 4])
        lad = ladders(ctx.seed)
        for n, ops in lad:
            add(n, [ops], [line5 if n == 5 else ring4], [1])
        for n, ops in lad[:1] + [x for x in lad if x[0] == 5][:1]:
            add(n, [ops], [line5], [2])
        # level 3: L<=2 without CCX, plus CCX alone
        add(3, seqs(noccx, 2), [line4, all3zx], [3])
        add(3, [[A[3][6]]], [line4], [3])
        add(3, seqs(noccx, 1), [star4i, line3], [3])
        # level 4 (PAM): L<=1 and three two-op circuits
        add(3, seqs(noccx, 1), [line4, all3zx], [4])
        add(3, [[A[3][3], A[3][5]], [A[3][0], A[3][3]], [A[3][2], A[3][4]]],
            [line4], [4])
        add(2, seqs(A[2], 1), [line3], [3, 4])
        # near-identity entangling blocks exp(-i t/2 ZZ): a resynthesis that
        # accepts anything within 1e-2 would drop the CNOTs (cost 1-cos(t/2))
        for t in (0.1, 0.01):
            zz = [['CNOT', [0, 1]], ['RZ', [1], [t]], ['CNOT', [0, 1]]]
            add(2, [zz], [m2], [1, 2, 3, 4])
            add(3, [zz + [['CNOT', [1, 2]]]], [line3], [1, 2, 3])
        # the budget is proportional to synthesis_epsilon: a looser epsilon
        add(3, seqs(noccx, 1) + [[A[3][6]]], [line4], [1, 2], eps=1e-5)
        add(3, seqs(noccx, 2), [all3zx], [1], eps=1e-5)

    # ---- qutrits (default qutrit model / explicit CSUM+VariableUnitary)
    q1 = [[], [['SHIFT3', [0]]], [['H3', [0]]], [['CLOCK3', [0]]],
          [['VU3', [0], _vu3_identity()]]]
    q2 = [[['CSUM3', [0, 1]]], [['SHIFT3', [0]], ['CSUM3', [0, 1]]],
          [['CSUM3', [0, 1]], ['H3', [1]]]]
    qm2 = M(2, None, K.GS_QUTRIT, d=3, name='all2-qutrit')
    qm1 = M(1, [], ['VU3'], d=3, name='one-qutrit')
    lv = [1, 2] if ctx.quick else [1, 2, 3, 4]
    for lvl in lv:
        for ops in q1:
            for model in (None, qm1, qm2):
                cases.append(mk(K.circuit_spec(1, ops, d=3), model, lvl))
        for ops in q2[: (1 if ctx.quick else 3)]:
            for model in (None, qm2):
                cases.append(mk(K.circuit_spec(2, ops, d=3), model, lvl))

    # canonical simplest-first order, duplicates removed
    seen: set = set()
    out = []
    for c in sorted(cases, key=_rank):
        k = K.stable_hash(c)
        if k not in seen:
            seen.add(k)
            out.append(c)
    return out


def _vu3_identity() -> list:
    import numpy as np
    return [float(x) for x in np.eye(3).flatten()] + [0.0] * 9


def _rank(c: dict) -> tuple:
    s = c['input']
    extra = sum(1 for k in ('barrier', 'measure', 'blocked') if k in s)
    return (c['level'], len(s['ops']) + extra, s['n'], s.get('d', 2),
            0 if c['model'] is None else c['model']['n'],
            K.stable_hash(c))


def tags(case: dict, rec: dict, fine: bool = False) -> str:
    """Causal coordinates of a failure: level, many-qudit path, machine wider
    than the circuit, radix; `fine` adds the single-qudit branch and the
    input variant (used where those decide the code path that failed)."""
    b = K.branches(case)
    want = ['many-qudit-gate', 'machine-wider', 'width1']
    if fine:
        want += ['barrier', 'measure', 'blocked', 'mss2']
    keep = [x for x in b if x.startswith('level') or x in want
            or (fine and x.startswith('sq:'))]
    if case['input'].get('d', 2) != 2:
        keep.append(f'radix{case["input"]["d"]}')
    return ','.join(keep)


def judge(case: dict, rec: dict) -> list:
    F = D.Finding
    st = rec['status']
    if st == 'crash':
        return [F('crash:' + rec['sig'],
                  'compile() accepted the input and raised: '
                  + rec['tb'].strip().splitlines()[-1][:160])]
    if st != 'ok':
        return []
    t = tags(case, rec)
    out = []
    if not rec['maps_ok']:
        out.append(F(f'invalid-mapping:{t}',
                     f'returned mappings pi={rec["pi"]} pf={rec["pf"]} are not'
                     f' injective maps into the {rec["width"]} output qudits'))
        return out
    ident = rec['pi'] == rec['pf'] == list(range(len(rec['pi'])))
    mp = 'identity-maps' if ident else 'permuting-maps'
    if rec['dist'] > rec['budget']:
        size = 'semantic' if rec['dist'] > O.SEMANTIC else 'over-budget'
        out.append(F(
            f'wrong-linear-map:{size}:{mp}:{t}',
            f'output under pi={rec["pi"]} pf={rec["pf"]} is at HS distance '
            f'{rec["dist"]:.3g} of the input (budget {rec["budget"]:.3g})',
            numeric=True, dist=rec['dist'],
        ))
    elif rec['leak'] > 2 * rec['budget'] * (case['input'].get('d', 2)
                                            ** case['input']['n']) + 1e-9:
        out.append(F(
            f'leaks-into-ancillas:{mp}:{t}',
            f'induced map is not unitary: |M^M-I|={rec["leak"]:.3g}',
            numeric=True, dist=rec['leak'],
        ))
    m = rec.get('meas')
    if m is not None and not m['ok']:
        out.append(F(
            f'measurement-{m["kind"]}:{mp}:{tags(case, rec, True)}',
            f'measurements expected on physical qudits {m["want"]} '
            f'(final mapping {rec["pf"]}), output has {m["got"]}',
        ))
    return out


def run(ctx: Ctx) -> None:
    cases = enumerate_cases(ctx)
    ctx.assumptions += [
        'gate matrices returned by Gate.get_unitary(params) are right (C18)',
        'numpy tensor contraction; loop-back runtime = one worker, '
        'zero preemption (other schedules: C07/C12-C15 world)',
        'budget = synthesis_epsilon * (ops_in + ops_out + 4)^2 (DESIGN 2.4)',
    ]
    ctx.cov['space'] = {
        'cases': len(cases),
        'levels': sorted({c['level'] for c in cases}),
        'models': sorted({(c['model'] or {'name': 'None'})['name']
                          for c in cases}),
    }
    for c in cases[:: max(1, len(cases) // 5)][:6]:
        ctx.sample(D.short(c))
    done = D.explore(ctx, cases, judge, 110 if ctx.quick else 2400,
                     rule=RULE)
    # how often the oracle had something to get wrong
    stats = {'non_identity_mappings': 0, 'pi_differs_from_pf': 0,
             'non_involutive_routing_permutation': 0, 'measured_and_moved': 0}
    for case, rec in done.values():
        if rec['status'] != 'ok' or not rec.get('maps_ok'):
            continue
        pi, pf = rec['pi'], rec['pf']
        if pi != list(range(len(pi))) or pf != pi:
            stats['non_identity_mappings'] += 1
        if pi != pf:
            stats['pi_differs_from_pf'] += 1
            sig = dict(zip(pi, pf))
            if any(sig.get(sig[a], a) != a for a in sig):
                stats['non_involutive_routing_permutation'] += 1
            if case['input'].get('measure') is not None:
                stats['measured_and_moved'] += 1
    ctx.part('mapping_coverage', **stats)

    # ---- the "number of workers / schedule" quantifier: real compile()
    # runs inside the E1 world under every schedule with <= 1 deviation
    # (vf/c01_world.py; same oracle).  Reports through ctx.
    if os.environ.get('VERIF_C01_NO_WORLD'):     # isolate the loop-back part
        return
    try:
        from vf import c01_world
        st = c01_world.run_part(ctx, seconds=45 if ctx.quick else 900)
        ctx.cov['evaluations'] += st['executions']
        ctx.cov['world_schedule_executions'] = st['executions']
    except HarnessError:
        raise


def replay(ctx: Ctx, obj: dict) -> bool:
    if obj.get('engine') == 'E1' or 'choices' in obj:
        from vf import c01_world  # noqa: F401  (registers the judge)
        from vf import explore
        v = explore.replay_item(obj['spec'], obj['choices'], obj.get('fault'),
                                obj.get('judge', 'c01w'))
        for sig, what in v:
            print(f'# {sig}: {what[:500]}')
        return not v
    return D.replay_case(ctx, obj, judge)
