"""C10 -- every circuit-rewriting pass preserves its target (engine E3).

For every row of the catalogue (vf/c10_catalogue.py): enumerate the whole
bounded domain x option grid, run the real pass in-process on the loop-back
worker, and judge with an independent numpy simulator:

  * the pass must not fail with an internal error on an in-domain input
    (documented rejections of out-of-domain inputs are allowed),
  * unitary(out) == unitary(in) up to global phase within the row's tolerance,
  * the row's advertised postcondition holds.
"""
from __future__ import annotations

import contextlib
import io
import json
import logging
import os
import re
import signal
import time
import traceback
from typing import Any

import numpy as np

from vf.common import Ctx, pmap, stable_hash
from vf import c10_catalogue as cat
from vf.c10_core import build_circuit, describe, entry_dev, hs_cost, sim
from vf.loopback import TaskError, run_task
from bqskit.compiler.task import CompilationTask


def run_workflow(circuit: Any, workflow: Any, data: dict | None = None) -> Any:
    """vf.loopback.run_workflow with the logging level a real `Compiler`
    would give the task (the lowest level configured, WARNING by default;
    the bare loop-back task runs at level 0 = everything, which no client
    configuration produces by default)."""
    task = CompilationTask(circuit, workflow)
    task.request_data = True
    task.logging_level = logging.WARNING
    if data:
        task.data.update(data)
    return run_task(task)

QUICK_BUDGET = 120.0
# exact passes: besides the HS cost (1e-9) every matrix entry must agree up
# to one global phase.  Measured on the unchanged tree: < 1e-12 everywhere.
EXACT_ENTRY = 1e-7
THOROUGH_BUDGET = 34 * 60.0


class _CaseTimeout(BaseException):
    pass


def _alarm(signum: int, frame: Any) -> None:
    raise _CaseTimeout()


class _Collect(logging.Handler):
    def __init__(self) -> None:
        super().__init__(level=logging.WARNING)
        self.msgs: list[str] = []

    def emit(self, record: logging.LogRecord) -> None:
        try:
            self.msgs.append(str(record.getMessage()))
        except Exception:
            self.msgs.append(str(record.msg))


_LOG = _Collect()
_DEADLINE: float | None = None


def _init_worker() -> None:
    os.environ['RUST_BACKTRACE'] = '0'
    import multiprocessing
    if multiprocessing.current_process().name != 'MainProcess':
        # keep the collector away from the heap inherited from the parent
        # (copy-on-write faults cost more than the passes themselves)
        import gc
        gc.freeze()
        # native panics print to fd 2; pool workers report through values
        fd = os.open(os.devnull, os.O_WRONLY)
        os.dup2(fd, 2)
    lg = logging.getLogger('bqskit')
    lg.handlers[:] = [_LOG]
    lg.propagate = False
    signal.signal(signal.SIGALRM, _alarm)
    # seed_random_sources() looks libc up through an `ldconfig` subprocess on
    # every seeded workflow (~30 ms + a fork); memoise that stdlib lookup.
    import functools
    import bqskit.utils.random as br
    if not hasattr(br.find_library, 'cache_info'):
        br.find_library = functools.lru_cache(None)(br.find_library)


# ------------------------------------------------------------------ domains
_DOM_CACHE: dict[str, list] = {}


def domain_json(row: cat.Row, tier: str, seed: int, opts: dict) -> list[str]:
    """The row's domain for these options as JSON strings, de-duplicated, in
    canonical order.  Cached per worker (chunks of all rows are interleaved,
    so every worker visits every domain; strings keep that cache small)."""
    key = json.dumps([row.name, tier, seed, opts], sort_keys=True)
    if key not in _DOM_CACHE:
        seen = set()
        out = []
        for s in row.domain(tier, seed, opts):
            k = json.dumps(s, sort_keys=True)
            if k not in seen:
                seen.add(k)
                out.append(json.dumps(s))
        _DOM_CACHE[key] = out
    return _DOM_CACHE[key]


def domain_of(row: cat.Row, tier: str, seed: int, opts: dict) -> list[dict]:
    return [json.loads(s) for s in domain_json(row, tier, seed, opts)]


# ------------------------------------------------------------------ judging
_FRAME = re.compile(r'File "[^"]*bqskit/passes/([^"]+)\.py", line \d+, in (\w+)')


_FRAME_ANY = re.compile(r'File "[^"]*bqskit/([^"]+)\.py", line \d+, in (\w+)')


def _error_signature(tb: str) -> tuple[str, str, str]:
    """(exception type, causal slug, last line) from a worker traceback."""
    lines = [ln for ln in tb.strip().splitlines() if ln.strip()]
    last = lines[-1] if lines else 'Error'
    # the exception header is the first unindented line after the last frame
    # (messages may span several lines)
    fi = max([i for i, ln in enumerate(lines) if ln.startswith('  File ')],
             default=-1)
    for ln in lines[fi + 1:]:
        if not ln.startswith(' '):
            last = ln
            break
    m = re.match(r'^([\w.]+)(?::\s*(.*))?$', last)
    etype = (m.group(1) if m else 'Error').split('.')[-1]
    msg = (m.group(2) or '') if m else last
    words = re.sub(r'[^A-Za-z ]+', ' ', msg).lower().split()
    stem = '-'.join(words[:7]) or 'no-message'
    frames = _FRAME.findall(tb)
    if not frames:      # e.g. raised inside a task mapped onto the runtime
        frames = [(m, f) for m, f in _FRAME_ANY.findall(tb)
                  if not m.startswith(('runtime/', 'compiler/'))]
    where = ''
    if frames:
        mod, fn = frames[-1]
        where = '@' + mod.split('/')[-1] + '.' + fn
    # causal and stable: the pass-level frame that raised when there is one
    # (messages of one defect vary with the input), else the message stem
    return etype, (f'{etype}{where}' if where else f'{etype}:{stem}'), last


def _execute(row: cat.Row, opts: dict, spec: dict, seed: int) -> dict:
    """Run one case once.  Never raises for a failure of the code under
    test; returns a verdict dict."""
    r: dict[str, Any] = {'viol': [], 'outcome': '', 'acts': False,
                         'cost': 0.0, 'ent': 0.0, 'changed': False}
    cin = build_circuit(spec)
    pre = row.pre(opts)
    _LOG.msgs.clear()
    sink = io.StringIO()
    limit = row.timeout
    if _DEADLINE is not None:    # never run far past the tier's budget
        limit = min(limit, max(5.0, _DEADLINE - time.time() + 5.0))
    signal.setitimer(signal.ITIMER_REAL, limit)
    try:
        with contextlib.redirect_stdout(sink):
            if pre is not None:
                try:
                    cin, _ = run_workflow(cin, pre, {'seed': seed})
                except (TaskError, BaseException) as e:
                    if isinstance(e, (_CaseTimeout, KeyboardInterrupt)):
                        raise
                    tb = str(e) if isinstance(e, TaskError) \
                        else traceback.format_exc()
                    if '_CaseTimeout' in tb:
                        raise _CaseTimeout()
                    r['outcome'] = 'pre-pass-failed'
                    r['pre_error'] = _error_signature(tb)[2]
                    return r
            run_in = cin.copy()
            # never alias gate objects between the judged copy and the input
            cin = build_circuit(spec) if pre is None else cin
            u_in = sim(cin)
            r['acts'] = bool(row.acts_on(opts, cin))
            t0 = time.process_time()
            try:
                wf, data = row.make(opts, spec, seed)
            except Exception as e:  # constructor refused the options
                r['outcome'] = 'constructor-refused:' + type(e).__name__
                return r
            try:
                cout, pdata = run_workflow(run_in, wf, data)
            except (TaskError, BaseException) as e:
                if isinstance(e, (_CaseTimeout, KeyboardInterrupt)):
                    raise
                # a pyo3 PanicException is a BaseException and escapes the
                # worker's own error handling; judge it like a task error
                tb = str(e) if isinstance(e, TaskError) \
                    else traceback.format_exc()
                if '_CaseTimeout' in tb:
                    # the alarm fired inside a Python callback of native
                    # code, which re-raises it as a panic: still a timeout
                    raise _CaseTimeout()
                etype, slug, last = _error_signature(tb)
                why = row.rejects(opts, spec, etype, last)
                if why is not None:
                    r['outcome'] = 'rejected-as-documented'
                    return r
                r['outcome'] = 'internal-error'
                r['viol'].append((
                    f'{row.name}:error:{slug}',
                    f'{row.name}{_fmt(opts)} raised on an in-domain input: '
                    f'{last[:200]}',
                ))
                return r
            finally:
                r['secs'] = time.process_time() - t0
    except _CaseTimeout:
        r['outcome'] = 'timeout'
        return r
    finally:
        signal.setitimer(signal.ITIMER_REAL, 0)
    r['warnings'] = list(_LOG.msgs[:4])
    if tuple(cout.radixes) != tuple(cin.radixes):
        r['outcome'] = 'shape-changed'
        r['viol'].append((
            f'{row.name}:radixes-changed',
            f'{row.name}{_fmt(opts)}: radixes {cin.radixes} -> {cout.radixes}',
        ))
        return r
    u_out = sim(cout)
    target = u_in
    fix = getattr(row, 'frame', None)
    if fix is not None:
        target = fix(opts, u_in, pdata)
    cost = hs_cost(target, u_out)
    r['cost'] = cost
    r['ent'] = entry_dev(target, u_out)
    r['changed'] = describe(cin) != describe(cout)
    tol = row.tol(opts, spec)
    ent_bad = row.kind == 'exact' and r['ent'] > EXACT_ENTRY
    if not (cost <= tol) or ent_bad:
        rep = row.reported_failure(opts, cin, cout, r['warnings'])
        if rep is not None:
            r['outcome'] = 'pass-reported-failure'
            return r
        r['outcome'] = 'unitary-differs'
        mag = 'O(1)' if cost > 1e-3 else 'beyond-tolerance'
        r['viol'].append((
            f'{row.name}:unitary-differs:{mag}',
            f'{row.name}{_fmt(opts)}: HS cost {cost:.3e} (tolerance '
            f'{tol:.1e}), max entry deviation up to global phase '
            f'{r["ent"]:.2e}; '
            f'in={describe(cin)[:6]} out={describe(cout)[:8]}',
        ))
        return r
    for tag, text in row.post(opts, cin, cout, pdata):
        r['viol'].append((
            f'{row.name}:postcondition:{tag}',
            f'{row.name}{_fmt(opts)}: {text}; in={describe(cin)[:6]} '
            f'out={describe(cout)[:8]}',
        ))
    if r['viol']:
        r['outcome'] = 'postcondition-fails'
    else:
        r['outcome'] = 'ok-changed' if r['changed'] else 'ok-unchanged'
    return r


def _fmt(opts: dict) -> str:
    return '(' + ', '.join(f'{k}={v}' for k, v in sorted(opts.items())) + ')' \
        if opts else '()'


def judge(rowname: str, opts: dict, spec: dict, seed: int) -> dict:
    """One case; a failing numerical case must reproduce on two re-runs."""
    row = cat.ROWS[rowname]
    r = _execute(row, opts, spec, seed)
    if r['viol'] and row.kind != 'exact':
        sigs = {s for s, _ in r['viol']}
        for _ in range(2):
            r2 = _execute(row, opts, spec, seed)
            sigs &= {s for s, _ in r2['viol']}
            if not sigs:
                r['viol'] = []
                r['outcome'] = 'not-reproducible'
                return r
        r['viol'] = [(s, w) for s, w in r['viol'] if s in sigs]
    return r


# ------------------------------------------------------------------ workers
def _chunk(job: tuple) -> dict:
    global _DEADLINE
    rowname, tier, seed, opts, lo, hi, deadline = job
    _DEADLINE = deadline
    row = cat.ROWS[rowname]
    agg: dict[str, Any] = {
        'row': rowname, 'cases': 0, 'acts': 0, 'outcomes': {}, 'viol': [],
        'max_cost': 0.0, 'max_ent': 0.0, 'secs': 0.0, 'sample': None,
        'pre_errors': {}, 'notok': {},
    }
    if time.time() > deadline:
        return agg
    cpu0 = time.process_time()
    dom = domain_json(row, tier, seed, opts)
    for i in range(lo, hi):
        if time.time() > deadline:      # budget exhausted: return the prefix
            break
        spec = json.loads(dom[i])
        r = judge(rowname, opts, spec, seed)
        agg['cases'] += 1
        agg['outcomes'][r['outcome']] = agg['outcomes'].get(r['outcome'], 0) + 1
        if not r['outcome'].startswith('ok'):
            k = _fmt(opts) + ' ' + r['outcome']
            agg['notok'][k] = agg['notok'].get(k, 0) + 1
        if r['acts'] and r['outcome'] not in ('timeout', 'pre-pass-failed'):
            agg['acts'] += 1
        if r['outcome'].startswith('ok'):
            agg['max_cost'] = max(agg['max_cost'], r['cost'])
            agg['max_ent'] = max(agg['max_ent'], r['ent'])
        agg['secs'] += r.get('secs', 0.0)
        if 'pre_error' in r:
            agg['pre_errors'][r['pre_error'][:120]] = \
                agg['pre_errors'].get(r['pre_error'][:120], 0) + 1
        for sig, what in r['viol']:
            agg['viol'].append((sig, what, {
                'row': rowname, 'opts': opts, 'spec': spec, 'seed': seed,
            }))
        if agg['sample'] is None and r['outcome'] == 'ok-changed':
            agg['sample'] = {'pass': rowname, 'opts': opts, 'input': spec,
                             'outcome': r['outcome'],
                             'hs_cost': float(f'{r["cost"]:.2e}')}
    agg['cpu'] = time.process_time() - cpu0
    return agg


def _plan(tier: str, seed: int, deadline: float,
          only: set | None = None) -> list[list[tuple]]:
    """Per row: the list of chunks (each ~0.5 s of estimated work)."""
    plans = []
    for name, row in cat.ROWS.items():
        if only and name not in only:
            continue
        jobs = []
        for opts in row.options(tier, seed):
            n = len(domain_json(row, tier, seed, opts))
            step = max(1, int(0.5 / row.weight))
            for lo in range(0, n, step):
                jobs.append((name, tier, seed, opts, lo, min(n, lo + step),
                             deadline))
        # simplest first inside a row: low indices of every option first
        jobs.sort(key=lambda j: j[4])
        plans.append(jobs)
    return plans


def run(ctx: Ctx) -> None:
    only = set(filter(None, os.environ.get('C10_ONLY', '').split(','))) or None
    budget = QUICK_BUDGET if ctx.quick else THOROUGH_BUDGET
    budget = float(os.environ.get('C10_BUDGET', budget))   # development aid
    deadline = ctx.t0 + budget
    # the workers are forked after this and inherit the enumerated domains
    plans = _plan(ctx.tier, ctx.seed, deadline, only)
    total = {p[0][0]: sum(j[5] - j[4] for j in p) for p in plans if p}
    # interleave the rows proportionally, so that a time cap trims the same
    # fraction off the tail of every row's canonical order
    keyed = []
    for ri, p in enumerate(plans):
        for k, j in enumerate(p):
            keyed.append((k / len(p), ri, k, j))
    keyed.sort(key=lambda x: x[:3])
    jobs: list[tuple] = [x[3] for x in keyed]
    done: dict[str, int] = {}
    nontrivial = 0
    viols: list[tuple] = []
    per_row: dict[str, dict] = {}
    for agg in pmap(_chunk, jobs, procs=ctx.procs, initfn=_init_worker,
                    deadline=deadline + 30.0):
        name = agg['row']
        done[name] = done.get(name, 0) + agg['cases']
        nontrivial += agg['acts']
        d = per_row.setdefault(name, {
            'cases': 0, 'acts_on_input': 0, 'outcomes': {}, 'max_hs_cost': 0.0,
            'max_entry_dev': 0.0, 'pass_cpu_seconds': 0.0,
            'case_cpu_seconds': 0.0, 'pre_errors': {},
            'not_ok_by_option': {},
        })
        d['cases'] += agg['cases']
        d['acts_on_input'] += agg['acts']
        d['max_hs_cost'] = max(d['max_hs_cost'], agg['max_cost'])
        d['max_entry_dev'] = max(d['max_entry_dev'], agg['max_ent'])
        d['pass_cpu_seconds'] += agg['secs']
        d['case_cpu_seconds'] += agg.get('cpu', 0.0)
        for k, v in agg['outcomes'].items():
            d['outcomes'][k] = d['outcomes'].get(k, 0) + v
            ctx.outcomes[k] += v
        for k, v in agg['pre_errors'].items():
            d['pre_errors'][k] = d['pre_errors'].get(k, 0) + v
        for k, v in agg['notok'].items():
            d['not_ok_by_option'][k] = d['not_ok_by_option'].get(k, 0) + v
        viols.extend(agg['viol'])
        if agg['sample'] is not None and not d.get('sampled'):
            d['sampled'] = True
            ctx.sample(agg['sample'], limit=6)
    # simplest counterexample first: fewest ops, then shortest JSON
    viols.sort(key=lambda v: (
        v[0], len(v[2]['spec']['ops']), len(v[2]['spec']['radixes']),
        len(json.dumps(v[2])), json.dumps(v[2], sort_keys=True),
    ))
    for sig, what, rep in viols:
        ctx.violation(sig, what, rep)
    for name, tot in total.items():
        d = per_row.get(name, {'cases': 0})
        d.pop('sampled', None)
        for k in ('pre_errors', 'not_ok_by_option'):
            if not d.get(k):
                d.pop(k, None)
        row = cat.ROWS[name]
        ctx.part(
            name, kind=row.kind, domain_size=tot,
            options=len(row.options(ctx.tier, ctx.seed)),
            **{k: (float(f'{v:.3e}') if isinstance(v, float) else v)
               for k, v in d.items()},
        )
        if d.get('cases', 0) < tot:
            ctx.cap(f'{name}: {d.get("cases", 0)}/{tot} cases of the canonical '
                    f'order completed within the {budget:.0f}s budget')
    ctx.cov['evaluations'] = sum(done.values())
    ctx.cov['distinct_nontrivial'] = nontrivial
    ctx.cov['rule'] = (
        'cases = catalogue row x constructor-option dict x circuit spec, all '
        'enumerated (bounded alphabets/lengths per row, de-duplicated by '
        'JSON); non-trivial = the input contains an operation the pass acts '
        'on (Row.acts_on) and the pass ran to a verdict'
    )
    ctx.cov['catalogue_rows'] = len(cat.ROWS)
    ctx.cov['worker_cpu_seconds'] = round(sum(
        d.get('case_cpu_seconds', 0.0) for d in per_row.values()), 1)
    ctx.cov['skipped'] = cat.SKIPPED
    ctx.cov['uncatalogued_exports'] = cat.uncatalogued()
    ctx.assumptions.extend([
        'gate matrices (Gate.get_unitary) are trusted here; C18 checks them',
        'the loop-back worker is the one-worker schedule of the runtime',
        'a pass that exceeds its per-case time limit is recorded as '
        '"timeout" and not judged (termination is not part of C10)',
    ])


def replay(ctx: Ctx, obj: dict) -> bool:
    _init_worker()
    r = judge(obj['row'], obj['opts'], obj['spec'], obj.get('seed', ctx.seed))
    for sig, what in r['viol']:
        print(f'# {sig}: {what}')
    print(f'# outcome: {r["outcome"]}')
    return not r['viol']
